//! C14: the real `rusty_penguin_lib::server::State` (hyper `Service`), called in-process, against
//!   * the Lean model `Penguin.Gate.route/respond` (`drv_gate`),
//!   * an independent reference of the property text written here (`Conc::reference`), and a second
//!     expectation computed from the case *descriptor* (which variant of which header was sent),
//!   * the direct statement of the property on the implementation: 101 iff valid, every non-upgrade
//!     `/ws` response equals the response to the same request on the unknown path `/x`, with
//!     obfuscation `/health` and `/version` equal `/x` too, a tunnel task is spawned iff 101.
//!
//! The matrix (see `plan`): method x target x header-variant product x PSK configured x PSK presented x
//! obfs x OnUpgrade present. Accept hashes: the RFC 6455 example, every key length 0..=130 and random
//! keys against an own SHA-1/base64 and the Lean SHA-1/base64. A short part over a real TCP connection
//! (`run_listener`) shows that hyper attaches the `OnUpgrade` extension the in-process runs supply.
//! With a reverse-proxy backend: one that answers every path alike (`backend:` rows, responses equal),
//! and one that answers with the very request it was handed - request line, header lines, body, and a
//! digest of all but the path (`backend-view:` rows): a declined `/ws` request and the same request on
//! `/x` must reach the backend equal but for the path (with and without a presented / configured PSK,
//! a key, near-miss upgrade headers, a body, a query, forwarding headers; in-process and over TCP).
//!
//! The client's half (`gate_parts/client_request.rs`, also alone with `--family client-request`): generated
//! pairs of command lines, the real client's request captured on a loopback listener, compared with the
//! model's `ClientReq.sent`, handed to the real `State::call` / `run_listener`, monitors `right-key-refused`
//! and `wrong-key-admitted`; `ServerUrl::from_str` against `normalizeUrl`.
//!
//! Non-trivial case: a GET whose target routes to `ws_handler` (gets past the path and method tests); in
//! the client-request family: a request the real client wrote and the listener captured.

use bytes::Bytes;
use futures_util::FutureExt;
use http::{HeaderName, HeaderValue, Method, Request};
use http_body_util::{BodyExt, Empty};
use hyper::service::Service;
use pvhf::*;
use rusty_penguin_lib::server::State;
use std::collections::HashMap;
use std::panic::AssertUnwindSafe;

/// Family `client-request` (`--family client-request`): the request the real client builds.
#[path = "gate_parts/client_request.rs"]
mod client_request;

// ---------------------------------------------------------------------------------------------
// Own SHA-1 and base64 (independent oracle for the accept hash; self-tested on RFC vectors)
// ---------------------------------------------------------------------------------------------

fn sha1(msg: &[u8]) -> [u8; 20] {
    let mut h: [u32; 5] = [0x6745_2301, 0xEFCD_AB89, 0x98BA_DCFE, 0x1032_5476, 0xC3D2_E1F0];
    let mut m = msg.to_vec();
    m.push(0x80);
    while m.len() % 64 != 56 {
        m.push(0);
    }
    m.extend_from_slice(&((msg.len() as u64) * 8).to_be_bytes());
    for block in m.chunks(64) {
        let mut w = [0u32; 80];
        for i in 0..16 {
            w[i] = u32::from_be_bytes([block[4 * i], block[4 * i + 1], block[4 * i + 2], block[4 * i + 3]]);
        }
        for i in 16..80 {
            w[i] = (w[i - 3] ^ w[i - 8] ^ w[i - 14] ^ w[i - 16]).rotate_left(1);
        }
        let [mut a, mut b, mut c, mut d, mut e] = h;
        for (i, wi) in w.iter().enumerate() {
            let (f, k) = match i / 20 {
                0 => ((b & c) | (!b & d), 0x5A82_7999u32),
                1 => (b ^ c ^ d, 0x6ED9_EBA1),
                2 => ((b & c) | (b & d) | (c & d), 0x8F1B_BCDC),
                _ => (b ^ c ^ d, 0xCA62_C1D6),
            };
            let t = a.rotate_left(5).wrapping_add(f).wrapping_add(e).wrapping_add(k).wrapping_add(*wi);
            e = d;
            d = c;
            c = b.rotate_left(30);
            b = a;
            a = t;
        }
        for (x, y) in h.iter_mut().zip([a, b, c, d, e]) {
            *x = x.wrapping_add(y);
        }
    }
    let mut out = [0u8; 20];
    for (i, x) in h.iter().enumerate() {
        out[4 * i..4 * i + 4].copy_from_slice(&x.to_be_bytes());
    }
    out
}

fn base64(bs: &[u8]) -> Vec<u8> {
    const A: &[u8; 64] = b"ABCDEFGHIJKLMNOPQRSTUVWXYZabcdefghijklmnopqrstuvwxyz0123456789+/";
    let mut out = vec![];
    for ch in bs.chunks(3) {
        let n = (u32::from(ch[0]) << 16) | (u32::from(*ch.get(1).unwrap_or(&0)) << 8) | u32::from(*ch.get(2).unwrap_or(&0));
        out.push(A[(n >> 18) as usize & 63]);
        out.push(A[(n >> 12) as usize & 63]);
        out.push(if ch.len() > 1 { A[(n >> 6) as usize & 63] } else { b'=' });
        out.push(if ch.len() > 2 { A[n as usize & 63] } else { b'=' });
    }
    out
}

const GUID: &[u8] = b"258EAFA5-E914-47DA-95CA-C5AB0DC85B11";

fn ref_accept(key: &[u8]) -> Vec<u8> {
    let mut m = key.to_vec();
    m.extend_from_slice(GUID);
    base64(&sha1(&m))
}

// ---------------------------------------------------------------------------------------------
// Concrete requests and the reference of the property text
// ---------------------------------------------------------------------------------------------

const RFC_KEY: &[u8] = b"dGhlIHNhbXBsZSBub25jZQ==";
const RFC_ACCEPT: &[u8] = b"s3pPLMBiTxaQ9kYGzzhZRbK+xOo=";
const PSK: &[u8] = b"Correct PSK-123";
const NOT_FOUND: &[u8] = b"nothing here (configured 404 body)";
const UNKNOWN: &str = "/x";

#[derive(Clone, Debug, PartialEq, Eq, Hash)]
struct Cfg {
    psk: Option<Vec<u8>>,
    obfs: bool,
    not_found: Vec<u8>,
}

#[derive(Clone, Debug)]
struct Conc {
    cfg: Cfg,
    method: String,
    target: String,
    onup: bool,
    headers: Vec<(String, Vec<u8>)>,
    /// The request repeats a gated header in a way the property text does not settle (it speaks of
    /// "a header", not of several lines of it): such a request is not judged against the text, only
    /// for coherence (see `oracle`) and against the model. Set for the new repeated-line rows only;
    /// the older duplicated rows keep being judged by the first line.
    open: bool,
}

/// (status, sorted headers, body) as one line: `<status> <name>=<hex>,..|- <bodyhex>`
fn resp_line(status: u16, headers: &[(String, Vec<u8>)], body: &[u8]) -> String {
    let mut hs: Vec<_> = headers.iter().map(|(n, v)| (n.clone(), v.clone())).collect();
    hs.sort();
    let htxt = if hs.is_empty() {
        "-".to_string()
    } else {
        hs.iter().map(|(n, v)| format!("{n}={}", hexd(v))).collect::<Vec<_>>().join(",")
    };
    format!("{status} {htxt} {}", hexd(body))
}

fn eq_ci(a: &[u8], b: &[u8]) -> bool {
    let low = |x: u8| if x.is_ascii_uppercase() { x + 32 } else { x };
    a.len() == b.len() && a.iter().zip(b).all(|(x, y)| low(*x) == low(*y))
}

fn pkg_version() -> &'static str {
    static V: std::sync::OnceLock<String> = std::sync::OnceLock::new();
    V.get_or_init(|| {
        let text = std::fs::read_to_string("/repo/penguin/Cargo.toml").expect("read /repo/penguin/Cargo.toml");
        let mut in_pkg = false;
        for l in text.lines() {
            let l = l.trim();
            if l.starts_with('[') {
                in_pkg = l == "[package]";
            } else if in_pkg && l.starts_with("version") {
                if let Some(v) = l.split('"').nth(1) {
                    return v.to_string();
                }
            }
        }
        panic!("no package version in /repo/penguin/Cargo.toml")
    })
}

impl Conc {
    fn first(&self, name: &str) -> Option<&[u8]> {
        self.headers.iter().find(|(n, _)| n == name).map(|(_, v)| v.as_slice())
    }
    fn path(&self) -> &str {
        self.target.split('?').next().unwrap_or("")
    }
    /// The property text, read literally (no backend): is this a request the server must upgrade?
    fn reference_upgrade(&self) -> bool {
        let is = |name: &str, want: &[u8]| self.first(name).is_some_and(|v| eq_ci(v, want));
        self.method == "GET"
            && self.path() == "/ws"
            && is("connection", b"upgrade")
            && is("upgrade", b"websocket")
            && is("sec-websocket-version", b"13")
            && is("sec-websocket-protocol", b"penguin-v7")
            && self.first("sec-websocket-key").is_some()
            && self.cfg.psk.as_deref().is_none_or(|p| self.first("x-penguin-psk") == Some(p))
            && self.onup
    }
    /// Is there any reading of repeated lines (first, last, some line) under which the request is a
    /// valid upgrade request? Everything but the repeated headers is read as in `reference_upgrade`.
    fn some_reading_upgrades(&self) -> bool {
        let some = |name: &str, want: &[u8], fold: bool| {
            self.headers.iter().any(|(n, v)| n == name && if fold { eq_ci(v, want) } else { v.as_slice() == want })
        };
        self.method == "GET"
            && self.path() == "/ws"
            && some("connection", b"upgrade", true)
            && some("upgrade", b"websocket", true)
            && some("sec-websocket-version", b"13", true)
            && some("sec-websocket-protocol", b"penguin-v7", true)
            && self.first("sec-websocket-key").is_some()
            && self.cfg.psk.as_deref().is_none_or(|p| some("x-penguin-psk", p, false))
            && self.onup
    }
    /// What the property text says: `Some(must upgrade)`, or `None` when it does not settle the matter
    /// (an `open` request with a gated header on several lines, valid under some reading of them).
    fn upgrade_verdict(&self) -> Option<bool> {
        let strict = self.reference_upgrade();
        if !self.open {
            return Some(strict);
        }
        let mut gated = vec!["connection", "upgrade", "sec-websocket-version", "sec-websocket-protocol"];
        if self.cfg.psk.is_some() {
            gated.push("x-penguin-psk");
        }
        let repeated = gated.iter().any(|g| self.headers.iter().filter(|(n, _)| n == g).count() > 1);
        if !repeated {
            Some(strict)
        } else if self.some_reading_upgrades() {
            None
        } else {
            Some(false)
        }
    }
    /// The whole response the property prescribes.
    fn reference(&self) -> String {
        self.reference_for(self.reference_upgrade())
    }
    /// The responses the property allows: one, or the two coherent ones where the text is open.
    fn acceptable(&self) -> Vec<String> {
        match self.upgrade_verdict() {
            Some(up) => vec![self.reference_for(up)],
            None => vec![self.reference_for(true), self.reference_for(false)],
        }
    }
    /// The whole response the property prescribes for a request that must (not) be upgraded.
    fn reference_for(&self, upgrade: bool) -> String {
        if upgrade {
            let hs = vec![
                ("connection".to_string(), b"upgrade".to_vec()),
                ("upgrade".to_string(), b"websocket".to_vec()),
                ("sec-websocket-protocol".to_string(), b"penguin-v7".to_vec()),
                ("sec-websocket-accept".to_string(), ref_accept(self.first("sec-websocket-key").unwrap_or(b""))),
            ];
            resp_line(101, &hs, b"")
        } else if self.path() == "/health" && !self.cfg.obfs {
            resp_line(200, &[], b"OK")
        } else if self.path() == "/version" && !self.cfg.obfs {
            resp_line(200, &[], pkg_version().as_bytes())
        } else {
            resp_line(404, &[], &self.cfg.not_found)
        }
    }
    fn with_target(&self, t: &str) -> Self {
        let mut c = self.clone();
        c.target = t.to_string();
        c
    }
    fn driver_line(&self) -> String {
        let mut s = String::with_capacity(320);
        s.push_str("route ");
        match &self.cfg.psk {
            None => s.push_str("none"),
            Some(p) => {
                s.push_str("some:");
                s.push_str(&hexd(p));
            }
        }
        s.push_str(if self.cfg.obfs { " 1 " } else { " 0 " });
        s.push_str(&hexd(&self.cfg.not_found));
        s.push(' ');
        s.push_str(&self.method);
        s.push(' ');
        s.push_str(&hexd(self.target.as_bytes()));
        s.push_str(if self.onup { " 1" } else { " 0" });
        for (n, v) in &self.headers {
            s.push(' ');
            s.push_str(n);
            s.push('=');
            s.push_str(&hexd(v));
        }
        s
    }
    fn to_json(&self) -> Value {
        json!({
            "op": "route",
            "psk": self.cfg.psk.as_ref().map(|p| hexd(p)),
            "psk_text": self.cfg.psk.as_ref().map(|p| String::from_utf8_lossy(p).into_owned()),
            "obfs": self.cfg.obfs,
            "not_found": hexd(&self.cfg.not_found),
            "method": self.method, "target": self.target, "on_upgrade": self.onup, "text_open": self.open,
            "headers": self.headers.iter().map(|(n, v)| json!([n, hexd(v), String::from_utf8_lossy(v)])).collect::<Vec<_>>(),
        })
    }
    fn from_json(v: &Value) -> Option<Self> {
        Some(Self {
            cfg: Cfg {
                psk: match v.get("psk") {
                    None | Some(Value::Null) => None,
                    Some(p) => Some(unhex(p.as_str()?)?),
                },
                obfs: v["obfs"].as_bool()?,
                not_found: unhex(v["not_found"].as_str()?)?,
            },
            method: v["method"].as_str()?.to_string(),
            target: v["target"].as_str()?.to_string(),
            onup: v["on_upgrade"].as_bool()?,
            headers: v["headers"]
                .as_array()?
                .iter()
                .map(|h| Some((h[0].as_str()?.to_string(), unhex(h[1].as_str()?)?)))
                .collect::<Option<Vec<_>>>()?,
            open: v.get("text_open").and_then(Value::as_bool).unwrap_or(false),
        })
    }
}

// ---------------------------------------------------------------------------------------------
// Case descriptors (the matrix)
// ---------------------------------------------------------------------------------------------

const METHODS: [&str; 5] = ["GET", "POST", "HEAD", "CONNECT", "get"];
const TARGETS: [&str; 7] = ["/ws", "/ws/", "/WS", "/ws?x", "/health", "/version", UNKNOWN];
const HNAMES: [&str; 5] = ["connection", "upgrade", "sec-websocket-version", "sec-websocket-protocol", "sec-websocket-key"];
const KEY: usize = 4;

/// Variants of one of the five headers.
const V_ABSENT: u8 = 0;
const V_EXACT: u8 = 1;
const V_CASE: u8 = 2;
const V_NEAR: u8 = 3;
const V_EMPTY: u8 = 4;
const V_DUP_GOOD_BAD: u8 = 5;
const V_DUP_BAD_GOOD: u8 = 6;
const V_PAD_RIGHT: u8 = 7;
const V_PAD_LEFT: u8 = 8;
const V_LIST: u8 = 9;
const V_HIGH_BIT: u8 = 10;
const V_PREFIX: u8 = 11;
const VNAMES: [&str; 12] = ["absent", "exact", "case", "near-miss", "empty", "dup-good-bad", "dup-bad-good", "pad-right", "pad-left", "list", "high-bit", "prefix"];

/// Variants of the presented `x-penguin-psk`.
const P_ABSENT: u8 = 0;
const P_EQUAL: u8 = 1;
const P_CASE: u8 = 2;
const P_NEAR: u8 = 3;
const P_PREFIX: u8 = 4;
const P_PADDED: u8 = 5;
const P_EMPTY: u8 = 6;
const P_DUP_GOOD_BAD: u8 = 7;
const P_DUP_BAD_GOOD: u8 = 8;
const PNAMES: [&str; 9] = ["absent", "equal", "case-variant", "near-miss", "prefix", "padded", "empty", "dup-good-bad", "dup-bad-good"];

fn exact_value(h: usize) -> Vec<u8> {
    match h {
        0 => b"upgrade".to_vec(),
        1 => b"websocket".to_vec(),
        2 => b"13".to_vec(),
        3 => penguin_mux::PROTOCOL_VERSION.as_bytes().to_vec(),
        _ => RFC_KEY.to_vec(),
    }
}

fn near_value(h: usize) -> Vec<u8> {
    match h {
        0 => b"keep-alive".to_vec(),
        1 => b"websockets".to_vec(),
        2 => b"12".to_vec(),
        3 => b"penguin-v6".to_vec(),
        _ => b"AAAA".to_vec(),
    }
}

fn case_value(h: usize) -> Vec<u8> {
    exact_value(h)
        .iter()
        .enumerate()
        .map(|(i, b)| if i % 2 == 0 { b.to_ascii_uppercase() } else { b.to_ascii_lowercase() })
        .collect()
}

fn header_values(h: usize, var: u8) -> Vec<Vec<u8>> {
    if var >= V_TABLE {
        return table(h)[(var - V_TABLE) as usize].lines.clone();
    }
    let ex = exact_value(h);
    match var {
        V_ABSENT => vec![],
        V_EXACT => vec![ex],
        V_CASE => vec![case_value(h)],
        V_NEAR => vec![near_value(h)],
        V_EMPTY => vec![vec![]],
        V_DUP_GOOD_BAD => vec![ex, near_value(h)],
        V_DUP_BAD_GOOD => vec![near_value(h), ex],
        V_PAD_RIGHT => vec![[ex.as_slice(), b" "].concat()],
        V_PAD_LEFT => vec![[b" ".as_slice(), &ex].concat()],
        V_LIST => vec![[b"x, ".as_slice(), &ex].concat()],
        V_HIGH_BIT => {
            let mut v = ex;
            v[0] |= 0x80;
            vec![v]
        }
        V_PREFIX => vec![ex[..ex.len() - 1].to_vec()],
        _ => unreachable!("header variant"),
    }
}

/// Does the variant satisfy "first value equals the wanted one up to ASCII case" (by construction)?
fn variant_good(var: u8) -> bool {
    matches!(var, V_EXACT | V_CASE | V_DUP_GOOD_BAD)
}

// ---------------------------------------------------------------------------------------------
// Near-miss values of the gated headers (variant codes `V_TABLE + i` / `P_TABLE + i`)
// ---------------------------------------------------------------------------------------------

/// What the property text says about an otherwise valid upgrade request that carries this value of
/// one gated header. Written down by hand per entry (by construction of the value), independently of
/// `Conc::reference_upgrade`, which decides from the bytes; the two are compared on every row.
///   * version: valid iff the value is exactly `13`;
///   * connection / upgrade / protocol: valid iff the WHOLE value equals the token up to ASCII case
///     (no list parsing, no trimming, no Unicode case folding);
///   * PSK: valid iff byte-for-byte equal.
/// `Open`: the header is on several lines and the text does not say which line counts.
#[derive(Clone, Copy, Debug, PartialEq, Eq)]
enum Says {
    Valid,
    Invalid,
    Open,
}

struct Nm {
    name: String,
    lines: Vec<Vec<u8>>,
    says: Says,
}

const V_TABLE: u8 = 64;
const P_TABLE: u8 = 64;

fn one(name: &str, parts: &[&[u8]], says: Says) -> Nm {
    Nm { name: name.to_string(), lines: vec![parts.concat()], says }
}

/// A literal value, named by its text.
fn lit(text: &str) -> Nm {
    Nm { name: format!("{text:?}"), lines: vec![text.as_bytes().to_vec()], says: Says::Invalid }
}

fn several(name: &str, lines: &[&[u8]]) -> Nm {
    Nm { name: name.to_string(), lines: lines.iter().map(|l| l.to_vec()).collect(), says: Says::Open }
}

/// Near misses every wanted value `t` has: something before / after / inside it, list forms with
/// another plausible member `other`, white space a `HeaderValue` can hold, bytes beyond ASCII, and
/// the header on several lines. `fold`: the header is compared case-insensitively (else: exact bytes).
fn common_near_misses(t: &[u8], other: &[u8], fold: bool) -> Vec<Nm> {
    use Says::{Invalid, Valid};
    let up = t.to_ascii_uppercase();
    let low = t.to_ascii_lowercase();
    let mut cap = low.clone();
    let mut start = true;
    for b in &mut cap {
        if start {
            *b = b.to_ascii_uppercase();
        }
        start = !b.is_ascii_alphanumeric();
    }
    // the last letter in the other case
    let mut flip = t.to_vec();
    if let Some(b) = flip.iter_mut().rev().find(|b| b.is_ascii_alphabetic()) {
        *b ^= 0x20;
    }
    let mut v = vec![];
    // (1) other spellings of the same letters: valid where case is folded, invalid where it is not
    for (name, val) in [("upper-case", &up), ("lower-case", &low), ("capitalised", &cap), ("last-letter-other-case", &flip)] {
        if val.as_slice() != t {
            v.push(one(name, &[val], if fold { Valid } else { Invalid }));
        }
    }
    // (2) the right value with something before / after it
    v.push(one("x-prefixed", &[b"x", t], Invalid));
    v.push(one("x-suffixed", &[t, b"x"], Invalid));
    v.push(one("doubled", &[t, t], Invalid));
    v.push(one("first-char-dropped", &[&t[1..]], Invalid));
    v.push(one("quoted", &[b"\"", t, b"\""], Invalid));
    // (3) list forms
    v.push(one("list-right-first", &[t, b", ", other], Invalid));
    v.push(one("list-right-last", &[other, b", ", t], Invalid));
    v.push(one("list-nospace-right-first", &[t, b",", other], Invalid));
    v.push(one("list-nospace-right-last", &[other, b",", t], Invalid));
    v.push(one("list-right-twice", &[t, b", ", t], Invalid));
    v.push(one("list-nospace-right-twice", &[t, b",", t], Invalid));
    v.push(one("list-capitalised-right-last", &[other, b", ", &cap], Invalid));
    v.push(one("trailing-comma", &[t, b","], Invalid));
    v.push(one("leading-comma", &[b",", t], Invalid));
    v.push(one("with-parameter", &[t, b";q=1"], Invalid));
    // (4) white space the in-process request keeps (a connection strips the outer blanks: `wire_part`)
    v.push(one("space-both-sides", &[b" ", t, b" "], Invalid));
    v.push(one("two-trailing-spaces", &[t, b"  "], Invalid));
    v.push(one("trailing-tab", &[t, b"\t"], Invalid));
    v.push(one("leading-tab", &[b"\t", t], Invalid));
    v.push(one("inner-space", &[&t[..1], b" ", &t[1..]], Invalid));
    v.push(one("inner-tab", &[&t[..1], b"\t", &t[1..]], Invalid));
    v.push(one("empty", &[], Invalid));
    v.push(one("one-space", &[b" "], Invalid));
    // (5) bytes beyond ASCII
    v.push(one("nbsp-suffixed", &[t, "\u{a0}".as_bytes()], Invalid));
    v.push(one("nbsp-prefixed", &["\u{a0}".as_bytes(), t], Invalid));
    v.push(one("zero-width-space-suffixed", &[t, "\u{200b}".as_bytes()], Invalid));
    v.push(one("byte-ff-suffixed", &[t, b"\xff"], Invalid));
    // (6) the header on several lines: not judged against the text
    v.push(several("lines:right,right", &[t, t]));
    if up.as_slice() != t {
        v.push(several("lines:right,upper-case", &[t, &up]));
        v.push(several("lines:upper-case,right", &[&up, t]));
    }
    let suffixed = [t, b"x".as_slice()].concat();
    let listed = [other, b", ".as_slice(), t].concat();
    v.push(several("lines:right,x-suffixed", &[t, &suffixed]));
    v.push(several("lines:x-suffixed,right", &[&suffixed, t]));
    v.push(several("lines:right,empty", &[t, b""]));
    v.push(several("lines:empty,right", &[b"", t]));
    v.push(several("lines:right,list-right-last", &[t, &listed]));
    v.push(several("lines:list-right-last,right", &[&listed, t]));
    v.push(several("lines:right,other", &[t, other]));
    v.push(several("lines:other,right", &[other, t]));
    v.push(several("lines:right,right,other", &[t, t, other]));
    v
}

/// The table of one of the five headers (none for the key: the property asks for its presence only).
fn table(h: usize) -> &'static [Nm] {
    static T: std::sync::OnceLock<Vec<Vec<Nm>>> = std::sync::OnceLock::new();
    &T.get_or_init(|| {
        let mut all = vec![];
        for h in 0..5 {
            let t = exact_value(h);
            let mut v = match h {
                0 => common_near_misses(&t, b"keep-alive", true),
                1 => common_near_misses(&t, b"h2c", true),
                2 => common_near_misses(&t, b"8", true),
                3 => common_near_misses(&t, b"other", true),
                _ => vec![],
            };
            let extra: &[&str] = match h {
                0 => &["upgrades", "upgrade-insecure-requests", "upgrade; websocket", "upgrade websocket", "up-grade", "upgrade/1.1"],
                // the long s and the Kelvin sign fold to `s` / `k` under Unicode (not ASCII) case folding
                1 => &["websocket/13", "websocket, websocket/13", "web-socket", "web socket", "ws", "websocket13", "web\u{17f}ocket", "websoc\u{212a}et"],
                // numbers that are 13 to a parser but not the value `13`
                2 => &[
                    "013", "0013", "00013", "+13", "+013", "-13", "13.0", "13.", "13.00", "1_3", "0x0d", "0xD", "0x13", "0b1101", "015", "0o15", "d", "D",
                    "13e0", "1.3e1", "1 3", "1\t3", "1,3", "\u{ff11}\u{ff13}", "1\u{ff13}", "\u{661}\u{663}", "13,13", "13, 13", "13;13", "269", "525", "65549",
                    "4294967309", "113", "130", "131", "1", "14", "12", "7, 8, 13", "v13", "#13", "13\u{b0}", "XIII", "thirteen", "13 ;", "13 #",
                ],
                // the dotless i upper-cases to `I` under Unicode case mapping
                3 => &[
                    "penguin-v70", "penguin-v", "penguin-v07", "penguin-v7.0", "penguin-v7-rc", "penguin-v8", "penguin-v6", "penguin-v6, penguin-v7",
                    "penguin-v7, penguin-v6", "penguin_v7", "penguin v7", "penguinv7", "penguin-7", "penguin", "v7", "7", "*", "pengu\u{131}n-v7", "penguin\u{2010}v7",
                ],
                _ => &[],
            };
            for e in extra {
                // a literal must not be the wanted value in another case (those are in the common part)
                assert!(!eq_ci(e.as_bytes(), &t), "literal near miss {e:?} is the wanted value");
                v.push(lit(e));
            }
            assert!(v.len() < usize::from(u8::MAX - V_TABLE));
            all.push(v);
        }
        all
    })[h]
}

/// Near misses of the presented pre-shared key (compared byte for byte: another case is another key).
fn psk_table() -> &'static [Nm] {
    static T: std::sync::OnceLock<Vec<Nm>> = std::sync::OnceLock::new();
    T.get_or_init(|| {
        let mut v = common_near_misses(PSK, b"other", false);
        v.push(one("first-letter-other-case", &[&[PSK[0] ^ 0x20], &PSK[1..]], Says::Invalid));
        v.push(one("digit-appended", &[PSK, b"4"], Says::Invalid));
        v.push(one("first-char-only", &[&PSK[..1]], Says::Invalid));
        v.push(one("inner-space-doubled", &[b"Correct  PSK-123"], Says::Invalid));
        v.push(one("inner-space-as-tab", &[b"Correct\tPSK-123"], Says::Invalid));
        v.push(one("inner-space-dropped", &[b"CorrectPSK-123"], Says::Invalid));
        v.push(one("high-bit-on-first-byte", &[&[PSK[0] | 0x80], &PSK[1..]], Says::Invalid));
        v.push(one("bearer-prefixed", &[b"Bearer ", PSK], Says::Invalid));
        for n in &v {
            assert!(n.says != Says::Valid && (n.lines.len() > 1 || n.lines[0] != PSK), "PSK near miss {} equals the key", n.name);
        }
        assert!(v.len() < usize::from(u8::MAX - P_TABLE));
        v
    })
}

/// What the text says about one header variant (older variants: valid iff the first line is right).
fn variant_says(h: usize, var: u8) -> Says {
    if var >= V_TABLE {
        table(h)[(var - V_TABLE) as usize].says
    } else if variant_good(var) {
        Says::Valid
    } else {
        Says::Invalid
    }
}

fn psk_says(var: u8) -> Says {
    if var >= P_TABLE {
        psk_table()[(var - P_TABLE) as usize].says
    } else if matches!(var, P_EQUAL | P_DUP_GOOD_BAD) {
        Says::Valid
    } else {
        Says::Invalid
    }
}

fn vname(h: usize, var: u8) -> String {
    if var >= V_TABLE { table(h)[(var - V_TABLE) as usize].name.clone() } else { VNAMES[var as usize].to_string() }
}

fn pname(var: u8) -> String {
    if var >= P_TABLE { psk_table()[(var - P_TABLE) as usize].name.clone() } else { PNAMES[var as usize].to_string() }
}

fn psk_values(var: u8) -> Vec<Vec<u8>> {
    if var >= P_TABLE {
        return psk_table()[(var - P_TABLE) as usize].lines.clone();
    }
    let near: Vec<u8> = b"Correct PSK-124".to_vec();
    match var {
        P_ABSENT => vec![],
        P_EQUAL => vec![PSK.to_vec()],
        P_CASE => vec![PSK.to_ascii_lowercase()],
        P_NEAR => vec![near],
        P_PREFIX => vec![PSK[..PSK.len() - 1].to_vec()],
        P_PADDED => vec![[PSK, b" "].concat()],
        P_EMPTY => vec![vec![]],
        P_DUP_GOOD_BAD => vec![PSK.to_vec(), near],
        P_DUP_BAD_GOOD => vec![near, PSK.to_vec()],
        _ => unreachable!("psk variant"),
    }
}

#[derive(Clone, Copy, Debug, PartialEq, Eq)]
struct Case {
    hv: [u8; 5],
    pv: u8,
    psk_cfg: bool,
    obfs: bool,
    onup: bool,
    method: u8,
    target: u8,
}

impl Case {
    fn conc(&self) -> Conc {
        let mut headers = vec![("host".to_string(), b"example.com".to_vec())];
        for h in 0..5 {
            for v in header_values(h, self.hv[h]) {
                headers.push((HNAMES[h].to_string(), v));
            }
        }
        for v in psk_values(self.pv) {
            headers.push(("x-penguin-psk".to_string(), v));
        }
        Conc {
            cfg: Cfg { psk: self.psk_cfg.then(|| PSK.to_vec()), obfs: self.obfs, not_found: NOT_FOUND.to_vec() },
            method: METHODS[self.method as usize].to_string(),
            target: TARGETS[self.target as usize].to_string(),
            onup: self.onup,
            headers,
            open: self.says().contains(&Says::Open),
        }
    }
    /// What the text says about each gated header of this case (the PSK only where one is configured).
    fn says(&self) -> Vec<Says> {
        let mut v: Vec<Says> = (0..4).map(|h| variant_says(h, self.hv[h])).collect();
        if self.psk_cfg {
            v.push(psk_says(self.pv));
        }
        v
    }
    /// Expectation from the descriptor alone (which variant was put where); `None`: the text is open.
    fn expect_upgrade(&self) -> Option<bool> {
        let says = self.says();
        let rest = self.method == 0
            && matches!(TARGETS[self.target as usize], "/ws" | "/ws?x")
            && self.hv[KEY] != V_ABSENT
            && self.onup;
        if !rest || says.contains(&Says::Invalid) {
            Some(false)
        } else if says.contains(&Says::Open) {
            None
        } else {
            Some(true)
        }
    }
    fn describe(&self) -> String {
        format!(
            "{} {} [{}] psk-presented={} psk-configured={} obfs={} on-upgrade={}",
            METHODS[self.method as usize],
            TARGETS[self.target as usize],
            (0..5).map(|h| format!("{}:{}", HNAMES[h], vname(h, self.hv[h]))).collect::<Vec<_>>().join(" "),
            pname(self.pv),
            self.psk_cfg,
            self.obfs,
            self.onup
        )
    }
}

/// Header-variant combinations `(hv, pv)`, in three parts.
struct Plan {
    base: Vec<([u8; 5], u8)>,
    ext_required: Vec<([u8; 5], u8)>,
    ext_more: Vec<([u8; 5], u8)>,
    /// every near-miss value of every gated header (and of the presented PSK) on an otherwise exact request
    near: Vec<([u8; 5], u8)>,
    /// the same values with the other headers in every exact / case-changed combination (thorough)
    near_cased: Vec<([u8; 5], u8)>,
}

fn plan() -> Plan {
    let mut base = vec![];
    let mut ext_required = vec![];
    let mut ext_more = vec![];
    let base_p = [P_ABSENT, P_EQUAL, P_CASE, P_NEAR, P_PREFIX, P_PADDED];
    let four = |k: usize| -> [u8; 5] {
        let mut hv = [0u8; 5];
        let mut k = k;
        for x in &mut hv {
            *x = (k % 4) as u8;
            k /= 4;
        }
        hv
    };
    // base: {absent, exact, case, near-miss}^5 x six presented-PSK variants
    for k in 0..1024 {
        for p in base_p {
            base.push((four(k), p));
        }
    }
    // required variants {empty, duplicated good-then-bad, duplicated bad-then-good} of one header,
    // every other header over its four base variants, every base PSK variant
    for h in 0..5 {
        for var in [V_EMPTY, V_DUP_GOOD_BAD, V_DUP_BAD_GOOD] {
            for k in 0..1024 {
                let mut hv = four(k);
                if hv[h] != 0 {
                    continue; // enumerate the other four once
                }
                hv[h] = var;
                for p in base_p {
                    ext_required.push((hv, p));
                }
            }
        }
    }
    for p in [P_EMPTY, P_DUP_GOOD_BAD, P_DUP_BAD_GOOD] {
        for k in 0..1024 {
            ext_required.push((four(k), p));
        }
    }
    // further near misses of one header, the others exact or case-changed
    for h in 0..5 {
        for var in [V_PAD_RIGHT, V_PAD_LEFT, V_LIST, V_HIGH_BIT, V_PREFIX] {
            for k in 0..16 {
                let mut hv = [V_EXACT; 5];
                let mut j = 0;
                for (i, x) in hv.iter_mut().enumerate() {
                    if i != h {
                        *x = if (k >> j) & 1 == 0 { V_EXACT } else { V_CASE };
                        j += 1;
                    }
                }
                hv[h] = var;
                for p in [P_ABSENT, P_EQUAL] {
                    ext_more.push((hv, p));
                }
            }
        }
    }
    // the near-miss tables: one header (or the presented PSK) off, the rest right
    let mut near = vec![];
    let mut near_cased = vec![];
    let others = |k: usize, skip: Option<usize>| -> [u8; 5] {
        let mut hv = [V_EXACT; 5];
        let mut j = 0;
        for (i, x) in hv.iter_mut().enumerate() {
            if Some(i) != skip {
                *x = if (k >> j) & 1 == 0 { V_EXACT } else { V_CASE };
                j += 1;
            }
        }
        hv
    };
    for h in 0..4 {
        for e in 0..table(h).len() {
            for k in 0..16 {
                let mut hv = others(k, Some(h));
                hv[h] = V_TABLE + e as u8;
                for p in [P_ABSENT, P_EQUAL] {
                    (if k == 0 { &mut near } else { &mut near_cased }).push((hv, p));
                }
            }
        }
    }
    for e in 0..psk_table().len() {
        for k in 0..32 {
            (if k == 0 { &mut near } else { &mut near_cased }).push((others(k, None), P_TABLE + e as u8));
        }
    }
    Plan { base, ext_required, ext_more, near, near_cased }
}

// ---------------------------------------------------------------------------------------------
// Implementation side
// ---------------------------------------------------------------------------------------------

#[derive(Clone, Debug)]
struct Obs {
    /// `Ok(status headers body)` or the panic / error text
    line: Result<String, String>,
    status: u16,
    /// tasks alive after the call minus before (the tunnel task of `ws_handler`)
    spawned: i64,
    /// the spawned task did not end after the request was answered and the runtime ran
    leaked: bool,
}

struct Impl {
    rt: tokio::runtime::Runtime,
    states: HashMap<Cfg, State>,
}

impl Impl {
    fn new() -> Self {
        let rt = tokio::runtime::Builder::new_current_thread().enable_all().build().expect("tokio runtime");
        Self { rt, states: HashMap::new() }
    }

    fn state(&mut self, cfg: &Cfg) -> State {
        if let Some(s) = self.states.get(cfg) {
            return s.clone();
        }
        let psk: Option<&'static HeaderValue> = cfg
            .psk
            .as_ref()
            .map(|p| &*Box::leak(Box::new(HeaderValue::from_bytes(p).expect("psk is a header value"))));
        let nf: &'static str = Box::leak(String::from_utf8(cfg.not_found.clone()).expect("utf8 404 body").into_boxed_str());
        let st = self
            .rt
            .block_on(State::new())
            .expect("State::new")
            .with_ws_psk(psk)
            .with_not_found_resp(nf)
            .obfs(cfg.obfs)
            .with_backend_http2_support(false);
        self.states.insert(cfg.clone(), st.clone());
        st
    }

    fn eval(&mut self, c: &Conc) -> Obs {
        let st = self.state(&c.cfg);
        self.rt.block_on(eval_async(&st, c))
    }
}

fn build_request(c: &Conc) -> Result<Request<Empty<Bytes>>, String> {
    build_request_with(c, Empty::<Bytes>::new())
}

fn build_request_with<B>(c: &Conc, body: B) -> Result<Request<B>, String> {
    let mut b = Request::builder()
        .method(Method::from_bytes(c.method.as_bytes()).map_err(|e| format!("method: {e}"))?)
        .uri(c.target.as_str());
    for (n, v) in &c.headers {
        let name = HeaderName::from_bytes(n.as_bytes()).map_err(|e| format!("header name: {e}"))?;
        let val = HeaderValue::from_bytes(v).map_err(|e| format!("header value: {e}"))?;
        b = b.header(name, val);
    }
    if c.onup {
        b = b.extension(hyper::upgrade::on(Request::new(Empty::<Bytes>::new())));
    }
    b.body(body).map_err(|e| format!("request: {e}"))
}

async fn eval_async(st: &State, c: &Conc) -> Obs {
    let req = match build_request(c) {
        Ok(r) => r,
        Err(e) => return Obs { line: Err(format!("harness cannot build the request: {e}")), status: 0, spawned: 0, leaked: false },
    };
    let metrics = tokio::runtime::Handle::current().metrics();
    let before = metrics.num_alive_tasks() as i64;
    let fut = AssertUnwindSafe(async {
        let resp = Service::<Request<Empty<Bytes>>>::call(st, req).await.map_err(|e| format!("service error: {e}"))?;
        let (parts, body) = resp.into_parts();
        let body = body.collect().await.map_err(|e| format!("body error: {e}"))?.to_bytes();
        let hs: Vec<(String, Vec<u8>)> =
            parts.headers.iter().map(|(n, v)| (n.as_str().to_string(), v.as_bytes().to_vec())).collect();
        Ok::<_, String>((parts.status.as_u16(), resp_line(parts.status.as_u16(), &hs, &body)))
    })
    .catch_unwind()
    .await;
    let spawned = metrics.num_alive_tasks() as i64 - before;
    let (status, line) = match fut {
        Ok(Ok((s, l))) => (s, Ok(l)),
        Ok(Err(e)) => (0, Err(e)),
        Err(_) => (0, Err("panic in State::call".to_string())),
    };
    // let the tunnel task run: its OnUpgrade never resolves to a connection, so it must end
    let mut leaked = false;
    if spawned != 0 {
        for _ in 0..16 {
            tokio::task::yield_now().await;
            if metrics.num_alive_tasks() as i64 == before {
                break;
            }
        }
        leaked = metrics.num_alive_tasks() as i64 != before;
    }
    Obs { line, status, spawned, leaked }
}

/// The property, checked on the implementation for one request and its twin on the unknown path.
/// `Some((kind, why))` when it fails.
fn oracle(c: &Conc, o: &Obs, twin: &Obs) -> Option<(&'static str, String)> {
    let line = match &o.line {
        Ok(l) => l,
        Err(e) => return Some(("crash", e.clone())),
    };
    // where the text is open (a gated header on several lines) either answer is taken, and has to be
    // coherent: 101 with the prescribed response and a tunnel, or exactly the unknown-path response
    let want_up = c.upgrade_verdict().unwrap_or(o.status == 101);
    if (o.status == 101) != want_up {
        return Some((
            "iff",
            format!("request is {}a valid upgrade request but the status is {}", if want_up { "" } else { "not " }, o.status),
        ));
    }
    if (o.spawned == 1) != want_up || o.spawned < 0 || o.spawned > 1 {
        return Some(("tunnel", format!("valid upgrade = {want_up} but {} task(s) were spawned", o.spawned)));
    }
    if o.leaked {
        return Some(("tunnel-leak", "the tunnel task of a never-upgraded connection did not end".into()));
    }
    let want = c.reference_for(want_up);
    if *line != want {
        return Some(("response", format!("response `{line}` but the property prescribes `{want}`")));
    }
    // indistinguishability, stated on the implementation alone
    let hidden = !want_up && !(matches!(c.path(), "/health" | "/version") && !c.cfg.obfs);
    if hidden && o.line != twin.line {
        return Some((
            "distinguishable",
            format!("response `{line}` differs from the response to the same request on {UNKNOWN}: `{}`", twin.line.clone().unwrap_or_else(|e| e)),
        ));
    }
    None
}

/// The plainer neighbours of a case: one dimension reset to its plain value.
fn shrink_candidates(cur: Case) -> Vec<Case> {
    let mut cands: Vec<Case> = vec![];
    for h in 0..5 {
        for v in [V_EXACT, V_ABSENT] {
            if cur.hv[h] != v && cur.hv[h] != V_EXACT {
                let mut c = cur;
                c.hv[h] = v;
                cands.push(c);
            }
        }
    }
    if cur.pv != P_EQUAL {
        cands.push(Case { pv: P_EQUAL, ..cur });
    }
    if cur.pv != P_ABSENT && cur.pv != P_EQUAL {
        cands.push(Case { pv: P_ABSENT, ..cur });
    }
    if cur.obfs {
        cands.push(Case { obfs: false, ..cur });
    }
    if !cur.onup {
        cands.push(Case { onup: true, ..cur });
    }
    if cur.psk_cfg {
        cands.push(Case { psk_cfg: false, ..cur });
    }
    if cur.method != 0 {
        cands.push(Case { method: 0, ..cur });
    }
    if cur.target != 0 {
        cands.push(Case { target: 0, ..cur });
    }
    cands
}

// ---------------------------------------------------------------------------------------------
// Workers
// ---------------------------------------------------------------------------------------------

struct Worker {
    rep: Report,
    imp: Impl,
    drv: Option<Driver>,
    pending: Vec<(Conc, Obs)>,
}

impl Worker {
    fn case_fails(&mut self, case: &Case) -> Option<(&'static str, String)> {
        let c = case.conc();
        let o = self.imp.eval(&c);
        let t = self.imp.eval(&c.with_target(UNKNOWN));
        oracle(&c, &o, &t)
    }

    /// Reset dimensions to their plain value while the case keeps failing.
    fn shrink(&mut self, case: Case) -> Case {
        let mut cur = case;
        loop {
            let mut changed = false;
            for c in shrink_candidates(cur) {
                if self.case_fails(&c).is_some() {
                    cur = c;
                    changed = true;
                    break;
                }
            }
            if !changed {
                return cur;
            }
        }
    }

    /// One group: everything fixed but the target; all seven targets are evaluated.
    fn group(&mut self, proto: Case, part: &str) {
        let concs: Vec<Conc> = (0..TARGETS.len()).map(|t| Case { target: t as u8, ..proto }.conc()).collect();
        let obs: Vec<Obs> = concs.iter().map(|c| self.imp.eval(c)).collect();
        let twin = obs[TARGETS.len() - 1].clone();
        for (t, (c, o)) in concs.into_iter().zip(obs).enumerate() {
            let case = Case { target: t as u8, ..proto };
            let nontrivial = c.method == "GET" && c.path() == "/ws";
            let line = c.driver_line();
            self.rep.case(nontrivial.then(|| fnv(line.as_bytes())));
            // distribution
            self.rep.count(&format!("part/{part}"));
            if nontrivial && part.starts_with("near-miss") {
                self.rep.count(match c.upgrade_verdict() {
                    Some(true) => "near-miss-row/text-says-upgrade",
                    Some(false) => "near-miss-row/text-says-refuse",
                    None => "near-miss-row/text-open(model-only)",
                });
            }
            self.rep.count(&format!("status/{}", o.status));
            if nontrivial {
                self.rep.count(if o.status == 101 { "ws-get/upgraded" } else { "ws-get/refused" });
            }
            // (1) the descriptor's expectation and the concrete reference must agree (harness self-check)
            if case.expect_upgrade() != c.upgrade_verdict() {
                self.rep.fail(
                    FailKind::Model,
                    "harness:reference-vs-descriptor",
                    &format!("the two references of the property disagree on {}", case.describe()),
                    c.to_json(),
                );
            }
            // (2) the property on the implementation
            if let Some((kind, why)) = oracle(&c, &o, &twin) {
                let small = self.shrink(case);
                let (kind2, why2) = self.case_fails(&small).unwrap_or((kind, why));
                self.rep.fail(
                    FailKind::Impl,
                    &format!("{kind2}: {}", small.describe()),
                    &format!("{why2} [{}]", small.describe()),
                    small.conc().to_json(),
                );
            }
            if self.rep.samples.len() < 3 && (o.status == 101 || (nontrivial && self.rep.evaluations % 977 == 0)) {
                self.rep.sample(json!({"case": case.describe(), "impl": o.line.clone().unwrap_or_else(|e| e)}));
            }
            self.pending.push((c, o));
        }
        if self.pending.len() >= 2048 {
            self.flush();
        }
    }

    /// Compare the queued observations with the model.
    fn flush(&mut self) {
        let cases = std::mem::take(&mut self.pending);
        let Some(d) = self.drv.as_mut() else { return };
        if cases.is_empty() {
            return;
        }
        let reqs: Vec<String> = cases.iter().map(|(c, _)| c.driver_line()).collect();
        let answers = d.batch(&reqs);
        for (((c, o), req), ans) in cases.iter().zip(&reqs).zip(&answers) {
            self.rep.model_compared += 1;
            let (decision, mline) = ans.split_once(' ').unwrap_or((ans.as_str(), ""));
            self.rep.count(&format!("model/{}", decision.trim_end_matches('+')));
            let impl_line = o.line.clone().unwrap_or_else(|e| format!("crash {e}"));
            let model_tunnel = decision.ends_with('+');
            let model_failures = self.rep.failures.iter().filter(|f| f["kind"] == "model").count();
            if (mline != impl_line || model_tunnel != (o.spawned == 1)) && model_failures < 8 {
                self.rep.fail(
                    FailKind::Model,
                    req,
                    &format!("model `{ans}` vs implementation `{impl_line}` (tasks spawned: {})", o.spawned),
                    json!({"op": "route", "line": req, "model": ans, "impl": impl_line, "case": c.to_json()}),
                );
            }
        }
    }
}

fn merge(into: &mut Report, from: Report) {
    into.evaluations += from.evaluations;
    into.nontrivial.extend(from.nontrivial);
    for (k, v) in from.dist {
        into.count_n(&k, v);
    }
    into.model_compared += from.model_compared;
    for s in from.samples {
        into.sample(s);
    }
    // failing inputs of the implementation first: the list is capped
    let (imp, model): (Vec<Value>, Vec<Value>) = from.failures.into_iter().partition(|f| f["kind"] == "impl");
    for f in imp {
        into.fail(FailKind::Impl, f["key"].as_str().unwrap_or("?"), f["desc"].as_str().unwrap_or("?"), f["replay"].clone());
    }
    for f in model {
        if into.failures.iter().filter(|g| g["kind"] == "model").count() < 8 {
            into.fail(FailKind::Model, f["key"].as_str().unwrap_or("?"), f["desc"].as_str().unwrap_or("?"), f["replay"].clone());
        }
    }
    into.notes.extend(from.notes);
}


/// Enumerate `combos[i]` for `i ≡ offset (mod stride)` over all of PSK configured x obfs x OnUpgrade x
/// method x target, on `threads` workers.
fn matrix_part(args: &Args, rep: &mut Report, combos: &[([u8; 5], u8)], part: &str, stride: usize, offset: usize, threads: usize) {
    let picked: Vec<([u8; 5], u8)> = combos.iter().copied().skip(offset % stride.max(1)).step_by(stride.max(1)).collect();
    let reports: Vec<Report> = std::thread::scope(|s| {
        let handles: Vec<_> = (0..threads)
            .map(|tid| {
                let picked = &picked;
                s.spawn(move || {
                    let mut w = Worker {
                        rep: Report::new("gate", args, ""),
                        imp: Impl::new(),
                        drv: args.driver.as_deref().map(|p| Driver::spawn(p, &[]).expect("start Lean driver")),
                        pending: vec![],
                    };
                    for (i, (hv, pv)) in picked.iter().enumerate() {
                        if i % threads != tid {
                            continue;
                        }
                        for psk_cfg in [false, true] {
                            for obfs in [false, true] {
                                for onup in [true, false] {
                                    for method in 0..METHODS.len() as u8 {
                                        w.group(Case { hv: *hv, pv: *pv, psk_cfg, obfs, onup, method, target: 0 }, part);
                                    }
                                }
                            }
                        }
                    }
                    w.flush();
                    w.rep
                })
            })
            .collect();
        handles.into_iter().map(|h| h.join().expect("worker thread")).collect()
    });
    for r in reports {
        merge(rep, r);
    }
}

// ---------------------------------------------------------------------------------------------
// Accept hash
// ---------------------------------------------------------------------------------------------

fn accept_part(args: &Args, rep: &mut Report, rng: &mut Rng, n_random: usize) {
    // self-test of the harness's own SHA-1 / base64 on published vectors
    let vectors: [(&[u8], &str); 3] = [
        (b"abc", "a9993e364706816aba3e25717850c26c9cd0d89d"),
        (b"", "da39a3ee5e6b4b0d3255bfef95601890afd80709"),
        (b"abcdbcdecdefdefgefghfghighijhijkijkljklmklmnlmnomnopnopq", "84983e441c3bd26ebaae4aa1f95129e5e54670f1"),
    ];
    for (m, want) in vectors {
        assert_eq!(hex(&sha1(m)), want, "harness SHA-1 self-test");
    }
    assert_eq!(base64(b"foobar"), b"Zm9vYmFy");
    assert_eq!(base64(b"fooba"), b"Zm9vYmE=");
    assert_eq!(base64(b"foob"), b"Zm9vYg==");
    assert_eq!(ref_accept(RFC_KEY), RFC_ACCEPT, "RFC 6455 example through the harness's own hash");

    let mut keys: Vec<Vec<u8>> = vec![RFC_KEY.to_vec(), b"7S3qp57psT3kwWF29CFJNg==".to_vec()];
    // every key length around the SHA-1 block boundaries (key ++ 36-byte GUID)
    for len in 0..=130usize {
        keys.push((0..len).map(|i| b'A' + (i % 26) as u8).collect());
    }
    for _ in 0..n_random {
        let k = if rng.chance(1, 2) {
            base64(&rng.bytes(16))
        } else {
            let len = rng.range(0, 80) as usize;
            // any bytes a HeaderValue may hold: visible ASCII, space, tab, 0x80..=0xFF
            (0..len)
                .map(|_| match rng.below(8) {
                    0 => b' ',
                    1 => b'\t',
                    2 => rng.range(0x80, 0xFF) as u8,
                    _ => rng.range(0x21, 0x7E) as u8,
                })
                .collect()
        };
        keys.push(k);
    }
    let mut imp = Impl::new();
    let mut drv = args.driver.as_deref().map(|p| Driver::spawn(p, &[]).expect("start Lean driver"));
    let model: Option<Vec<String>> =
        drv.as_mut().map(|d| d.batch(&keys.iter().map(|k| format!("accept {}", hexd(k))).collect::<Vec<_>>()));
    for (i, k) in keys.iter().enumerate() {
        let mut case = Case { hv: [V_EXACT; 5], pv: P_ABSENT, psk_cfg: false, obfs: false, onup: true, method: 0, target: 0 }.conc();
        for (n, v) in &mut case.headers {
            if n == "sec-websocket-key" {
                *v = k.clone();
            }
        }
        let o = imp.eval(&case);
        rep.case(Some(fnv(k)));
        rep.count("accept-hash/keys");
        let want = case.reference();
        let got = o.line.clone().unwrap_or_else(|e| format!("crash {e}"));
        if got != want {
            rep.fail(
                FailKind::Impl,
                &format!("accept {}", hexd(k)),
                &format!("key {:?}: response `{got}`, RFC 6455 prescribes `{want}`", String::from_utf8_lossy(k)),
                case.to_json(),
            );
        }
        if let Some(m) = &model {
            rep.model_compared += 1;
            let mine = hexd(&ref_accept(k));
            if m[i] != mine {
                rep.fail(
                    FailKind::Model,
                    &format!("accept {}", hexd(k)),
                    &format!("Lean acceptOf gives {} but SHA-1/base64 give {mine}", m[i]),
                    json!({"op": "accept", "key": hexd(k), "model": m[i], "reference": mine}),
                );
            }
        }
    }
    if let Some(d) = drv.as_mut() {
        // SHA-1 and base64 separately, on random messages
        let msgs: Vec<Vec<u8>> = (0..200usize).map(|i| { let n = if i < 130 { i } else { rng.range(0, 400) as usize }; rng.bytes(n) }).collect();
        let a = d.batch(&msgs.iter().map(|m| format!("sha1 {}", hexd(m))).collect::<Vec<_>>());
        let b = d.batch(&msgs.iter().map(|m| format!("b64 {}", hexd(m))).collect::<Vec<_>>());
        for (i, m) in msgs.iter().enumerate() {
            rep.case(Some(fnv(m)));
            rep.count("accept-hash/sha1-base64-messages");
            rep.model_compared += 1;
            if a[i] != hex(&sha1(m)) || b[i] != hexd(&base64(m)) {
                rep.fail(
                    FailKind::Model,
                    &format!("sha1/b64 {}", hexd(m)),
                    &format!("Lean sha1 `{}` b64 `{}` vs `{}` `{}`", a[i], b[i], hex(&sha1(m)), hexd(&base64(m))),
                    json!({"op": "sha1", "msg": hexd(m)}),
                );
            }
        }
    }
}

// ---------------------------------------------------------------------------------------------
// Over a real connection: `run_listener` + raw HTTP/1.1 (does hyper attach OnUpgrade?)
// ---------------------------------------------------------------------------------------------

fn trim_ows(v: &[u8]) -> Vec<u8> {
    let is = |b: &u8| *b == b' ' || *b == b'\t';
    let s = v.iter().position(|b| !is(b)).unwrap_or(v.len());
    let e = v.iter().rposition(|b| !is(b)).map_or(s, |i| i + 1);
    v[s..e].to_vec()
}

/// `body`: sent after the head as it is (the caller puts the `content-length` line among the headers).
async fn wire_request(addr: std::net::SocketAddr, c: &Conc, body: &[u8]) -> Result<(u16, Vec<(String, Vec<u8>)>, Vec<u8>), String> {
    use tokio::io::{AsyncReadExt, AsyncWriteExt};
    let mut s = tokio::net::TcpStream::connect(addr).await.map_err(|e| format!("connect: {e}"))?;
    let mut req = format!("{} {} HTTP/1.1\r\n", c.method, c.target).into_bytes();
    for (n, v) in &c.headers {
        req.extend_from_slice(n.as_bytes());
        req.extend_from_slice(b": ");
        req.extend_from_slice(v);
        req.extend_from_slice(b"\r\n");
    }
    req.extend_from_slice(b"\r\n");
    req.extend_from_slice(body);
    s.write_all(&req).await.map_err(|e| format!("write: {e}"))?;
    let mut buf = vec![];
    let mut tmp = [0u8; 4096];
    let read = async {
        loop {
            if let Some(pos) = buf.windows(4).position(|w| w == b"\r\n\r\n") {
                let head = String::from_utf8_lossy(&buf[..pos]).into_owned();
                let mut lines = head.split("\r\n");
                let status: u16 = lines.next().and_then(|l| l.split(' ').nth(1)).and_then(|x| x.parse().ok()).ok_or("status line")?;
                let hs: Vec<(String, Vec<u8>)> = lines
                    .filter_map(|l| l.split_once(':'))
                    .map(|(n, v)| (n.trim().to_ascii_lowercase(), v.trim().as_bytes().to_vec()))
                    .collect();
                let clen: usize = hs
                    .iter()
                    .find(|(n, _)| n == "content-length")
                    .and_then(|(_, v)| String::from_utf8_lossy(v).parse().ok())
                    .unwrap_or(0);
                let want = if status == 101 { 0 } else { clen };
                while buf.len() < pos + 4 + want {
                    let k = s.read(&mut tmp).await.map_err(|e| format!("read: {e}"))?;
                    if k == 0 {
                        break;
                    }
                    buf.extend_from_slice(&tmp[..k]);
                }
                let body = buf[pos + 4..(pos + 4 + want).min(buf.len())].to_vec();
                return Ok::<_, String>((status, hs, body));
            }
            let k = s.read(&mut tmp).await.map_err(|e| format!("read: {e}"))?;
            if k == 0 {
                return Err("connection closed before the response head".to_string());
            }
            buf.extend_from_slice(&tmp[..k]);
        }
    };
    tokio::time::timeout(std::time::Duration::from_secs(10), read).await.map_err(|_| "timeout".to_string())?
}


// ---------------------------------------------------------------------------------------------
// With a reverse-proxy backend that answers every path alike
// ---------------------------------------------------------------------------------------------

/// One-dimension-at-a-time cases around the valid request (also used over the wire).
fn neighbourhood(methods: &[u8]) -> Vec<Case> {
    let good = Case { hv: [V_EXACT; 5], pv: P_EQUAL, psk_cfg: true, obfs: true, onup: true, method: 0, target: 0 };
    let mut cases = vec![good];
    for h in 0..5 {
        for var in 0..VNAMES.len() as u8 {
            let mut c = good;
            c.hv[h] = var;
            cases.push(c);
        }
    }
    for h in 0..4 {
        for e in 0..table(h).len() as u8 {
            let mut c = good;
            c.hv[h] = V_TABLE + e;
            cases.push(c);
        }
    }
    for pv in (0..PNAMES.len() as u8).chain((0..psk_table().len() as u8).map(|e| P_TABLE + e)) {
        cases.push(Case { pv, ..good });
        cases.push(Case { pv, psk_cfg: false, ..good });
    }
    for &method in methods {
        for target in 0..TARGETS.len() as u8 {
            cases.push(Case { method, target, ..good });
            cases.push(Case { method, target, obfs: false, ..good });
        }
    }
    cases.push(Case { onup: false, ..good });
    cases
}

fn strip_date(line: &str) -> String {
    let mut it = line.splitn(3, ' ');
    let (st, hs, body) = (it.next().unwrap_or(""), it.next().unwrap_or(""), it.next().unwrap_or(""));
    let kept: Vec<&str> = hs.split(',').filter(|h| !h.starts_with("date=")).collect();
    format!("{st} {} {body}", if kept.is_empty() { "-".to_string() } else { kept.join(",") })
}

fn backend_part(rep: &mut Report) {
    use hyper::service::service_fn;
    use hyper_util::rt::TokioIo;
    let rt = tokio::runtime::Builder::new_multi_thread().worker_threads(2).enable_all().build().expect("tokio runtime");
    let bound = rt.block_on(async {
        let l = tokio::net::TcpListener::bind(("127.0.0.1", 0)).await?;
        let a = l.local_addr()?;
        tokio::spawn(async move {
            loop {
                let Ok((stream, _)) = l.accept().await else { continue };
                tokio::spawn(async move {
                    let svc = service_fn(|req: Request<hyper::body::Incoming>| async move {
                        // the same answer for every path: method and the forwarded upgrade header only
                        let body = format!(
                            "backend:{}:{}",
                            req.method(),
                            req.headers().get("sec-websocket-key").map_or("-", |v| v.to_str().unwrap_or("?"))
                        );
                        Ok::<_, std::convert::Infallible>(
                            http::Response::builder().status(200).header("x-backend", "1").body(http_body_util::Full::new(Bytes::from(body))).expect("response"),
                        )
                    });
                    let _ = hyper::server::conn::http1::Builder::new().serve_connection(TokioIo::new(stream), svc).await;
                });
            }
        });
        Ok::<_, std::io::Error>(a)
    });
    let addr = match bound {
        Ok(a) => a,
        Err(e) => {
            rep.notes.push(format!("backend part skipped: cannot listen on 127.0.0.1 ({e})"));
            return;
        }
    };
    let url: &'static rusty_penguin_lib::arg::BackendUrl =
        Box::leak(Box::new(format!("http://{addr}").parse().expect("backend url")));
    let mut states: HashMap<Cfg, State> = HashMap::new();
    let mut reached = 0u64;
    for case in neighbourhood(&[0, 1, 4]) {
        let c = case.conc();
        let st = states
            .entry(c.cfg.clone())
            .or_insert_with(|| {
                let psk: Option<&'static HeaderValue> =
                    c.cfg.psk.as_ref().map(|p| &*Box::leak(Box::new(HeaderValue::from_bytes(p).expect("psk"))));
                let nf: &'static str = Box::leak(String::from_utf8(c.cfg.not_found.clone()).expect("utf8").into_boxed_str());
                rt.block_on(State::new()).expect("State::new").with_ws_psk(psk).with_not_found_resp(nf).obfs(c.cfg.obfs).with_backend(Some(url))
            })
            .clone();
        let twin_c = c.with_target(UNKNOWN);
        let run = |c: &Conc| {
            rt.block_on(async { tokio::time::timeout(std::time::Duration::from_secs(10), eval_async(&st, c)).await })
                .map_or_else(|_| "timeout".to_string(), |o| strip_date(&o.line.unwrap_or_else(|e| format!("crash {e}"))))
        };
        let got = run(&c);
        let twin = run(&twin_c);
        rep.case(Some(fnv(format!("backend {}", c.driver_line()).as_bytes())));
        rep.count("part/with-backend");
        let key = format!("backend: {}", case.describe());
        let served = matches!(c.path(), "/health" | "/version") && !c.cfg.obfs;
        let verdict = c.upgrade_verdict();
        if verdict == Some(true) || served {
            let want = c.reference();
            if got != want {
                rep.fail(FailKind::Impl, &key, &format!("with a backend the answer is `{got}`, the property prescribes `{want}`"), c.to_json());
            }
        } else if verdict.is_none() && got == c.reference_for(true) {
            // the text is open for this request (a gated header on several lines): upgrading is coherent
        } else {
            if got != twin {
                rep.fail(
                    FailKind::Impl,
                    &key,
                    &format!("with a path-insensitive backend the answer `{got}` differs from the answer on {UNKNOWN} `{twin}`"),
                    c.to_json(),
                );
            }
            if twin.starts_with("200 ") && twin.contains("x-backend=31") {
                reached += 1;
            }
        }
    }
    rep.notes.push(format!("backend part: {reached} fallback answers came from the local backend (status 200, x-backend header)"));
    if reached == 0 {
        rep.fail(FailKind::Model, "harness:backend-not-reached", "no fallback request reached the local backend", json!({}));
    }
    rt.shutdown_timeout(std::time::Duration::from_secs(2));
}

fn wire_part(rep: &mut Report) {
    let cases = neighbourhood(&[0, 1, 4]);
    let rt = tokio::runtime::Builder::new_multi_thread().worker_threads(2).enable_all().build().expect("tokio runtime");
    let mut imp = Impl::new();
    let mut servers: HashMap<Cfg, std::net::SocketAddr> = HashMap::new();
    for case in cases {
        let c = case.conc();
        let addr = match servers.get(&c.cfg) {
            Some(a) => *a,
            None => {
                let st = rt.block_on(async { State::new().await.expect("State::new") });
                let psk: Option<&'static HeaderValue> =
                    c.cfg.psk.as_ref().map(|p| &*Box::leak(Box::new(HeaderValue::from_bytes(p).expect("psk"))));
                let nf: &'static str = Box::leak(String::from_utf8(c.cfg.not_found.clone()).expect("utf8").into_boxed_str());
                let st = st.with_ws_psk(psk).with_not_found_resp(nf).obfs(c.cfg.obfs).with_backend_http2_support(false);
                let bound = rt.block_on(async {
                    let l = tokio::net::TcpListener::bind(("127.0.0.1", 0)).await?;
                    let a = l.local_addr()?;
                    tokio::spawn(rusty_penguin_lib::server::run_listener(l, None, st));
                    Ok::<_, std::io::Error>(a)
                });
                match bound {
                    Ok(a) => {
                        servers.insert(c.cfg.clone(), a);
                        a
                    }
                    Err(e) => {
                        rep.notes.push(format!("wire part skipped: cannot listen on 127.0.0.1 ({e})"));
                        return;
                    }
                }
            }
        };
        // what hyper hands to the service: header values without surrounding whitespace, OnUpgrade
        // attached iff the request has an Upgrade header (HTTP/1.1)
        let mut seen = c.clone();
        for (_, v) in &mut seen.headers {
            *v = trim_ows(v);
        }
        seen.onup = seen.first("upgrade").is_some() || seen.method == "CONNECT";
        let inproc = imp.eval(&seen);
        let wire = rt.block_on(wire_request(addr, &c, b""));
        rep.case(Some(fnv(format!("wire {}", c.driver_line()).as_bytes())));
        rep.count("part/wire");
        let key = format!("wire: {}", case.describe());
        match wire {
            Err(e) => rep.fail(FailKind::Impl, &key, &format!("no response over TCP: {e}"), c.to_json()),
            Ok((status, hs, body)) => {
                rep.count(&format!("wire-status/{status}"));
                // hyper adds date / content-length; compare status, body and the upgrade headers
                let pick = |hs: &[(String, Vec<u8>)]| -> Vec<(String, Vec<u8>)> {
                    hs.iter()
                        .filter(|(n, _)| matches!(n.as_str(), "connection" | "upgrade" | "sec-websocket-protocol" | "sec-websocket-accept"))
                        .cloned()
                        .collect()
                };
                let got = resp_line(status, &pick(&hs), &body);
                let allowed = seen.acceptable();
                let want = allowed.join("` or `");
                if !allowed.contains(&got) {
                    rep.fail(
                        FailKind::Impl,
                        &key,
                        &format!("over a real HTTP/1.1 connection the answer is `{got}`, the property prescribes `{want}`"),
                        c.to_json(),
                    );
                }
                let inline = inproc.line.clone().unwrap_or_else(|e| format!("crash {e}"));
                if inline != got && allowed.contains(&got) {
                    rep.fail(FailKind::Impl, &format!("in-process-vs-wire {key}"), &format!("in-process `{inline}` but over the wire `{got}`"), seen.to_json());
                } else if !allowed.contains(&inline) {
                    rep.fail(FailKind::Impl, &format!("in-process {key}"), &format!("in-process `{inline}` vs `{want}`"), seen.to_json());
                }
            }
        }
    }
    rt.shutdown_timeout(std::time::Duration::from_secs(2));
}

// ---------------------------------------------------------------------------------------------
// With a backend that reflects the request it is handed (`backend-view:` rows)
// ---------------------------------------------------------------------------------------------
//
// The backend of `backend_part` answers every request (almost) alike, so it cannot tell whether the
// server handed it the request it was sent. This one is a plain TCP server that answers every request
// with the bytes it received: the request line, every header line in the order and spelling they
// arrived in, and the body; and with a digest of all of that but the path in a response header, i.e.
// a backend whose answer depends on the request. A declined `/ws` request and the same request on the
// unknown path must then be handed on alike: the two reflections have to be equal but for the path
// (whatever the proxy does to a request on its way - forwarding headers, hop-by-hop headers, body
// framing - it has to do on both), and so have the two responses. No fixed expectation of what a
// proxied request looks like enters; the Lean model has no notion of the reflected request (its
// backend is an abstract function of the unchanged request), so these rows are judged here only.

fn find_bytes(hay: &[u8], pat: &[u8]) -> Option<usize> {
    hay.windows(pat.len()).position(|w| w == pat)
}

/// `(method, target, version)` of a raw request head, and where its first line ends.
fn request_line(head: &[u8]) -> Option<(&[u8], &[u8], &[u8], usize)> {
    let eol = find_bytes(head, b"\r\n")?;
    let mut parts = head[..eol].splitn(3, |b| *b == b' ');
    Some((parts.next()?, parts.next()?, parts.next()?, eol))
}

/// What the reflecting backend puts into `x-request-digest`: everything it received but the path
/// (method, query, version, every header line, the body).
fn view_digest(head: &[u8], body: &[u8]) -> u64 {
    match request_line(head) {
        Some((method, target, version, eol)) => {
            let query = target.iter().position(|b| *b == b'?').map_or(&b""[..], |i| &target[i..]);
            fnv(&[method, b" ", query, b" ", version, &head[eol..], body].concat())
        }
        None => fnv(&[head, body].concat()),
    }
}

struct RawConn {
    s: tokio::net::TcpStream,
    buf: Vec<u8>,
}

impl RawConn {
    async fn fill(&mut self) -> bool {
        use tokio::io::AsyncReadExt;
        let mut tmp = [0u8; 16384];
        match self.s.read(&mut tmp).await {
            Ok(0) | Err(_) => false,
            Ok(k) => {
                self.buf.extend_from_slice(&tmp[..k]);
                true
            }
        }
    }
    /// The bytes up to and including the first `pat`.
    async fn through(&mut self, pat: &[u8]) -> Option<Vec<u8>> {
        loop {
            if let Some(p) = find_bytes(&self.buf, pat) {
                return Some(self.buf.drain(..p + pat.len()).collect());
            }
            if !self.fill().await {
                return None;
            }
        }
    }
    async fn take(&mut self, n: usize) -> Option<Vec<u8>> {
        while self.buf.len() < n {
            if !self.fill().await {
                return None;
            }
        }
        Some(self.buf.drain(..n).collect())
    }
}

/// One connection of the reflecting backend (HTTP/1.1, keep-alive, `content-length` or chunked bodies).
async fn reflecting_backend_conn(s: tokio::net::TcpStream) {
    use tokio::io::AsyncWriteExt;
    let mut c = RawConn { s, buf: vec![] };
    loop {
        let Some(head) = c.through(b"\r\n\r\n").await else { return };
        let field = |name: &str| -> Option<Vec<u8>> {
            head.split(|b| *b == b'\n').skip(1).find_map(|l| {
                let i = l.iter().position(|b| *b == b':')?;
                let v: Vec<u8> = l[i + 1..].iter().copied().filter(|b| *b != b'\r').collect();
                eq_ci(&l[..i], name.as_bytes()).then(|| trim_ows(&v))
            })
        };
        let mut body = vec![];
        if field("transfer-encoding").is_some_and(|v| v.to_ascii_lowercase().ends_with(b"chunked")) {
            loop {
                let Some(l) = c.through(b"\r\n").await else { return };
                let digits: String = l.iter().take_while(|b| b.is_ascii_hexdigit()).map(|b| char::from(*b)).collect();
                let Ok(n) = usize::from_str_radix(&digits, 16) else { return };
                if n == 0 {
                    loop {
                        let Some(t) = c.through(b"\r\n").await else { return };
                        if t == b"\r\n" {
                            break;
                        }
                    }
                    break;
                }
                let Some(d) = c.take(n + 2).await else { return };
                body.extend_from_slice(&d[..n]);
            }
        } else if let Some(n) = field("content-length").and_then(|v| String::from_utf8_lossy(&v).parse::<usize>().ok()) {
            let Some(d) = c.take(n).await else { return };
            body = d;
        }
        let text = [head.as_slice(), &body].concat();
        let mut resp = format!(
            "HTTP/1.1 200 OK\r\nx-backend: 1\r\nx-request-digest: {:016x}\r\ncontent-type: application/octet-stream\r\ncontent-length: {}\r\n\r\n",
            view_digest(&head, &body),
            text.len()
        )
        .into_bytes();
        if !head.starts_with(b"HEAD ") {
            resp.extend_from_slice(&text);
        }
        if c.s.write_all(&resp).await.is_err() {
            return;
        }
    }
}

/// A request of the `backend-view` rows: the request, its body, whether the server adds forwarding
/// headers, and whether it goes over a TCP connection (`run_listener`) or into the `Service` directly.
#[derive(Clone, Debug)]
struct ViewReq {
    c: Conc,
    body: Vec<u8>,
    fwd: bool,
    wire: bool,
}

impl ViewReq {
    /// The same request on the unknown path (the query stays).
    fn twin(&self) -> Self {
        let mut t = self.clone();
        let query = self.c.target.find('?').map_or("", |i| &self.c.target[i..]);
        t.c.target = format!("{UNKNOWN}{query}");
        t
    }
    /// What the service sees of it (`wire_part`): over a connection hyper strips the blanks around
    /// header values and attaches `OnUpgrade` iff the request has an `Upgrade` header.
    fn seen(&self) -> Conc {
        let mut seen = self.c.clone();
        if self.wire {
            for (_, v) in &mut seen.headers {
                *v = trim_ows(v);
            }
            seen.onup = seen.first("upgrade").is_some() || seen.method == "CONNECT";
        }
        seen
    }
    fn to_json(&self) -> Value {
        let mut v = self.c.to_json();
        v["op"] = json!("backend-view");
        v["body"] = json!(hexd(&self.body));
        v["body_text"] = json!(String::from_utf8_lossy(&self.body[..self.body.len().min(80)]));
        v["forwarding_headers"] = json!(self.fwd);
        v["via_tcp"] = json!(self.wire);
        v
    }
    fn from_json(v: &Value) -> Option<Self> {
        if v.get("op").and_then(Value::as_str) != Some("backend-view") {
            return None;
        }
        Some(Self {
            c: Conc::from_json(v)?,
            body: unhex(v["body"].as_str()?)?,
            fwd: v["forwarding_headers"].as_bool()?,
            wire: v["via_tcp"].as_bool()?,
        })
    }
}

/// A response: status, sorted headers without `date`, body.
#[derive(Clone, Debug, PartialEq, Eq)]
struct Resp {
    status: u16,
    headers: Vec<(String, Vec<u8>)>,
    body: Vec<u8>,
}

impl Resp {
    fn new(status: u16, mut headers: Vec<(String, Vec<u8>)>, body: Vec<u8>) -> Self {
        headers.retain(|(n, _)| n != "date");
        // the reflection is as long as the request: a `content-length` that is the length of the body says no more than the body
        for (n, v) in &mut headers {
            if n == "content-length" && *v == body.len().to_string().into_bytes() {
                *v = b"(the length of the body)".to_vec();
            }
        }
        headers.sort();
        Self { status, headers, body }
    }
    fn from_backend(&self) -> bool {
        self.status == 200 && self.headers.iter().any(|(n, _)| n == "x-backend")
    }
    /// status and headers as text
    fn head_text(&self) -> String {
        let hs: Vec<String> = self.headers.iter().map(|(n, v)| format!("{n}: {}", v.escape_ascii())).collect();
        format!("{} [{}]", self.status, hs.join(", "))
    }
}

/// A reflected request with the path it was sent to replaced by `<path>` (left as it is when the
/// request line does not start with that path: then it differs from its twin's).
fn view_modulo_path(reflected: &[u8], path: &str) -> Vec<u8> {
    match request_line(reflected) {
        Some((method, target, version, eol)) if target.starts_with(path.as_bytes()) => {
            [method, b" <path>", &target[path.len()..], b" ", version, &reflected[eol..]].concat()
        }
        _ => reflected.to_vec(),
    }
}

/// A reflected request as text: the head in full, the start of the body.
fn view_text(reflected: &[u8]) -> String {
    let split = find_bytes(reflected, b"\r\n\r\n").map_or(reflected.len(), |p| p + 4);
    let (head, body) = reflected.split_at(split);
    let shown = &body[..body.len().min(64)];
    let rest = if body.len() > shown.len() { format!("...({} body bytes, fnv {:016x})", body.len(), fnv(body)) } else { String::new() };
    format!("{}{}{rest}", head.escape_ascii(), shown.escape_ascii())
}

struct ViewEnv {
    rt: tokio::runtime::Runtime,
    url: &'static rusty_penguin_lib::arg::BackendUrl,
    states: HashMap<(Cfg, bool), State>,
    servers: HashMap<(Cfg, bool), std::net::SocketAddr>,
}

#[derive(Clone, Copy, Debug, PartialEq, Eq)]
enum ViewOutcome {
    /// a valid upgrade request answered 101 (or one the text leaves open)
    Upgraded,
    /// `/health` or `/version` without obfuscation
    Served,
    /// declined: compared with its twin; `true`: both answers came from the backend
    Compared(bool),
}

impl ViewEnv {
    fn new() -> Result<Self, String> {
        let rt = tokio::runtime::Builder::new_multi_thread().worker_threads(2).enable_all().build().expect("tokio runtime");
        let addr = rt
            .block_on(async {
                let l = tokio::net::TcpListener::bind(("127.0.0.1", 0)).await?;
                let a = l.local_addr()?;
                tokio::spawn(async move {
                    loop {
                        let Ok((stream, _)) = l.accept().await else { continue };
                        tokio::spawn(reflecting_backend_conn(stream));
                    }
                });
                Ok::<_, std::io::Error>(a)
            })
            .map_err(|e| format!("cannot listen on 127.0.0.1 ({e})"))?;
        let url: &'static rusty_penguin_lib::arg::BackendUrl = Box::leak(Box::new(format!("http://{addr}").parse().expect("backend url")));
        Ok(Self { rt, url, states: HashMap::new(), servers: HashMap::new() })
    }

    fn state(&mut self, cfg: &Cfg, fwd: bool) -> State {
        if let Some(s) = self.states.get(&(cfg.clone(), fwd)) {
            return s.clone();
        }
        let psk: Option<&'static HeaderValue> = cfg.psk.as_ref().map(|p| &*Box::leak(Box::new(HeaderValue::from_bytes(p).expect("psk"))));
        let nf: &'static str = Box::leak(String::from_utf8(cfg.not_found.clone()).expect("utf8").into_boxed_str());
        let st = self
            .rt
            .block_on(State::new())
            .expect("State::new")
            .with_ws_psk(psk)
            .with_not_found_resp(nf)
            .obfs(cfg.obfs)
            .with_backend(Some(self.url))
            .backend_add_forwarding_headers(fwd)
            .with_client_addr(Some(std::net::SocketAddr::from(([192, 0, 2, 7], 4321))));
        self.states.insert((cfg.clone(), fwd), st.clone());
        st
    }

    fn server(&mut self, cfg: &Cfg, fwd: bool) -> Result<std::net::SocketAddr, String> {
        if let Some(a) = self.servers.get(&(cfg.clone(), fwd)) {
            return Ok(*a);
        }
        let st = self.state(cfg, fwd);
        let a = self
            .rt
            .block_on(async {
                let l = tokio::net::TcpListener::bind(("127.0.0.1", 0)).await?;
                let a = l.local_addr()?;
                tokio::spawn(rusty_penguin_lib::server::run_listener(l, None, st));
                Ok::<_, std::io::Error>(a)
            })
            .map_err(|e| format!("cannot listen on 127.0.0.1 ({e})"))?;
        self.servers.insert((cfg.clone(), fwd), a);
        Ok(a)
    }

    fn run(&mut self, v: &ViewReq) -> Result<Resp, String> {
        if v.wire {
            let addr = self.server(&v.c.cfg, v.fwd)?;
            let (status, hs, body) = self.rt.block_on(wire_request(addr, &v.c, &v.body))?;
            return Ok(Resp::new(status, hs, body));
        }
        let st = self.state(&v.c.cfg, v.fwd);
        let req = build_request_with(&v.c, rusty_penguin_lib::http::body::IncomingOrFullBody::new_full(Bytes::copy_from_slice(&v.body)))
            .map_err(|e| format!("harness cannot build the request: {e}"))?;
        self.rt.block_on(async {
            let call = AssertUnwindSafe(async {
                let resp = Service::<Request<rusty_penguin_lib::http::body::IncomingOrFullBody>>::call(&st, req)
                    .await
                    .map_err(|e| format!("service error: {e}"))?;
                let (parts, body) = resp.into_parts();
                let body = body.collect().await.map_err(|e| format!("body error: {e}"))?.to_bytes();
                let hs = parts.headers.iter().map(|(n, v)| (n.as_str().to_string(), v.as_bytes().to_vec())).collect();
                Ok::<_, String>(Resp::new(parts.status.as_u16(), hs, body.to_vec()))
            })
            .catch_unwind();
            match tokio::time::timeout(std::time::Duration::from_secs(10), call).await {
                Err(_) => Err("timeout".to_string()),
                Ok(Err(_)) => Err("panic in State::call".to_string()),
                Ok(Ok(r)) => r,
            }
        })
    }

    /// The property on one request and its twin on the unknown path, with the reflecting backend.
    fn check(&mut self, v: &ViewReq) -> (ViewOutcome, Option<(&'static str, String)>) {
        let seen = v.seen();
        if matches!(seen.path(), "/health" | "/version") && !seen.cfg.obfs {
            return (ViewOutcome::Served, None);
        }
        let got = match self.run(v) {
            Ok(r) => r,
            Err(e) => return (ViewOutcome::Compared(false), Some(("crash", e))),
        };
        let verdict = seen.upgrade_verdict();
        if verdict != Some(false) && got.status == 101 {
            return (ViewOutcome::Upgraded, None);
        }
        if verdict == Some(true) || got.status == 101 {
            let why = format!("request is {}a valid upgrade request but the status is {}", if verdict == Some(true) { "" } else { "not " }, got.status);
            return (ViewOutcome::Upgraded, Some(("iff", why)));
        }
        let t = v.twin();
        let twin = match self.run(&t) {
            Ok(r) => r,
            Err(e) => return (ViewOutcome::Compared(false), Some(("crash", format!("on {UNKNOWN}: {e}")))),
        };
        let reached = got.from_backend() && twin.from_backend();
        let (a, b) = (view_modulo_path(&got.body, v.c.path()), view_modulo_path(&twin.body, t.c.path()));
        let heads_equal = got.status == twin.status && got.headers == twin.headers;
        if a == b && heads_equal {
            return (ViewOutcome::Compared(reached), None);
        }
        let why = if reached {
            format!(
                "the declined request was handed to the backend as `{}` but the same request on {UNKNOWN} as `{}` (they have to be equal but for the path){}; \
the backend's answer depends on what it is handed, so the two responses differ: {} vs {}",
                view_text(&got.body),
                view_text(&twin.body),
                if a == b { " [the two reflections are equal]" } else { "" },
                got.head_text(),
                twin.head_text()
            )
        } else {
            format!(
                "response {} `{}` differs from the response to the same request on {UNKNOWN}: {} `{}`",
                got.head_text(),
                view_text(&got.body),
                twin.head_text(),
                view_text(&twin.body)
            )
        };
        (ViewOutcome::Compared(reached), Some(("backend-view", why)))
    }
}

const VIEW_QUERIES: [&str; 3] = ["", "?a=1&b=%2Fws&psk=Correct%20PSK-123", "?"];
const VIEW_BODIES: [&str; 3] = ["none", "form-with-a-request-inside", "20000-bytes"];

fn view_body(i: u8) -> Vec<u8> {
    match i {
        0 => vec![],
        1 => b"a=1&b=two\r\n\r\nGET /x HTTP/1.1\r\nhost: example.com\r\n\r\n".to_vec(),
        _ => (0..20_000u32).map(|k| (k.wrapping_mul(31) % 251) as u8).collect(),
    }
}

/// A case of the matrix with a body, a query, forwarding headers on or off, in-process or over TCP.
#[derive(Clone, Copy, Debug, PartialEq, Eq)]
struct VCase {
    case: Case,
    body: u8,
    query: u8,
    fwd: bool,
    wire: bool,
}

impl VCase {
    fn req(&self) -> ViewReq {
        let mut c = self.case.conc();
        if !c.target.contains('?') {
            c.target.push_str(VIEW_QUERIES[self.query as usize]);
        }
        let body = view_body(self.body);
        if !body.is_empty() {
            c.headers.push(("content-type".to_string(), b"application/x-www-form-urlencoded".to_vec()));
            c.headers.push(("content-length".to_string(), body.len().to_string().into_bytes()));
        }
        ViewReq { c, body, fwd: self.fwd, wire: self.wire }
    }
    fn describe(&self) -> String {
        format!(
            "{} body={} query={:?} forwarding-headers={} via={}",
            self.case.describe(),
            VIEW_BODIES[self.body as usize],
            VIEW_QUERIES[self.query as usize],
            self.fwd,
            if self.wire { "tcp" } else { "in-process" }
        )
    }
}

fn view_cases(full: bool) -> Vec<VCase> {
    let good = Case { hv: [V_EXACT; 5], pv: P_EQUAL, psk_cfg: true, obfs: false, onup: true, method: 0, target: 0 };
    let mut v = vec![];
    // (a) one dimension at a time around the valid request: every value of the near-miss tables
    for case in neighbourhood(&[0, 1, 4]) {
        v.push(VCase { case, body: 0, query: 0, fwd: false, wire: false });
    }
    // (b) requests declined for one reason (or for the key alone) x PSK configured or not x the
    // presented key right / wrong / absent / on two lines x body x query x forwarding headers
    let mut protos = vec![good, Case { method: 1, ..good }, Case { method: 4, ..good }, Case { onup: false, ..good }];
    for h in 0..5 {
        for var in [V_ABSENT, V_NEAR, V_CASE, V_LIST, V_DUP_BAD_GOOD, V_PAD_RIGHT] {
            let mut c = good;
            c.hv[h] = var;
            protos.push(c);
        }
    }
    for target in 1..=5 {
        protos.push(Case { target, obfs: true, ..good });
    }
    let mut extras: Vec<(u8, u8, bool)> = vec![];
    for body in 0..3 {
        for query in 0..3 {
            for fwd in [false, true] {
                // quick: every value of each of the three, not every combination
                if full || matches!((body, query, fwd), (0, 0, _) | (1, 0, false) | (0, 1, false) | (1, 1, true) | (2, 2, true) | (2, 0, false) | (0, 2, false)) {
                    extras.push((body, query, fwd));
                }
            }
        }
    }
    for p in &protos {
        for psk_cfg in [false, true] {
            for pv in [P_ABSENT, P_EQUAL, P_NEAR, P_CASE, P_EMPTY, P_DUP_GOOD_BAD, P_DUP_BAD_GOOD] {
                for &(body, query, fwd) in &extras {
                    v.push(VCase { case: Case { psk_cfg, pv, ..*p }, body, query, fwd, wire: false });
                }
                // (c) the same over a TCP connection (hyper parses the request, the body arrives as a stream)
                if matches!(pv, P_ABSENT | P_EQUAL | P_NEAR) {
                    for (body, query, fwd) in [(0, 0, false), (1, 1, true)] {
                        v.push(VCase { case: Case { psk_cfg, pv, ..*p }, body, query, fwd, wire: true });
                    }
                }
            }
        }
    }
    v.retain(|x| !(matches!(TARGETS[x.case.target as usize], "/health" | "/version") && !x.case.obfs));
    v
}

fn view_shrink(env: &mut ViewEnv, v: VCase) -> VCase {
    let mut cur = v;
    loop {
        let mut cands = vec![];
        if cur.wire {
            cands.push(VCase { wire: false, ..cur });
        }
        if cur.fwd {
            cands.push(VCase { fwd: false, ..cur });
        }
        if cur.body != 0 {
            cands.push(VCase { body: 0, ..cur });
        }
        if cur.query != 0 {
            cands.push(VCase { query: 0, ..cur });
        }
        cands.extend(shrink_candidates(cur.case).into_iter().map(|case| VCase { case, ..cur }));
        match cands.into_iter().find(|c| env.check(&c.req()).1.is_some()) {
            Some(c) => cur = c,
            None => return cur,
        }
    }
}

fn backend_view_part(args: &Args, rep: &mut Report, full: bool) {
    let mut env = match ViewEnv::new() {
        Ok(e) => e,
        Err(e) => {
            rep.notes.push(format!("backend-view part skipped: {e}"));
            return;
        }
    };
    // minimised past failures first
    for (name, text) in corpus_files(args.corpus.as_deref()) {
        for l in text.lines() {
            let Ok(v) = serde_json::from_str::<Value>(l.trim()) else { continue };
            let Some(r) = ViewReq::from_json(&v) else { continue };
            rep.case(Some(fnv(l.as_bytes())));
            rep.count(&format!("corpus/{name}"));
            if let (_, Some((kind, why))) = env.check(&r) {
                rep.fail(FailKind::Impl, &format!("{kind}: corpus {name} {} {}", r.c.method, r.c.target), &why, r.to_json());
            }
        }
    }
    // what the compared pairs have to have covered (harness self-check at the end)
    let wanted = [
        "psk-configured/right-key-presented",
        "psk-configured/wrong-key-presented",
        "psk-configured/no-key-presented",
        "no-psk-configured/the-key-presented",
        "no-psk-configured/another-key-presented",
        "no-psk-configured/no-key-presented",
        "with-sec-websocket-key",
        "without-sec-websocket-key",
        "upgrade-headers-all-right",
        "an-upgrade-header-near-miss",
        "with-body",
        "with-query",
        "forwarding-headers",
        "via-tcp",
    ];
    let mut covered: HashMap<&str, u64> = HashMap::new();
    let mut shrunk = 0;
    for vc in view_cases(full) {
        let r = vc.req();
        let (outcome, failure) = env.check(&r);
        rep.case(Some(fnv(format!("backend-view {} {} {} {}", r.c.driver_line(), vc.body, vc.fwd, vc.wire).as_bytes())));
        rep.count("part/backend-view");
        rep.count(match outcome {
            ViewOutcome::Upgraded => "backend-view/upgraded(not-compared)",
            ViewOutcome::Served => "backend-view/served(not-compared)",
            ViewOutcome::Compared(true) => "backend-view/compared:both-answers-from-the-backend",
            ViewOutcome::Compared(false) => "backend-view/compared:not-from-the-backend",
        });
        if outcome == ViewOutcome::Compared(true) && r.c.path() == "/ws" {
            let presented = r.c.first("x-penguin-psk");
            let mut tags = vec![match (r.c.cfg.psk.is_some(), presented) {
                (true, Some(p)) if p == PSK => "psk-configured/right-key-presented",
                (true, Some(_)) => "psk-configured/wrong-key-presented",
                (true, None) => "psk-configured/no-key-presented",
                (false, Some(p)) if p == PSK => "no-psk-configured/the-key-presented",
                (false, Some(_)) => "no-psk-configured/another-key-presented",
                (false, None) => "no-psk-configured/no-key-presented",
            }];
            tags.push(if r.c.first("sec-websocket-key").is_some() { "with-sec-websocket-key" } else { "without-sec-websocket-key" });
            tags.push(if (0..4).all(|h| variant_says(h, vc.case.hv[h]) == Says::Valid) { "upgrade-headers-all-right" } else { "an-upgrade-header-near-miss" });
            if !r.body.is_empty() {
                tags.push("with-body");
            }
            if r.c.target.contains('?') {
                tags.push("with-query");
            }
            if r.fwd {
                tags.push("forwarding-headers");
            }
            if r.wire {
                tags.push("via-tcp");
            }
            for t in tags {
                *covered.entry(t).or_insert(0) += 1;
            }
        }
        if let Some((kind, why)) = failure {
            if shrunk >= 4 {
                continue;
            }
            shrunk += 1;
            let small = view_shrink(&mut env, vc);
            let (kind2, why2) = env.check(&small.req()).1.unwrap_or((kind, why));
            let prefix = if kind2 == "backend-view" { String::new() } else { format!("{kind2}: ") };
            rep.fail(FailKind::Impl, &format!("backend-view: {prefix}{}", small.describe()), &format!("{why2} [{}]", small.describe()), small.req().to_json());
        }
    }
    // does the reflection show the key and the body at all? (on the unknown path; reported, not judged:
    // the pairs are judged against each other only)
    let mut shows = false;
    {
        let probe = VCase {
            case: Case { hv: [V_EXACT; 5], pv: P_EQUAL, psk_cfg: false, obfs: false, onup: true, method: 1, target: (TARGETS.len() - 1) as u8 },
            body: 1,
            query: 1,
            fwd: false,
            wire: false,
        };
        if let Ok(r) = env.run(&probe.req()) {
            if find_bytes(&r.body, b"x-penguin-psk: Correct PSK-123\r\n").is_some() && r.body.ends_with(&view_body(1)) {
                shows = true;
            }
        }
    }
    for w in wanted {
        let n = covered.get(w).copied().unwrap_or(0);
        rep.count_n(&format!("backend-view-pairs/{w}"), n);
        if n == 0 && !rep.has_failures() {
            rep.fail(
                FailKind::Model,
                &format!("harness:backend-view-coverage {w}"),
                &format!("no declined /ws request of the kind `{w}` was compared with its twin through the reflecting backend"),
                json!({}),
            );
        }
    }
    rep.notes.push(format!(
        "backend-view part: a local backend that answers with the request it was handed (request line, header lines in order, body; digest of all but the path in a header); \
declined /ws requests (and other hidden paths) vs the same request on {UNKNOWN}: reflections equal but for the path and responses equal, {} pairs with both answers from the backend; a POST to {UNKNOWN} with an x-penguin-psk header and a body is reflected with both: {shows}",
        rep.dist.get("backend-view/compared:both-answers-from-the-backend").copied().unwrap_or(0)
    ));
    env.rt.shutdown_timeout(std::time::Duration::from_secs(2));
}

// ---------------------------------------------------------------------------------------------

fn replay(path: &str) -> i32 {
    let text = std::fs::read_to_string(path).expect("read replay file");
    let v: Value = serde_json::from_str(&text).expect("replay json");
    let rp = if v.get("replay").is_some() { &v["replay"] } else { &v };
    let rp = if rp.get("case").is_some() { &rp["case"] } else { rp };
    if let Some(c) = client_request::CrCase::from_json(rp) {
        return client_request::replay(&c);
    }
    if let Some(r) = ViewReq::from_json(rp) {
        return replay_view(&r);
    }
    let Some(c) = Conc::from_json(rp) else {
        println!("not a replayable route case: {rp}");
        return 2;
    };
    let mut imp = Impl::new();
    let o = imp.eval(&c);
    let t = imp.eval(&c.with_target(UNKNOWN));
    println!("request        {} {} on-upgrade={} psk-configured={:?} obfs={}", c.method, c.target, c.onup,
        c.cfg.psk.as_ref().map(|p| String::from_utf8_lossy(p).into_owned()), c.cfg.obfs);
    for (n, v) in &c.headers {
        println!("  {n}: {:?}", String::from_utf8_lossy(v));
    }
    println!("implementation {}", o.line.clone().unwrap_or_else(|e| e));
    println!("on {UNKNOWN}          {}", t.line.clone().unwrap_or_else(|e| e));
    println!("prescribed     {}", c.acceptable().join("  or (the text leaves repeated lines open)  "));
    println!("tasks spawned  {}", o.spawned);
    match oracle(&c, &o, &t) {
        Some((kind, why)) => {
            println!("FAILS ({kind}): {why}");
            1
        }
        None => {
            println!("holds on this input");
            0
        }
    }
}

fn replay_view(r: &ViewReq) -> i32 {
    let mut env = match ViewEnv::new() {
        Ok(e) => e,
        Err(e) => {
            println!("cannot start the reflecting backend: {e}");
            return 2;
        }
    };
    println!("request        {} {} on-upgrade={} psk-configured={:?} obfs={} forwarding-headers={} via={} body={} bytes", r.c.method, r.c.target, r.c.onup,
        r.c.cfg.psk.as_ref().map(|p| String::from_utf8_lossy(p).into_owned()), r.c.cfg.obfs, r.fwd, if r.wire { "tcp" } else { "in-process" }, r.body.len());
    for (n, v) in &r.c.headers {
        println!("  {n}: {:?}", String::from_utf8_lossy(v));
    }
    for (what, q) in [("as sent", r.clone()), ("on the unknown path", r.twin())] {
        match env.run(&q) {
            Ok(resp) => println!("{what}: {} {}\n  backend was handed `{}`", q.c.target, resp.head_text(), view_text(&resp.body)),
            Err(e) => println!("{what}: {} {e}", q.c.target),
        }
    }
    match env.check(r).1 {
        Some((kind, why)) => {
            println!("FAILS ({kind}): {why}");
            1
        }
        None => {
            println!("holds on this input");
            0
        }
    }
}

fn corpus_part(args: &Args, rep: &mut Report) {
    let mut imp = Impl::new();
    for (name, text) in corpus_files(args.corpus.as_deref()) {
        for l in text.lines() {
            let l = l.trim();
            if l.is_empty() || l.starts_with('#') {
                continue;
            }
            let Ok(v) = serde_json::from_str::<Value>(l) else { continue };
            if v.get("op").and_then(Value::as_str) == Some("backend-view") {
                continue; // run by `backend_view_part` (needs the reflecting backend)
            }
            let Some(c) = Conc::from_json(&v) else { continue };
            let o = imp.eval(&c);
            let t = imp.eval(&c.with_target(UNKNOWN));
            rep.case(Some(fnv(l.as_bytes())));
            rep.count(&format!("corpus/{name}"));
            if let Some((kind, why)) = oracle(&c, &o, &t) {
                rep.fail(FailKind::Impl, &format!("{kind}: corpus {name}"), &why, c.to_json());
            }
        }
    }
}

fn main() {
    if std::env::var_os("PVH_DEBUG").is_none() {
        quiet_panics();
    }
    let args = Args::parse();
    // what `main.rs` of the binary does before anything else
    let _ = rusty_penguin_lib::tls::init_crypto_provider();
    if let Some(p) = &args.replay {
        std::process::exit(replay(p));
    }
    let cr_rule = "family client-request: generated pairs of a client and a server command line (parsed by the real PenguinCli): --ws-psk on both sides {equal, different \
(case variant, prefix, suffix, padded, unrelated), client only, server only, neither} with plain, spaced, tabbed, non-ASCII and empty keys, --hostname \
{absent, names, non-ASCII, padded, empty}, 0-3 --header arguments {not a gate header; x-penguin-psk / sec-websocket-protocol / upgrade / connection / \
sec-websocket-version / sec-websocket-key / host in any case; malformed}, server URL with scheme {ws, wss, http, https, other case, other, none} x user info x \
{/ws, /ws?query, no path, /, other paths}; the real client's request is captured on a loopback listener (plain or TLS); non-trivial = a request was \
written and captured; distinct by the generated pair; plus the product of 13 schemes x 15 authorities x 15 paths through ServerUrl::from_str";
    if args.opt("--family") == Some("client-request") {
        // the family alone (development, replays of its cases)
        let mut rep = Report::new("gate-client-request", &args, cr_rule);
        client_request::family(&args, &mut rep);
        rep.finish(&args);
        std::process::exit(i32::from(rep.has_failures()));
    }
    let rule = "every combination of method {GET,POST,HEAD,CONNECT,get} x target {/ws,/ws/,/WS,/ws?x,/health,/version,/x} x \
{absent,exact,case-changed,near-miss}^5 over connection/upgrade/sec-websocket-version/-protocol/-key x presented x-penguin-psk \
{absent,equal,case-variant,near-miss,prefix,padded} x PSK configured or not x obfs x OnUpgrade present or not, plus each header alone \
{empty, duplicated good-then-bad, duplicated bad-then-good} with all other dimensions enumerated, plus further near misses \
(padded, list form, high bit, prefix), plus the near-miss value tables of connection/upgrade/sec-websocket-version/-protocol and of the \
presented x-penguin-psk (numeric look-alikes of 13, the token with something before/after/inside it, list forms, other case, white space, \
non-ASCII look-alikes, the header on several lines) each on an otherwise valid request; non-trivial = a GET whose target routes to ws_handler (gets past the path and method tests); \
distinct by request and configuration";
    let rule = format!("{rule} || {cr_rule}");
    let mut rep = Report::new("gate", &args, &rule);
    let threads = std::thread::available_parallelism().map_or(4, |n| n.get()).min(32);
    let mut rng = Rng::new(args.seed);
    corpus_part(&args, &mut rep);
    let p = plan();
    let full = args.tier == Tier::Thorough || args.flag("--full");
    // quick: the whole base matrix, and one in `stride` of the one-header variants (offset from the seed)
    let stride = if full { 1 } else { 8 };
    let offset = rng.below(stride as u64) as usize;
    matrix_part(&args, &mut rep, &p.base, "base", 1, 0, threads);
    matrix_part(&args, &mut rep, &p.ext_required, "one-header-empty-or-duplicated", stride, offset, threads);
    matrix_part(&args, &mut rep, &p.ext_more, "one-header-more-near-misses", 1, 0, threads);
    // both tiers: every table value with the other headers exact; thorough: also with them case-changed
    matrix_part(&args, &mut rep, &p.near, "near-miss-values", 1, 0, threads);
    if full {
        matrix_part(&args, &mut rep, &p.near_cased, "near-miss-values-others-case-changed", 1, 0, threads);
    }
    let per_combo = 2 * 2 * 2 * METHODS.len() * TARGETS.len();
    rep.exhaustive = full && !rep.has_failures();
    rep.notes.push(format!(
        "matrix: {} base + {} one-header(empty/duplicated) + {} further near-miss header combinations, each x {per_combo} \
(PSK configured x obfs x OnUpgrade x method x target); one-header part enumerated {}",
        p.base.len(),
        p.ext_required.len(),
        p.ext_more.len(),
        if full { "completely".to_string() } else { format!("1 in {stride} (quick)") }
    ));
    {
        let tally = |t: &[Nm]| {
            let n = |s: Says| t.iter().filter(|e| e.says == s).count();
            format!("{} ({} valid by the text / {} invalid / {} on several lines, model comparison only)", t.len(), n(Says::Valid), n(Says::Invalid), n(Says::Open))
        };
        rep.notes.push(format!(
            "near-miss value tables: {}; x-penguin-psk {}; {} combinations with the other headers exact (both tiers) + {} with them \
case-changed ({}), each x {per_combo}",
            (0..4).map(|h| format!("{} {}", HNAMES[h], tally(table(h)))).collect::<Vec<_>>().join("; "),
            tally(psk_table()),
            p.near.len(),
            p.near_cased.len(),
            if full { "run" } else { "thorough only" }
        ));
    }
    accept_part(&args, &mut rep, &mut rng.fork(2), if full { 10_000 } else { 1_500 });
    wire_part(&mut rep);
    backend_part(&mut rep);
    backend_view_part(&args, &mut rep, full);
    // the client's half: the request the real client builds, against the model and the real server
    client_request::family(&args, &mut rep);
    rep.finish(&args);
    std::process::exit(i32::from(rep.has_failures()));
}
