//! C17: TLS peers are authenticated exactly as configured.
//!
//! Real handshakes between the real client entry point `rusty_penguin_lib::tls::tls_connect`
//! (→ `make_client_config`) and a `tokio_rustls` acceptor built from the real
//! `make_server_config` / `make_tls_identity`, over `tokio::io::duplex`, for the FULL matrix of the
//! property's quantifier
//!   {server cert issued by the CA the client trusts / another CA / self-signed}
//! × {requested name matches / differs} × {skip-verify on / off}
//! × {client cert: none / issued by the server's client CA / issued by another CA}
//! × {server client-CA configured / not}                                   = 72 combinations,
//! each compared (after one byte each way, so that TLS 1.3 client-auth failures surface) with
//!  * the property's own statement evaluated directly (`spec_ok`)            → `FailKind::Impl`,
//!  * the Lean model `Penguin.Tls.handshake` through `drv_tls` (outcome kind, whether the server saw
//!    a client certificate, `handshakeOk`)                                   → `FailKind::Model`.
//! Beyond the matrix: configuration corner cases (cert without key, no CA file, CA bundle, empty CA
//! file, unparsable names), a probe of whether the server sends a CertificateRequest, the server-name
//! choice of the real client (`client_main_inner` → `ws_connect::handshake`; also with custom `-H/--header`
//! request headers, a `Host` header among them, which must never change the name asked for), server
//! certificates that ordinary verification refuses for a dozen different reasons and that a client told to
//! skip verification must accept all the same (`odd …` cases), identity reload
//! through the real `run_listener` + `reload_tls_identity`, and histories of reloads (certificate and
//! client-CA setting) with long-lived clients that keep their `ClientConfig` — and so offer session
//! resumption — across connections (`resume …` scenarios): every handshake after a reload is judged
//! by the identity and client-CA policy in force at that moment.  Finally the signal path itself
//! (`signal …` histories): the real `server_main` with `--tls-cert/--tls-key[/--tls-ca]`, the files
//! rewritten with valid or broken content, SIGUSR1 sent to this process: every signal that finds
//! valid files changes what later handshakes see, whatever failed before.  And the trust anchors
//! themselves (`anchors …` scenarios): the platform trust store of the harness process is a CA of its
//! own (P, through `SSL_CERT_FILE` / `SSL_CERT_DIR`: the build has the `system-roots` root source), and
//! a `--tls-ca` file without usable certificate (DER, `TRUSTED CERTIFICATE`, key only, empty, truncated)
//! must leave either side with NO trust anchor instead of the platform's: such a client never reaches
//! a P-issued server, such a server (start, reload, `server_main` start and SIGUSR1) never serves a
//! client presenting a P-issued certificate.
//!
//! Certificates are generated with rcgen into `/verif/.build/tmp/c17-<pid>/round<n>/` (removed at exit).

use pvhf::{Args, Driver, FailKind, Report, Rng, Tier, Value, fnv, json};
use rcgen::{
    BasicConstraints, CertificateParams, DistinguishedName, DnType, ExtendedKeyUsagePurpose, IsCa, Issuer, KeyPair,
    KeyUsagePurpose, SignatureAlgorithm,
};
use rusty_penguin_lib::tls::{
    self, make_client_config, make_server_config, make_tls_identity, reload_tls_identity, tls_connect,
};
use std::path::{Path, PathBuf};
use std::sync::Arc;
use std::sync::atomic::{AtomicBool, Ordering};
use std::time::Duration;
use tokio::io::{AsyncRead, AsyncReadExt, AsyncWrite, AsyncWriteExt};

const GOOD_NAME: &str = "server.test";
const OTHER_NAME: &str = "other.test";
const CASE_TIMEOUT: Duration = Duration::from_secs(15);
/// host of the server URL in the server-name families
const URL_HOST: &str = "localhost";
/// the host a custom `Host` request header names (never a name the client was asked to verify)
const HEADER_HOST: &str = "front.test";
/// names for which the server-name families have a server certificate (each valid for that one name only)
const NAME_CERTS: [&str; 4] = [URL_HOST, "h.test", "s.test", HEADER_HOST];

// ---------------------------------------------------------------------------------------------
// PKI on disk
// ---------------------------------------------------------------------------------------------

#[derive(Clone, Copy, Debug)]
struct Round {
    idx: usize,
    alg: &'static str,
    /// leaves are issued by an intermediate under the root; the cert file holds leaf + intermediate
    intermediate: bool,
    /// the "name differs" axis is realised on the certificate (SAN = other.test, client asks
    /// server.test) instead of on the requested name
    mismatch_on_cert: bool,
}

fn alg_of(name: &str) -> &'static SignatureAlgorithm {
    match name {
        "p256" => &rcgen::PKCS_ECDSA_P256_SHA256,
        "p384" => &rcgen::PKCS_ECDSA_P384_SHA384,
        "ed25519" => &rcgen::PKCS_ED25519,
        "rsa" => &rcgen::PKCS_RSA_SHA256,
        other => panic!("unknown algorithm {other}"),
    }
}

struct Authority {
    params: CertificateParams,
    key: KeyPair,
    pem: String,
    /// the same certificate as DER (for the "CA saved in the wrong format" files of the anchors family)
    der: Vec<u8>,
    /// PEM of the intermediate (appended to leaf files) when the round uses one
    chain_tail: String,
    inter: Option<(CertificateParams, KeyPair)>,
}

fn dn(cn: &str) -> DistinguishedName {
    let mut d = DistinguishedName::new();
    d.push(DnType::CommonName, cn);
    d.push(DnType::OrganizationName, "penguin-verif C17");
    d
}

fn authority(cn: &str, round: &Round) -> Authority {
    let mut params = CertificateParams::new(Vec::<String>::new()).expect("ca params");
    params.distinguished_name = dn(cn);
    params.is_ca = IsCa::Ca(BasicConstraints::Unconstrained);
    params.key_usages = vec![KeyUsagePurpose::KeyCertSign, KeyUsagePurpose::CrlSign, KeyUsagePurpose::DigitalSignature];
    let key = KeyPair::generate_for(alg_of(round.alg)).expect("ca key");
    let cert = params.self_signed(&key).expect("ca cert");
    let mut a = Authority { params, key, pem: cert.pem(), der: cert.der().to_vec(), chain_tail: String::new(), inter: None };
    if round.intermediate {
        let mut ip = CertificateParams::new(Vec::<String>::new()).expect("intermediate params");
        ip.distinguished_name = dn(&format!("{cn} intermediate"));
        ip.is_ca = IsCa::Ca(BasicConstraints::Constrained(0));
        ip.key_usages = vec![KeyUsagePurpose::KeyCertSign, KeyUsagePurpose::CrlSign, KeyUsagePurpose::DigitalSignature];
        let ik = KeyPair::generate_for(alg_of(round.alg)).expect("intermediate key");
        let ic = ip.signed_by(&ik, &Issuer::from_params(&a.params, &a.key)).expect("intermediate cert");
        a.chain_tail = ic.pem();
        a.inter = Some((ip, ik));
    }
    a
}

/// (certificate file content, key PEM, leaf DER)
fn leaf(cn: &str, sans: &[&str], server: bool, by: Option<&Authority>, alg: &str) -> (String, String, Vec<u8>) {
    let mut p = CertificateParams::new(sans.iter().map(|s| (*s).to_string()).collect::<Vec<_>>()).expect("leaf params");
    p.distinguished_name = dn(cn);
    p.key_usages = vec![KeyUsagePurpose::DigitalSignature];
    p.extended_key_usages =
        vec![if server { ExtendedKeyUsagePurpose::ServerAuth } else { ExtendedKeyUsagePurpose::ClientAuth }];
    let key = KeyPair::generate_for(alg_of(alg)).expect("leaf key");
    let (cert, tail) = match by {
        None => (p.self_signed(&key).expect("self-signed leaf"), String::new()),
        Some(a) => match &a.inter {
            Some((ip, ik)) => (p.signed_by(&key, &Issuer::from_params(ip, ik)).expect("leaf"), a.chain_tail.clone()),
            None => (p.signed_by(&key, &Issuer::from_params(&a.params, &a.key)).expect("leaf"), String::new()),
        },
    };
    (format!("{}{}", cert.pem(), tail), key.serialize_pem(), cert.der().to_vec())
}

struct Pki {
    dir: PathBuf,
}

impl Pki {
    fn p(&self, f: &str) -> String {
        self.dir.join(f).to_str().expect("utf-8 path").to_string()
    }
    fn write(&self, f: &str, body: &str) {
        std::fs::write(self.dir.join(f), body).expect("write pki file");
    }
    fn write_leaf(&self, stem: &str, l: &(String, String, Vec<u8>)) {
        self.write(&format!("{stem}.pem"), &l.0);
        self.write(&format!("{stem}.key"), &l.1);
    }

    /// CAs: a = the roots the client is given, b = another CA; c = the server's client CA, d = another.
    fn generate(base: &Path, round: &Round) -> Self {
        let dir = base.join(format!("round{}", round.idx));
        std::fs::create_dir_all(&dir).expect("create pki dir");
        let pki = Self { dir };
        let (a, b, c, d) =
            (authority("CA A", round), authority("CA B", round), authority("CA C", round), authority("CA D", round));
        pki.write("ca_a.pem", &a.pem);
        pki.write("ca_b.pem", &b.pem);
        pki.write("ca_c.pem", &c.pem);
        pki.write("ca_d.pem", &d.pem);
        pki.write("ca_ab.pem", &format!("{}{}", a.pem, b.pem));
        pki.write("empty.pem", "# a CA file without any certificate\n");
        for san in [GOOD_NAME, OTHER_NAME] {
            let tag = if san == GOOD_NAME { "good" } else { "othername" };
            pki.write_leaf(&format!("srv_trusted_{tag}"), &leaf("server leaf (A)", &[san], true, Some(&a), round.alg));
            pki.write_leaf(&format!("srv_other_{tag}"), &leaf("server leaf (B)", &[san], true, Some(&b), round.alg));
            pki.write_leaf(&format!("srv_self_{tag}"), &leaf("server leaf (self)", &[san], true, None, round.alg));
        }
        pki.write_leaf("cli_trusted", &leaf("client leaf (C)", &["client.test"], false, Some(&c), round.alg));
        pki.write_leaf("cli_other", &leaf("client leaf (D)", &["client.test"], false, Some(&d), round.alg));
        // for the server-name choice part: leaves under A for each candidate name
        // (`front.test` = the host named by a custom `Host` request header in the header family)
        for n in NAME_CERTS {
            pki.write_leaf(&format!("srv_name_{n}"), &leaf("server leaf (A)", &[n], true, Some(&a), round.alg));
        }
        pki
    }
}

// ---------------------------------------------------------------------------------------------
// One handshake case
// ---------------------------------------------------------------------------------------------

#[derive(Clone, Debug, PartialEq, Eq)]
struct Case {
    /// "trusted" | "other" | "self"
    srv: String,
    /// "none" | "c" | "empty"
    srv_client_ca: String,
    /// "none" | "trusted" | "other"  (which `--tls-cert` file the client is given)
    cli_cert: String,
    /// whether `--tls-key` is given
    cli_key: bool,
    /// "a" | "none" | "ab" | "self"  (which `--tls-ca` the client is given)
    cli_ca: String,
    skip: bool,
    /// name matches the certificate's SAN
    name_match: bool,
    /// `Some` = hand this text to `tls_connect` instead of a well-formed name
    raw_name: Option<String>,
    matrix: bool,
}

impl Case {
    fn to_json(&self) -> Value {
        json!({"srv": self.srv, "srv_client_ca": self.srv_client_ca, "cli_cert": self.cli_cert, "cli_key": self.cli_key,
               "cli_ca": self.cli_ca, "skip": self.skip, "name_match": self.name_match, "raw_name": self.raw_name,
               "matrix": self.matrix})
    }
    fn from_json(v: &Value) -> Option<Self> {
        Some(Self {
            srv: v["srv"].as_str()?.into(),
            srv_client_ca: v["srv_client_ca"].as_str()?.into(),
            cli_cert: v["cli_cert"].as_str()?.into(),
            cli_key: v["cli_key"].as_bool()?,
            cli_ca: v["cli_ca"].as_str()?.into(),
            skip: v["skip"].as_bool()?,
            name_match: v["name_match"].as_bool()?,
            raw_name: v["raw_name"].as_str().map(Into::into),
            matrix: v["matrix"].as_bool().unwrap_or(false),
        })
    }

    /// The name given to `tls_connect` and the SAN of the server certificate used.
    fn names(&self, round: &Round) -> (String, &'static str) {
        if let Some(r) = &self.raw_name {
            return (r.clone(), GOOD_NAME);
        }
        match (self.name_match, round.mismatch_on_cert) {
            (true, _) => (GOOD_NAME.into(), GOOD_NAME),
            (false, false) => (OTHER_NAME.into(), GOOD_NAME),
            (false, true) => (GOOD_NAME.into(), OTHER_NAME),
        }
    }

    /// Independent rule (not rustls) for the handful of names used here: does it parse as a server name?
    fn name_parses(name: &str) -> bool {
        !name.is_empty()
            && name.split('.').all(|l| {
                !l.is_empty() && l.chars().all(|c| c.is_ascii_alphanumeric() || c == '-' || c == '_')
            })
    }

    /// Request line for `drv_tls`.
    fn model_line(&self, round: &Round) -> String {
        let (name, san) = self.names(round);
        let srv_label = match self.srv.as_str() {
            "trusted" => 1,
            "other" => 2,
            _ => 9,
        };
        let sca = match self.srv_client_ca.as_str() {
            "none" => "-",
            "c" => "5",
            _ => "empty",
        };
        let ccert = match self.cli_cert.as_str() {
            "none" => "-".to_string(),
            "trusted" => "5:client.test".to_string(),
            _ => "6:client.test".to_string(),
        };
        let cca = match self.cli_ca.as_str() {
            "a" => "1",
            "none" => "-",
            "ab" => "1,2",
            _ => "9",
        };
        let name_tok = if Self::name_parses(&name) { name } else { "!".to_string() };
        format!(
            "hs {srv_label}:{san} {sca} {ccert} {} {cca} {} {name_tok}",
            u8::from(self.cli_key),
            u8::from(self.skip)
        )
    }

    /// The property's own statement, evaluated directly on the configuration.
    fn spec_ok(&self, round: &Round) -> bool {
        let (name, san) = self.names(round);
        if self.srv_client_ca == "empty" || !Self::name_parses(&name) {
            return false; // no server / no handshake at all
        }
        let chain_validates = match (self.srv.as_str(), self.cli_ca.as_str()) {
            ("trusted", "a" | "ab") | ("other", "ab") | ("self", "self") => true,
            // includes "none": the built-in roots of this build are the platform store, which the harness
            // replaces by its own CA P (`install_platform_store`); P issued none of these server certificates
            // (a build without a platform root source has no built-in roots at all)
            _ => false,
        };
        let client_ok = self.skip || (chain_validates && name == san);
        let client_presents = self.cli_key && self.cli_cert != "none";
        let server_ok = self.srv_client_ca == "none" || (client_presents && self.cli_cert == "trusted");
        client_ok && server_ok
    }

    fn key(&self, round: &Round) -> String {
        format!("{}{} [round {}: {}{}{}]", self.model_line(round),
            self.raw_name.as_ref().map(|r| format!(" raw-name={r:?}")).unwrap_or_default(), round.idx, round.alg,
            if round.intermediate { " intermediate" } else { "" },
            if round.mismatch_on_cert { " san-mismatch" } else { "" })
    }
}

#[derive(Clone, Debug, PartialEq, Eq)]
enum Obs {
    Ok { server_saw_client_cert: bool },
    ClientRejects(String),
    ServerRejects(String),
    ConfigError(String),
    DnsName,
    Other(String),
}

impl Obs {
    /// Canonical form comparable with the model's answer (`ok=`/`asks=` are added by the caller).
    fn kind(&self) -> &'static str {
        match self {
            Obs::Ok { .. } => "ok",
            Obs::ClientRejects(_) => "client-rejects",
            Obs::ServerRejects(_) => "server-rejects",
            Obs::ConfigError(_) => "config-error",
            Obs::DnsName => "dns-name",
            Obs::Other(_) => "other",
        }
    }
}

fn rustls_err(e: &std::io::Error) -> Option<&rustls::Error> {
    e.get_ref().and_then(|i| i.downcast_ref::<rustls::Error>())
}

async fn exchange<S: AsyncRead + AsyncWrite + Unpin>(s: &mut S, byte: u8) -> std::io::Result<u8> {
    s.write_all(&[byte]).await?;
    s.flush().await?;
    let mut b = [0u8; 1];
    s.read_exact(&mut b).await?;
    Ok(b[0])
}

async fn run_case(pki: &Pki, round: &Round, c: &Case) -> Obs {
    let (name, san) = c.names(round);
    let tag = if san == GOOD_NAME { "good" } else { "othername" };
    let srv_cert = pki.p(&format!("srv_{}_{tag}.pem", c.srv));
    let srv_key = pki.p(&format!("srv_{}_{tag}.key", c.srv));
    let srv_ca = match c.srv_client_ca.as_str() {
        "none" => None,
        "c" => Some(pki.p("ca_c.pem")),
        _ => Some(pki.p("empty.pem")),
    };
    let cli_cert = match c.cli_cert.as_str() {
        "none" => None,
        k => Some(pki.p(&format!("cli_{k}.pem"))),
    };
    let cli_key = c.cli_key.then(|| pki.p(&format!("cli_{}.key", if c.cli_cert == "other" { "other" } else { "trusted" })));
    let cli_ca = match c.cli_ca.as_str() {
        "a" => Some(pki.p("ca_a.pem")),
        "none" => None,
        "ab" => Some(pki.p("ca_ab.pem")),
        _ => Some(pki.p(&format!("srv_self_{tag}.pem"))),
    };
    run_handshake(&srv_cert, &srv_key, srv_ca.as_deref(), &name, cli_cert.as_deref(), cli_key.as_deref(), cli_ca.as_deref(), c.skip).await
}

/// One real handshake: an acceptor built by the real `make_server_config` from the given files against the
/// real `tls_connect` with the given client options, one byte each way.
#[allow(clippy::too_many_arguments)]
async fn run_handshake(
    srv_cert: &str,
    srv_key: &str,
    srv_ca: Option<&str>,
    name: &str,
    cli_cert: Option<&str>,
    cli_key: Option<&str>,
    cli_ca: Option<&str>,
    skip: bool,
) -> Obs {
    // server side: the real configuration function
    let cfg = match make_server_config(srv_cert, srv_key, srv_ca).await {
        Ok(cfg) => cfg,
        Err(tls::Error::Verifier(e)) => return Obs::ConfigError(format!("{e}")),
        Err(e) => return Obs::Other(format!("make_server_config: {e}")),
    };
    handshake_against(cfg, name, cli_cert, cli_key, cli_ca, skip).await
}

/// The real `tls_connect` with the given client options against an acceptor with this configuration.
async fn handshake_against(
    cfg: rustls::ServerConfig,
    name: &str,
    cli_cert: Option<&str>,
    cli_key: Option<&str>,
    cli_ca: Option<&str>,
    skip: bool,
) -> Obs {
    let acceptor = tokio_rustls::TlsAcceptor::from(Arc::new(cfg));
    let (cio, sio) = tokio::io::duplex(1 << 16);
    let server = tokio::spawn(async move {
        let mut s = acceptor.accept(sio).await?;
        let saw = s.get_ref().1.peer_certificates().is_some_and(|c| !c.is_empty());
        let mut b = [0u8; 1];
        s.read_exact(&mut b).await?;
        s.write_all(&[b[0] ^ 0xff]).await?;
        s.flush().await?;
        let _ = s.read(&mut b).await; // until the client closes
        Ok::<bool, std::io::Error>(saw)
    });
    // client side: the real entry point
    let client = async {
        let mut st = tls_connect(cio, name, cli_cert, cli_key, cli_ca, skip).await?;
        let r = exchange(&mut st, 0x5a).await;
        let _ = st.shutdown().await;
        Ok::<std::io::Result<u8>, tls::Error>(r)
    };
    let both = async {
        let cr = client.await;
        let sr = server.await.unwrap_or_else(|e| Err(std::io::Error::other(format!("server task: {e}"))));
        (cr, sr)
    };
    let Ok((cr, sr)) = tokio::time::timeout(CASE_TIMEOUT, both).await else {
        return Obs::Other("timeout".into());
    };
    match (cr, sr) {
        (Err(tls::Error::DnsName(_)), _) => Obs::DnsName,
        (Err(tls::Error::TcpConnect(e)), sr) => match rustls_err(&e) {
            Some(rustls::Error::InvalidCertificate(why)) if sr.is_err() => Obs::ClientRejects(format!("{why:?}")),
            _ => Obs::Other(format!("client connect: {e:?}; server: {sr:?}")),
        },
        (Err(e), sr) => Obs::Other(format!("client: {e:?}; server: {sr:?}")),
        (Ok(Ok(0xa5)), Ok(saw)) => Obs::Ok { server_saw_client_cert: saw },
        (Ok(Err(ce)), Err(se)) => match rustls_err(&se) {
            Some(rustls::Error::InvalidCertificate(why)) => Obs::ServerRejects(format!("{why:?}")),
            Some(rustls::Error::NoCertificatesPresented) => Obs::ServerRejects("NoCertificatesPresented".into()),
            _ => Obs::Other(format!("client exchange: {ce:?}; server: {se:?}")),
        },
        (Ok(cr), sr) => Obs::Other(format!("client exchange: {cr:?}; server: {sr:?}")),
    }
}

fn matrix() -> Vec<Case> {
    let mut v = vec![];
    for srv in ["trusted", "other", "self"] {
        for name_match in [true, false] {
            for skip in [false, true] {
                for cli in ["none", "trusted", "other"] {
                    for server_ca in [false, true] {
                        v.push(Case {
                            srv: srv.into(),
                            srv_client_ca: if server_ca { "c" } else { "none" }.into(),
                            cli_cert: cli.into(),
                            cli_key: cli != "none",
                            cli_ca: "a".into(),
                            skip,
                            name_match,
                            raw_name: None,
                            matrix: true,
                        });
                    }
                }
            }
        }
    }
    v
}

fn extras() -> Vec<Case> {
    let base = Case {
        srv: "trusted".into(),
        srv_client_ca: "c".into(),
        cli_cert: "trusted".into(),
        cli_key: true,
        cli_ca: "a".into(),
        skip: false,
        name_match: true,
        raw_name: None,
        matrix: false,
    };
    let mut v = vec![];
    // `--tls-cert` without `--tls-key` and the converse: nothing is presented
    for sca in ["c", "none"] {
        v.push(Case { cli_key: false, srv_client_ca: sca.into(), ..base.clone() });
        v.push(Case { cli_cert: "none".into(), srv_client_ca: sca.into(), ..base.clone() });
    }
    // no `--tls-ca`: the built-in roots (none in this build) are used, not "trust everything"
    for srv in ["trusted", "other", "self"] {
        for skip in [false, true] {
            v.push(Case { srv: srv.into(), cli_ca: "none".into(), skip, ..base.clone() });
        }
    }
    // a self-signed leaf given as the CA file; a bundle of two CAs
    for name_match in [true, false] {
        v.push(Case { srv: "self".into(), cli_ca: "self".into(), name_match, ..base.clone() });
        v.push(Case { srv: "trusted".into(), cli_ca: "self".into(), name_match, ..base.clone() });
        for srv in ["trusted", "other", "self"] {
            v.push(Case { srv: srv.into(), cli_ca: "ab".into(), name_match, ..base.clone() });
        }
    }
    // a client CA file without certificates: the server configuration is refused
    for cli in ["none", "trusted"] {
        v.push(Case { srv_client_ca: "empty".into(), cli_cert: cli.into(), cli_key: cli != "none", ..base.clone() });
    }
    // names that do not parse: no handshake, with and without skip-verify; an IP literal is a name
    // like any other (no IP SAN in the certificate)
    for skip in [false, true] {
        for raw in ["bad name", "", "exa$mple.test", "127.0.0.1"] {
            v.push(Case { raw_name: Some(raw.into()), skip, ..base.clone() });
        }
    }
    v
}

struct Ctx {
    rep: Report,
    drv: Option<Driver>,
}

impl Ctx {
    async fn eval_cases(&mut self, pki: &Pki, round: &Round, cases: &[Case]) {
        let model: Option<Vec<String>> =
            self.drv.as_mut().map(|d| d.batch(&cases.iter().map(|c| c.model_line(round)).collect::<Vec<_>>()));
        for (i, c) in cases.iter().enumerate() {
            let obs = run_case(pki, round, c).await;
            let key = c.key(round);
            self.rep.case(Some(fnv(key.as_bytes())));
            let why = match &obs {
                Obs::ClientRejects(w) | Obs::ServerRejects(w) | Obs::ConfigError(w) => {
                    format!(" ({})", w.split(|ch: char| !ch.is_ascii_alphanumeric()).next().unwrap_or(""))
                }
                _ => String::new(),
            };
            self.rep.count(&format!("{}/{}{why}", if c.matrix { "matrix" } else { "extra" }, obs.kind()));
            let real_ok = matches!(obs, Obs::Ok { .. });
            let replay = json!({"op": "hs", "case": c.to_json(), "round": {"idx": round.idx, "alg": round.alg,
                "intermediate": round.intermediate, "mismatch_on_cert": round.mismatch_on_cert}});
            let want = c.spec_ok(round);
            if real_ok != want {
                self.rep.fail(
                    FailKind::Impl,
                    &key,
                    &format!("the property requires the handshake to {}, the real code: {obs:?}",
                        if want { "complete" } else { "fail" }),
                    replay.clone(),
                );
            }
            if let Obs::Other(why) = &obs {
                // never silently accepted: an outcome the harness cannot classify
                self.rep.fail(FailKind::Model, &format!("unclassified {key}"), why, replay.clone());
            }
            if let Some(m) = &model {
                self.rep.model_compared += 1;
                let ml = &m[i];
                let mkind = ml.split(' ').next().unwrap_or("");
                let mut agree = mkind == obs.kind() && ml.contains(&format!("ok={real_ok}"));
                if let Obs::Ok { server_saw_client_cert } = obs {
                    agree &= ml.contains(&format!("presented={}", u8::from(server_saw_client_cert)));
                }
                if !agree {
                    self.rep.fail(
                        FailKind::Model,
                        &format!("model {key}"),
                        &format!("model `{ml}` vs implementation {obs:?}"),
                        replay,
                    );
                }
            }
            if c.matrix && self.rep.samples.len() < 6 && i % 13 == 0 {
                self.rep.sample(json!({"case": c.model_line(round), "impl": format!("{obs:?}"), "spec_ok": want}));
            }
        }
    }
}

// ---------------------------------------------------------------------------------------------
// Does the server send a CertificateRequest?  (real `make_server_config`, recording client resolver)
// ---------------------------------------------------------------------------------------------

#[derive(Debug, Default)]
struct Recorder(AtomicBool);

impl rustls::client::ResolvesClientCert for Recorder {
    fn resolve(&self, _hints: &[&[u8]], _schemes: &[rustls::SignatureScheme]) -> Option<Arc<rustls::sign::CertifiedKey>> {
        self.0.store(true, Ordering::SeqCst);
        None
    }
    fn has_certs(&self) -> bool {
        true
    }
}

async fn asks_probe(cx: &mut Ctx, pki: &Pki, round: &Round) {
    for (sca, tok) in [(None, "-"), (Some(pki.p("ca_c.pem")), "5")] {
        let key = format!("asks clientCa={tok} [round {}]", round.idx);
        cx.rep.case(Some(fnv(key.as_bytes())));
        let run = async {
            let cfg = make_server_config(&pki.p("srv_trusted_good.pem"), &pki.p("srv_trusted_good.key"), sca.as_deref())
                .await
                .map_err(|e| format!("{e}"))?;
            let acceptor = tokio_rustls::TlsAcceptor::from(Arc::new(cfg));
            let (cio, sio) = tokio::io::duplex(1 << 16);
            let server = tokio::spawn(async move {
                let mut s = acceptor.accept(sio).await?;
                let mut b = [0u8; 1];
                let _ = s.read(&mut b).await;
                Ok::<(), std::io::Error>(())
            });
            // the real client configuration (skip-verify), with only the certificate resolver replaced
            let mut ccfg = make_client_config(None, None, None, true, None).await.map_err(|e| format!("{e}"))?;
            let rec = Arc::new(Recorder::default());
            ccfg.client_auth_cert_resolver = rec.clone();
            let conn = tokio_rustls::TlsConnector::from(Arc::new(ccfg));
            let name = rustls::pki_types::ServerName::try_from(GOOD_NAME.to_string()).map_err(|e| format!("{e}"))?;
            if let Ok(mut s) = conn.connect(name, cio).await {
                let _ = exchange(&mut s, 1).await;
            }
            let _ = server.await;
            Ok::<bool, String>(rec.0.load(Ordering::SeqCst))
        };
        let asked = match tokio::time::timeout(CASE_TIMEOUT, run).await {
            Ok(Ok(b)) => b,
            Ok(Err(e)) => {
                cx.rep.fail(FailKind::Model, &key, &format!("probe failed: {e}"), json!({"op": "asks", "ca": tok}));
                continue;
            }
            Err(_) => {
                cx.rep.fail(FailKind::Model, &key, "probe timed out", json!({"op": "asks", "ca": tok}));
                continue;
            }
        };
        cx.rep.count(&format!("asks/{asked}"));
        if asked != sca.is_some() {
            cx.rep.fail(
                FailKind::Impl,
                &key,
                &format!("server with client CA {tok}: CertificateRequest sent = {asked}"),
                json!({"op": "asks", "ca": tok}),
            );
        }
        if let Some(d) = cx.drv.as_mut() {
            cx.rep.model_compared += 1;
            let ml = d.ask(&format!("hs 1:{GOOD_NAME} {tok} - 0 - 1 {GOOD_NAME}"));
            if !ml.contains(&format!("asks={}", u8::from(asked))) {
                cx.rep.fail(FailKind::Model, &format!("model {key}"), &format!("model `{ml}` vs asked={asked}"),
                    json!({"op": "asks", "ca": tok}));
            }
        }
    }
}

// ---------------------------------------------------------------------------------------------
// Which name the real client asks for (`client_main_inner` → `ws_connect::handshake`)
// ---------------------------------------------------------------------------------------------

#[derive(Debug)]
struct NameObs {
    connected: bool,
    sni: Option<String>,
    tls_ok: bool,
    /// value of the `Host` header of the upgrade request that followed the handshake (diagnostic only)
    http_host: Option<String>,
    client_err: Option<String>,
}

async fn name_case(pki: &Pki, hostname: Option<&[u8]>, sni: Option<&str>, headers: &[String], cert_for: &str) -> Result<NameObs, String> {
    use rusty_penguin_lib::arg::{ClientArgs, Header, Remote, ServerUrl};
    use rusty_penguin_lib::client::{HandlerResources, client_main_inner};
    use std::str::FromStr;
    let listener = tokio::net::TcpListener::bind("127.0.0.1:0").await.map_err(|e| format!("bind: {e}"))?;
    let port = listener.local_addr().map_err(|e| format!("{e}"))?.port();
    let cfg = Arc::new(
        make_server_config(&pki.p(&format!("srv_name_{cert_for}.pem")), &pki.p(&format!("srv_name_{cert_for}.key")), None)
            .await
            .map_err(|e| format!("{e}"))?,
    );
    let server = tokio::spawn(async move {
        let Ok(Ok((tcp, _))) = tokio::time::timeout(Duration::from_secs(3), listener.accept()).await else {
            return (false, None, false, None);
        };
        let Ok(start) = tokio_rustls::LazyConfigAcceptor::new(rustls::server::Acceptor::default(), tcp).await else {
            return (true, None, false, None);
        };
        let sni = start.client_hello().server_name().map(str::to_string);
        let (ok, http_host) = match start.into_stream(cfg).await {
            Ok(mut s) => {
                // the client goes on to send its HTTP upgrade request only if it accepted the certificate
                let mut b = [0u8; 4];
                let ok = matches!(tokio::time::timeout(Duration::from_secs(3), s.read_exact(&mut b)).await, Ok(Ok(_))) && &b == b"GET ";
                // the rest of the request head, for the `Host` header it carries (best effort, bounded)
                let mut head: Vec<u8> = b.to_vec();
                let mut chunk = [0u8; 1024];
                while ok && head.len() < 16384 && !head.windows(4).any(|w| w == b"\r\n\r\n") {
                    match tokio::time::timeout(Duration::from_secs(1), s.read(&mut chunk)).await {
                        Ok(Ok(n)) if n > 0 => head.extend_from_slice(&chunk[..n]),
                        _ => break,
                    }
                }
                let host = String::from_utf8_lossy(&head)
                    .split("\r\n")
                    .find_map(|l| l.split_once(':').filter(|(k, _)| k.eq_ignore_ascii_case("host")).map(|(_, v)| v.trim().to_string()));
                (ok, host)
            }
            Err(_) => (false, None),
        };
        (true, sni, ok, http_host)
    });
    let args = ClientArgs {
        server: ServerUrl::from_str(&format!("wss://{URL_HOST}:{port}/ws")).map_err(|e| format!("url: {e}"))?,
        remote: vec![Remote::from_str("0:127.0.0.1:0").map_err(|e| format!("remote: {e}"))?],
        max_retry_count: 1,
        max_retry_interval: 1,
        hostname: hostname.map(|h| http::HeaderValue::from_bytes(h).expect("header value")),
        tls_server_name: sni.map(Into::into),
        tls_ca: Some(pki.p("ca_a.pem")),
        tls_skip_verify: false,
        // `-H/--header` values, through the real parser of the option
        header: headers.iter().map(|h| Header::from_str(h).map_err(|e| format!("header `{h}`: {e}"))).collect::<Result<Vec<_>, _>>()?,
        ..Default::default()
    };
    let args: &'static ClientArgs = Box::leak(Box::new(args));
    let (hr, stream_rx, dgram_rx) = HandlerResources::create();
    let hr: &'static HandlerResources = Box::leak(Box::new(hr));
    let client = tokio::spawn(client_main_inner(args, hr, stream_rx, dgram_rx));
    let (connected, sni_seen, tls_ok, http_host) = server.await.map_err(|e| format!("server task: {e}"))?;
    let client_err = if client.is_finished() || !connected {
        match tokio::time::timeout(Duration::from_secs(3), client).await {
            Ok(Ok(Err(e))) => Some(format!("{e:?}")),
            Ok(Ok(Ok(()))) => Some("returned Ok".into()),
            Ok(Err(e)) => Some(format!("join: {e}")),
            Err(_) => None,
        }
    } else {
        client.abort();
        None
    };
    Ok(NameObs { connected, sni: sni_seen, tls_ok, http_host, client_err })
}

async fn name_part(cx: &mut Ctx, pki: &Pki, round: &Round) {
    let url = URL_HOST;
    for hostname in [None, Some("h.test")] {
        for sni in [None, Some("s.test")] {
            let want = sni.or(hostname).unwrap_or(url); // the property: --tls-server-name over --hostname over URL host
            let model = cx.drv.as_mut().map(|d| d.ask(&format!("name {url} {} {}", hostname.unwrap_or("-"), sni.unwrap_or("-"))));
            for cert_for in ["localhost", "h.test", "s.test"] {
                let key = format!("name url={url} hostname={hostname:?} sni={sni:?} cert-for={cert_for} [round {}]", round.idx);
                cx.rep.case(Some(fnv(key.as_bytes())));
                let replay = json!({"op": "name", "hostname": hostname, "sni": sni, "cert_for": cert_for});
                let obs = match name_case(pki, hostname.map(str::as_bytes), sni, &[], cert_for).await {
                    Ok(o) => o,
                    Err(e) => {
                        cx.rep.fail(FailKind::Model, &key, &format!("name case could not run: {e}"), replay);
                        continue;
                    }
                };
                cx.rep.count(&format!("name/{}", if obs.tls_ok { "accepted" } else { "refused" }));
                if !obs.connected || obs.sni.as_deref() != Some(want) || obs.tls_ok != (cert_for == want) {
                    cx.rep.fail(
                        FailKind::Impl,
                        &key,
                        &format!("the client must ask for `{want}` (and accept exactly a certificate for it); observed {obs:?}"),
                        replay.clone(),
                    );
                }
                if let Some(m) = &model {
                    cx.rep.model_compared += 1;
                    let chosen = m.strip_prefix("ok ");
                    if chosen != obs.sni.as_deref() || chosen.map(|n| n == cert_for) != Some(obs.tls_ok) {
                        cx.rep.fail(FailKind::Model, &format!("model {key}"), &format!("model `{m}` vs {obs:?}"), replay);
                    }
                }
            }
        }
    }
    // a `--hostname` that is not visible ASCII: an error before any connection, also with --tls-server-name
    for sni in [None, Some("s.test")] {
        let key = format!("name hostname=non-ascii sni={sni:?} [round {}]", round.idx);
        cx.rep.case(Some(fnv(key.as_bytes())));
        let replay = json!({"op": "name", "hostname": "!", "sni": sni});
        match name_case(pki, Some(b"h\xff.test"), sni, &[], "s.test").await {
            Ok(obs) => {
                cx.rep.count("name/invalid-hostname");
                let errored = obs.client_err.as_deref().is_some_and(|e| e.contains("InvalidDomainName"));
                if let Some(d) = cx.drv.as_mut() {
                    cx.rep.model_compared += 1;
                    let m = d.ask(&format!("name localhost ! {}", sni.unwrap_or("-")));
                    if (m == "err invalid-domain-name") != (errored && !obs.connected) {
                        cx.rep.fail(FailKind::Model, &key, &format!("model `{m}` vs {obs:?}"), replay.clone());
                    }
                }
                if obs.tls_ok {
                    cx.rep.fail(FailKind::Impl, &key, &format!("connected under an unusable --hostname: {obs:?}"), replay);
                }
            }
            Err(e) => cx.rep.fail(FailKind::Model, &key, &format!("name case could not run: {e}"), replay),
        }
    }
}

// ---------------------------------------------------------------------------------------------
// The name the real client asks for does not depend on custom request headers (`-H/--header`)
// ---------------------------------------------------------------------------------------------
//
// {`--hostname` given / not} x {`--tls-server-name` given / not} (the URL host is always there)
// x {no custom header, `Host: front.test`, `host: front.test`, an unrelated header carrying that host,
//    `Host: <the requested name>`}
// x {server certificate valid for the requested name / only for the header's host / only for the URL host}.
// The requested name is the documented one (`--tls-server-name` over `--hostname` over the URL host,
// `ClientArgs`); a request header is not a TLS setting.  Judged (a) directly: the SNI the server sees is the
// requested name and the client goes on exactly when the certificate presented is valid for it; (b) against
// the model's `chooseServerName` through the unchanged `name` request of `drv_tls` (the model has no
// headers, so its answer cannot depend on them).

const HEADER_KINDS: [&str; 5] = ["none", "Host-other", "host-other", "unrelated", "Host-requested"];

#[derive(Clone, Debug, PartialEq, Eq)]
struct HCase {
    hostname: Option<String>,
    sni: Option<String>,
    /// the `-H/--header` values, as typed
    headers: Vec<String>,
    /// the one name the server's certificate is valid for (one of `NAME_CERTS`)
    cert_for: String,
}

impl HCase {
    /// the property's "requested server name"
    fn want(&self) -> &str {
        self.sni.as_deref().or(self.hostname.as_deref()).unwrap_or(URL_HOST)
    }
    fn headers_of(kind: &str, want: &str) -> Vec<String> {
        match kind {
            "Host-other" => vec![format!("Host: {HEADER_HOST}")],
            "host-other" => vec![format!("host: {HEADER_HOST}")],
            "unrelated" => vec![format!("X-Forwarded-Host: {HEADER_HOST}")],
            "Host-requested" => vec![format!("Host: {want}")],
            _ => vec![],
        }
    }
    /// bucket of the header dimension (for the distribution)
    fn kind(&self) -> &'static str {
        HEADER_KINDS.into_iter().find(|k| Self::headers_of(k, self.want()) == self.headers).unwrap_or("other")
    }
    /// what a custom `Host` header says, if there is one (the last one wins in a `HeaderMap::insert` loop)
    fn header_host(&self) -> Option<&str> {
        self.headers.iter().rev().find_map(|h| h.split_once(':').filter(|(k, _)| k.trim().eq_ignore_ascii_case("host")).map(|(_, v)| v.trim()))
    }
    fn cert_role(&self) -> &'static str {
        if self.cert_for == self.want() {
            "requested-name"
        } else if self.cert_for == HEADER_HOST {
            "header-host-only"
        } else if self.cert_for == URL_HOST {
            "url-host-only"
        } else {
            "another-name"
        }
    }
    fn key(&self, round: &Round) -> String {
        format!("nameh url={URL_HOST} hostname={:?} sni={:?} headers={:?} cert-for={} [round {}]",
            self.hostname, self.sni, self.headers, self.cert_for, round.idx)
    }
    fn to_json(&self) -> Value {
        json!({"hostname": self.hostname, "sni": self.sni, "headers": self.headers, "cert_for": self.cert_for})
    }
    fn from_json(v: &Value) -> Option<Self> {
        let opt = |k: &str| match &v[k] {
            Value::Null => Some(None),
            Value::String(s) => Some(Some(s.clone())),
            _ => None,
        };
        let cert_for = v["cert_for"].as_str()?.to_string();
        if !NAME_CERTS.contains(&cert_for.as_str()) {
            return None;
        }
        Some(Self {
            hostname: opt("hostname")?,
            sni: opt("sni")?,
            headers: v["headers"].as_array()?.iter().map(|h| h.as_str().map(str::to_string)).collect::<Option<Vec<_>>>()?,
            cert_for,
        })
    }
    fn replay(&self) -> Value {
        let mut v = self.to_json();
        v["op"] = json!("nameh");
        v
    }
    /// the model's request: the headers are not part of it
    fn model_line(&self) -> String {
        format!("name {URL_HOST} {} {}", self.hostname.as_deref().unwrap_or("-"), self.sni.as_deref().unwrap_or("-"))
    }
    /// the property evaluated directly on what the server saw
    fn problem(&self, obs: &NameObs) -> Option<String> {
        let want = self.want();
        if obs.connected && obs.sni.as_deref() == Some(want) && obs.tls_ok == (self.cert_for == want) {
            return None;
        }
        let blame = match self.header_host() {
            Some(h) if h != want && obs.sni.as_deref() == Some(h) => " - the name asked for is the one of the custom `Host` request header".to_string(),
            _ => String::new(),
        };
        Some(format!(
            "the requested server name is `{want}` (--tls-server-name over --hostname over the URL host; request headers {:?} are not a TLS \
setting): the client must send it as SNI and go on exactly when the certificate is valid for it (here it is valid for `{}` only, so the \
handshake must {}); observed {obs:?}{blame}",
            self.headers,
            self.cert_for,
            if self.cert_for == want { "complete" } else { "be refused" },
        ))
    }
}

/// The whole matrix (55 cases) or, `few`, the handful of the quick tier: under every choice of the name
/// sources a `Host` header naming another host, against a certificate for the requested name and one for
/// the header's host, plus the case variant, the unrelated header and the control without header once.
fn nameh_cases(few: bool, rng: &mut Rng) -> Vec<HCase> {
    let mut v = vec![];
    let mut sources = vec![];
    for hostname in [None, Some("h.test")] {
        for sni in [None, Some("s.test")] {
            sources.push((hostname.map(str::to_string), sni.map(str::to_string)));
        }
    }
    // quick: which choice of name sources also gets the remaining header kinds is the seed's
    let full_for = rng.below(sources.len() as u64) as usize;
    for (i, (hostname, sni)) in sources.into_iter().enumerate() {
        let want = sni.clone().or(hostname.clone()).unwrap_or(URL_HOST.to_string());
        for kind in HEADER_KINDS {
            if few && kind != "Host-other" && i != full_for {
                continue;
            }
            let mut certs = vec![want.as_str(), HEADER_HOST, URL_HOST];
            if few {
                certs.truncate(if kind == "Host-other" { 2 } else { 1 });
            }
            certs.dedup();
            for cert_for in certs {
                let c = HCase { hostname: hostname.clone(), sni: sni.clone(), headers: HCase::headers_of(kind, &want), cert_for: cert_for.to_string() };
                if !v.contains(&c) {
                    v.push(c);
                }
            }
        }
    }
    v
}

async fn nameh_part(cx: &mut Ctx, pki: &Pki, round: &Round, cases: &[HCase]) {
    let model: Option<Vec<String>> = cx.drv.as_mut().map(|d| d.batch(&cases.iter().map(HCase::model_line).collect::<Vec<_>>()));
    let t0 = std::time::Instant::now();
    for (i, c) in cases.iter().enumerate() {
        let key = c.key(round);
        cx.rep.case(Some(fnv(key.as_bytes())));
        let obs = match name_case(pki, c.hostname.as_deref().map(str::as_bytes), c.sni.as_deref(), &c.headers, &c.cert_for).await {
            Ok(o) => o,
            Err(e) => {
                cx.rep.fail(FailKind::Model, &key, &format!("name case could not run: {e}"), c.replay());
                continue;
            }
        };
        cx.rep.count(&format!("nameh/header={}/cert={}/{}", c.kind(), c.cert_role(), if obs.tls_ok { "accepted" } else { "refused" }));
        if obs.tls_ok {
            // (diagnostic) the header dimension is live: a custom `Host` header does reach the HTTP request
            if let Some(h) = c.header_host() {
                cx.rep.count(&format!("nameh/http-host-is-the-custom-header/{}", obs.http_host.as_deref() == Some(h)));
            }
        }
        if let Some(why) = c.problem(&obs) {
            cx.rep.fail(FailKind::Impl, &key, &why, c.replay());
        }
        if let Some(m) = &model {
            cx.rep.model_compared += 1;
            let chosen = m[i].strip_prefix("ok ");
            if chosen != obs.sni.as_deref() || chosen.map(|n| n == c.cert_for) != Some(obs.tls_ok) {
                cx.rep.fail(FailKind::Model, &format!("model {key}"), &format!("model `{}` (for `{}`; the model has no request headers) vs {obs:?}", m[i], c.model_line()), c.replay());
            }
        }
        if c.kind() == "Host-other" && c.cert_role() == "header-host-only" && c.sni.is_some() && c.hostname.is_some() && round.idx == 0 {
            cx.rep.sample(json!({"nameh": c.to_json(), "requested_name": c.want(), "impl": format!("{obs:?}")}));
        }
    }
    cx.rep.count_n("nameh/ms", t0.elapsed().as_millis() as u64);
}

// ---------------------------------------------------------------------------------------------
// Odd server certificates under skip-verify: "told to skip verification => ANY certificate is accepted"
// ---------------------------------------------------------------------------------------------
//
// Server certificates that ordinary verification refuses for as many different reasons as rcgen can
// produce (`ODD_KINDS`), x {client roots: the platform store (CA P) / an unrelated `--tls-ca` bundle / the
// odd certificate's own root as `--tls-ca`} x {client certificate configured (and asked for) / not}
// x {requested name in the certificate / not} x {skip-verify on / off}, per key algorithm.
//  * skip-verify ON: the handshake must complete whatever the certificate is — judged directly against the
//    property (`skip-verify refuses: <kind>`) and compared with the model (`hs …`, unchanged request: the
//    model's skip-verify client accepts every certificate).
//  * skip-verify OFF: judged (and compared with the model) only where the existing matrix already says what
//    must happen: a certificate that is not issued under the roots the client was given, or that does not
//    carry the requested name, is refused.  Where the odd certificate IS issued under the client's roots and
//    names the host (expired, CA used as end entity, name constraints, …) the outcome is rustls/webpki's
//    business (trusted): recorded in the distribution, not judged, not sent to the model.

const ODD_KINDS: [&str; 13] = [
    "self-signed-ca-true",
    "root-as-server-cert",
    "missing-intermediate",
    "expired",
    "not-yet-valid",
    "client-auth-eku-only",
    "name-constraint-violation",
    "unknown-critical-extension",
    "no-san",
    "ip-only-san",
    "long-chain",
    "path-len-violation",
    "bad-signature",
];
const ODD_ROOTS: [&str; 3] = ["none", "a", "own"];
/// Kinds that the UNCHANGED client refuses although told to skip verification (run and recorded, not judged;
/// reported as a candidate finding): `EmptyVerifier::verify_server_cert` accepts everything, but
/// `EmptyVerifier::verify_tls13_signature` (tls/rustls.rs:220-232) hands the certificate to
/// `rustls::crypto::verify_tls13_signature`, which parses it with webpki's `EndEntityCert::try_from` to get at
/// the public key — and that parser refuses an end-entity certificate carrying a critical extension it does
/// not know (`InvalidCertificate(Other(UnsupportedCriticalExtension))`).
const ODD_NOT_JUDGED_UNDER_SKIP: [&str; 0] = [];

fn odd_text(kind: &str) -> &'static str {
    match kind {
        "self-signed-ca-true" => "self-signed with basicConstraints CA:TRUE (what `openssl req -x509` writes)",
        "root-as-server-cert" => "a root CA certificate (CA:TRUE, keyCertSign, no SAN) used directly as the server certificate",
        "missing-intermediate" => "a leaf issued by an intermediate CA that the server does not send",
        "expired" => "expired (valid 1999-01-01 .. 2000-01-01)",
        "not-yet-valid" => "not yet valid (valid from 2090-01-01)",
        "client-auth-eku-only" => "extended key usage clientAuth only",
        "name-constraint-violation" => "issued by a CA whose name constraints permit only allowed.test",
        "unknown-critical-extension" => "carries an unknown critical extension (1.3.6.1.4.1.55555.1)",
        "no-san" => "no subjectAltName at all",
        "ip-only-san" => "subjectAltName 192.0.2.1 only, while a DNS name is requested",
        "long-chain" => "a chain of eight intermediates between leaf and root",
        "path-len-violation" => "issued below an intermediate whose pathLenConstraint 0 forbids the CA in between",
        "bad-signature" => "names the root as issuer but is signed with another key",
        _ => "?",
    }
}

/// Does the certificate of this kind carry `server.test` as a DNS subjectAltName?
fn odd_names_host(kind: &str) -> bool {
    !matches!(kind, "root-as-server-cert" | "no-san" | "ip-only-san")
}

fn odd_stem(alg: &str, kind: &str) -> String {
    format!("odd_{alg}_{kind}")
}

/// Writes `odd_<alg>_<kind>.pem` (what the server presents: leaf, then whatever chain it sends), `.key`,
/// and `odd_<alg>_<kind>_root.pem` (the "own" root: what a client that trusted this PKI would be given).
fn ensure_odd(pki: &Pki, alg: &str, kind: &str) {
    use rcgen::{CustomExtension, GeneralSubtree, NameConstraints, SanType, date_time_ymd};
    let stem = odd_stem(alg, kind);
    if pki.dir.join(format!("{stem}_root.pem")).exists() {
        return;
    }
    let plain = Round { idx: 0, alg: alg_of_name(alg), intermediate: false, mismatch_on_cert: false };
    let ca_params = |cn: &str, bc: BasicConstraints| {
        let mut p = CertificateParams::new(Vec::<String>::new()).expect("ca params");
        p.distinguished_name = dn(cn);
        p.is_ca = IsCa::Ca(bc);
        p.key_usages = vec![KeyUsagePurpose::KeyCertSign, KeyUsagePurpose::CrlSign, KeyUsagePurpose::DigitalSignature];
        p
    };
    let leaf_params = |sans: &[&str]| {
        let mut p = CertificateParams::new(sans.iter().map(|s| (*s).to_string()).collect::<Vec<_>>()).expect("leaf params");
        p.distinguished_name = dn("odd server leaf");
        p.key_usages = vec![KeyUsagePurpose::DigitalSignature];
        p.extended_key_usages = vec![ExtendedKeyUsagePurpose::ServerAuth];
        p
    };
    let newkey = || KeyPair::generate_for(alg_of(alg)).expect("key");
    // (server file, key, own root)
    let (file, key, root): (String, String, String) = match kind {
        "self-signed-ca-true" => {
            let mut p = leaf_params(&[GOOD_NAME]);
            p.is_ca = IsCa::Ca(BasicConstraints::Unconstrained);
            p.key_usages = vec![KeyUsagePurpose::DigitalSignature, KeyUsagePurpose::KeyCertSign];
            let k = newkey();
            let c = p.self_signed(&k).expect("self-signed CA:TRUE");
            (c.pem(), k.serialize_pem(), c.pem())
        }
        "root-as-server-cert" => {
            let a = authority("odd root used as server certificate", &plain);
            (a.pem.clone(), a.key.serialize_pem(), a.pem)
        }
        "missing-intermediate" => {
            let a = authority("odd root (intermediate withheld)", &Round { intermediate: true, ..plain });
            let (ip, ik) = a.inter.as_ref().expect("intermediate");
            let k = newkey();
            let c = leaf_params(&[GOOD_NAME]).signed_by(&k, &Issuer::from_params(ip, ik)).expect("leaf");
            (c.pem(), k.serialize_pem(), a.pem.clone())
        }
        "long-chain" | "path-len-violation" => {
            let a = authority("odd root (deep)", &plain);
            let depth = if kind == "long-chain" { 8 } else { 2 };
            let mut tail: Vec<String> = vec![];
            let mut issuer: (CertificateParams, KeyPair) =
                (a.params.clone(), KeyPair::from_pem(&a.key.serialize_pem()).expect("root key"));
            for i in 0..depth {
                // path-len-violation: the first intermediate allows no CA below itself, yet one follows
                let bc = if kind == "path-len-violation" && i == 0 { BasicConstraints::Constrained(0) } else { BasicConstraints::Unconstrained };
                let ip = ca_params(&format!("odd intermediate {}", i + 1), bc);
                let ik = newkey();
                let ic = ip.signed_by(&ik, &Issuer::from_params(&issuer.0, &issuer.1)).expect("intermediate");
                tail.insert(0, ic.pem());
                issuer = (ip, ik);
            }
            let k = newkey();
            let c = leaf_params(&[GOOD_NAME]).signed_by(&k, &Issuer::from_params(&issuer.0, &issuer.1)).expect("leaf");
            (format!("{}{}", c.pem(), tail.concat()), k.serialize_pem(), a.pem.clone())
        }
        "name-constraint-violation" => {
            let mut rp = ca_params("odd root (name constraints)", BasicConstraints::Unconstrained);
            rp.name_constraints =
                Some(NameConstraints { permitted_subtrees: vec![GeneralSubtree::DnsName("allowed.test".into())], excluded_subtrees: vec![] });
            let rk = newkey();
            let rc = rp.self_signed(&rk).expect("constrained root");
            let k = newkey();
            let c = leaf_params(&[GOOD_NAME]).signed_by(&k, &Issuer::from_params(&rp, &rk)).expect("leaf");
            (c.pem(), k.serialize_pem(), rc.pem())
        }
        "bad-signature" => {
            let a = authority("odd root (signature)", &plain);
            let wrong = newkey();
            let k = newkey();
            let mut p = leaf_params(&[GOOD_NAME]);
            // (no authority key identifier: it would name the wrong key and turn this into "unknown issuer")
            p.use_authority_key_identifier_extension = false;
            let c = p.signed_by(&k, &Issuer::from_params(&a.params, &wrong)).expect("leaf");
            (c.pem(), k.serialize_pem(), a.pem.clone())
        }
        _ => {
            let a = authority("odd root", &plain);
            let mut p = match kind {
                "no-san" => leaf_params(&[]),
                _ => leaf_params(&[GOOD_NAME]),
            };
            match kind {
                "expired" => {
                    p.not_before = date_time_ymd(1999, 1, 1);
                    p.not_after = date_time_ymd(2000, 1, 1);
                }
                "not-yet-valid" => {
                    p.not_before = date_time_ymd(2090, 1, 1);
                    p.not_after = date_time_ymd(2091, 1, 1);
                }
                "client-auth-eku-only" => p.extended_key_usages = vec![ExtendedKeyUsagePurpose::ClientAuth],
                "unknown-critical-extension" => {
                    let mut e = CustomExtension::from_oid_content(&[1, 3, 6, 1, 4, 1, 55555, 1], vec![0x05, 0x00]);
                    e.set_criticality(true);
                    p.custom_extensions = vec![e];
                }
                "ip-only-san" => p.subject_alt_names = vec![SanType::IpAddress(std::net::IpAddr::from([192, 0, 2, 1]))],
                "no-san" => {}
                other => panic!("unknown odd certificate kind {other}"),
            }
            let k = newkey();
            let c = p.signed_by(&k, &Issuer::from_params(&a.params, &a.key)).expect("odd leaf");
            (c.pem(), k.serialize_pem(), a.pem.clone())
        }
    };
    pki.write(&format!("{stem}.pem"), &file);
    pki.write(&format!("{stem}.key"), &key);
    pki.write(&format!("{stem}_root.pem"), &root);
}

#[derive(Debug)]
struct FixedCert(Arc<rustls::sign::CertifiedKey>);

impl rustls::server::ResolvesServerCert for FixedCert {
    fn resolve(&self, _hello: rustls::server::ClientHello<'_>) -> Option<Arc<rustls::sign::CertifiedKey>> {
        Some(self.0.clone())
    }
}

/// A TLS server that is not penguin: presents the chain of `cert_file` without looking at it (rustls'
/// `with_single_cert`, hence penguin's `make_server_config`, refuses e.g. an unknown critical extension).
fn foreign_server_config(cert_file: &str, key_file: &str, client_ca: Option<&str>) -> Result<rustls::ServerConfig, String> {
    use rustls::pki_types::pem::PemObject;
    use rustls::pki_types::{CertificateDer, PrivateKeyDer};
    let chain: Vec<CertificateDer<'static>> = CertificateDer::pem_file_iter(cert_file)
        .map_err(|e| format!("{e}"))?
        .collect::<Result<_, _>>()
        .map_err(|e| format!("{e}"))?;
    let key = PrivateKeyDer::from_pem_file(key_file).map_err(|e| format!("{e}"))?;
    let provider = rustls::crypto::CryptoProvider::get_default().ok_or("no crypto provider installed")?.clone();
    let sk = provider.key_provider.load_private_key(key).map_err(|e| format!("{e}"))?;
    let b = rustls::ServerConfig::builder_with_provider(provider.clone()).with_safe_default_protocol_versions().map_err(|e| format!("{e}"))?;
    let b = match client_ca {
        None => b.with_no_client_auth(),
        Some(ca) => {
            let mut roots = rustls::RootCertStore::empty();
            for c in CertificateDer::pem_file_iter(ca).map_err(|e| format!("{e}"))? {
                roots.add(c.map_err(|e| format!("{e}"))?).map_err(|e| format!("{e}"))?;
            }
            let v = rustls::server::WebPkiClientVerifier::builder_with_provider(Arc::new(roots), provider).build().map_err(|e| format!("{e}"))?;
            b.with_client_cert_verifier(v)
        }
    };
    Ok(b.with_cert_resolver(Arc::new(FixedCert(Arc::new(rustls::sign::CertifiedKey::new(chain, sk))))))
}

fn alg_of_name(alg: &str) -> &'static str {
    ["p256", "p384", "ed25519", "rsa"].into_iter().find(|a| *a == alg).unwrap_or("p256")
}

#[derive(Clone, Debug, PartialEq, Eq)]
struct OCase {
    kind: String,
    alg: String,
    /// "none" (the platform store: CA P) | "a" (an unrelated `--tls-ca` bundle) | "own" (the odd PKI's own root as `--tls-ca`)
    roots: String,
    /// `--tls-cert/--tls-key` given, and the server configured with the client CA that issued it
    cli_cert: bool,
    skip: bool,
    /// the client asks for `server.test` (else `other.test`)
    name_match: bool,
}

impl OCase {
    fn to_json(&self) -> Value {
        json!({"kind": self.kind, "alg": self.alg, "roots": self.roots, "cli_cert": self.cli_cert, "skip": self.skip, "name_match": self.name_match})
    }
    fn from_json(v: &Value) -> Option<Self> {
        let kind = v["kind"].as_str()?.to_string();
        let roots = v["roots"].as_str()?.to_string();
        if !ODD_KINDS.contains(&kind.as_str()) || !ODD_ROOTS.contains(&roots.as_str()) {
            return None;
        }
        Some(Self {
            kind,
            alg: alg_of_name(v["alg"].as_str()?).to_string(),
            roots,
            cli_cert: v["cli_cert"].as_bool()?,
            skip: v["skip"].as_bool()?,
            name_match: v["name_match"].as_bool()?,
        })
    }
    fn replay(&self) -> Value {
        let mut v = self.to_json();
        v["op"] = json!("odd");
        v
    }
    fn name(&self) -> &'static str {
        if self.name_match { GOOD_NAME } else { OTHER_NAME }
    }
    /// "issued under the roots the client was given and carries the requested name" — in the sense of the
    /// existing matrix (who issued it, which names it lists), nothing else about the certificate
    fn issued_and_named(&self) -> bool {
        self.roots == "own" && self.name_match && odd_names_host(&self.kind)
    }
    /// `Some(must complete?)` where the property / the existing matrix defines the outcome
    fn required(&self) -> Option<bool> {
        if self.skip && ODD_NOT_JUDGED_UNDER_SKIP.contains(&self.kind.as_str()) {
            None
        } else if self.skip {
            Some(true)
        } else if self.issued_and_named() {
            None
        } else {
            Some(false)
        }
    }
    /// Request line for `drv_tls` (issuer label 7 = the odd PKI's root; the oddity itself is not modelled)
    fn model_line(&self) -> String {
        format!(
            "hs 7:{} {} {} {} {} {} {}",
            if odd_names_host(&self.kind) { GOOD_NAME } else { "-" },
            if self.cli_cert { "5" } else { "-" },
            if self.cli_cert { "5:client.test" } else { "-" },
            u8::from(self.cli_cert),
            match self.roots.as_str() {
                "none" => "-",
                "a" => "1",
                _ => "7",
            },
            u8::from(self.skip),
            self.name()
        )
    }
    fn detail(&self) -> String {
        format!("{} key, client roots {}, client certificate {}, asks for {}{}", self.alg,
            match self.roots.as_str() {
                "none" => "= platform store (CA P)",
                "a" => "= --tls-ca with an unrelated CA",
                _ => "= --tls-ca with the certificate's own root",
            },
            if self.cli_cert { "configured" } else { "not configured" },
            self.name(),
            if self.name_match { "" } else { " (not in the certificate)" })
    }
    fn key(&self, round: &Round) -> String {
        if self.skip {
            format!("skip-verify refuses: {} [{}; round {}]", self.kind, self.detail(), round.idx)
        } else {
            format!("odd certificate, verification on: {} [{}; round {}]", self.kind, self.detail(), round.idx)
        }
    }
    async fn run(&self, pki: &Pki) -> Obs {
        self.run_on(pki).await.0
    }
    /// (outcome, whether penguin's `make_server_config` refused to load the certificate so that the case ran
    /// against `foreign_server_config`)
    async fn run_on(&self, pki: &Pki) -> (Obs, bool) {
        ensure_odd(pki, &self.alg, &self.kind);
        let stem = odd_stem(&self.alg, &self.kind);
        let cli_ca = match self.roots.as_str() {
            "none" => None,
            "a" => Some(pki.p("ca_a.pem")),
            _ => Some(pki.p(&format!("{stem}_root.pem"))),
        };
        let (srv_ca, cc, ck) = if self.cli_cert {
            (Some(pki.p("ca_c.pem")), Some(pki.p("cli_trusted.pem")), Some(pki.p("cli_trusted.key")))
        } else {
            (None, None, None)
        };
        let (cert, key) = (pki.p(&format!("{stem}.pem")), pki.p(&format!("{stem}.key")));
        // penguin's own server where it agrees to serve this certificate; else a server that is not penguin
        // (this family is about what the CLIENT accepts; any server may present any certificate)
        let (cfg, foreign) = match make_server_config(&cert, &key, srv_ca.as_deref()).await {
            Ok(cfg) => (cfg, false),
            Err(_) => match foreign_server_config(&cert, &key, srv_ca.as_deref()) {
                Ok(cfg) => (cfg, true),
                Err(e) => return (Obs::Other(format!("no server could be configured with this certificate: {e}")), true),
            },
        };
        (handshake_against(cfg, self.name(), cc.as_deref(), ck.as_deref(), cli_ca.as_deref(), self.skip).await, foreign)
    }
    /// the property evaluated directly
    fn problem(&self, obs: &Obs) -> Option<String> {
        let completed = matches!(obs, Obs::Ok { .. });
        match self.required() {
            Some(true) if !completed => Some(format!(
                "the client was told to skip verification, so ANY server certificate is accepted; this one is {} and the real code: {obs:?}",
                odd_text(&self.kind))),
            Some(true) if *obs != (Obs::Ok { server_saw_client_cert: self.cli_cert }) => Some(format!(
                "the handshake completed but the server {} a client certificate although one was {}",
                if self.cli_cert { "did not see" } else { "saw" }, if self.cli_cert { "configured and asked for" } else { "not configured" })),
            Some(false) if completed => Some(format!(
                "verification is on and the certificate ({}) is {}: it must be refused; the real code: {obs:?}",
                odd_text(&self.kind),
                if self.roots != "own" { "not issued under the roots the client was given" } else { "not valid for the requested name" })),
            _ => None,
        }
    }
}

/// `few`: the quick tier's handful (on the round's key algorithm, plus the CA:TRUE certificate with two other
/// key types); else everything for the round's algorithm.
fn odd_cases(few: bool, alg: &str, rng: &mut Rng) -> Vec<OCase> {
    let mk = |kind: &str, alg: &str, roots: &str, cli_cert: bool, skip: bool, name_match: bool| OCase {
        kind: kind.into(), alg: alg.into(), roots: roots.into(), cli_cert, skip, name_match };
    let mut v = vec![];
    if few {
        // the certificate everybody makes by hand, under every kind of client roots
        for roots in ODD_ROOTS {
            v.push(mk("self-signed-ca-true", alg, roots, false, true, true));
        }
        v.push(mk("self-signed-ca-true", alg, "a", true, true, false));
        v.push(mk("root-as-server-cert", alg, "own", false, true, true));
        // every other kind once under skip-verify; roots, client certificate and name are the seed's
        for kind in &ODD_KINDS[2..] {
            v.push(mk(kind, alg, ODD_ROOTS[rng.below(3) as usize], rng.chance(1, 2), true, rng.chance(1, 2)));
        }
        // other key types
        for other in ["ed25519", "rsa", "p384"].into_iter().filter(|a| *a != alg).take(2) {
            v.push(mk("self-signed-ca-true", other, "none", false, true, true));
        }
        // verification on: refused because of who issued it / because of the name; and one the matrix does not define
        v.push(mk("self-signed-ca-true", alg, "a", false, false, true));
        v.push(mk("no-san", alg, "own", false, false, true));
        v.push(mk("expired", alg, "own", false, false, true));
    } else {
        for kind in ODD_KINDS {
            for roots in ODD_ROOTS {
                for (cli_cert, skip, name_match) in
                    [(false, true, true), (true, true, true), (false, true, false), (false, false, true), (true, false, true), (false, false, false)]
                {
                    v.push(mk(kind, alg, roots, cli_cert, skip, name_match));
                }
            }
        }
        shuffle(&mut v, rng);
    }
    v
}

async fn odd_part(cx: &mut Ctx, pki: &Pki, round: &Round, cases: &[OCase]) {
    let t0 = std::time::Instant::now();
    let model: Option<Vec<String>> = cx.drv.as_mut().map(|d| d.batch(&cases.iter().map(OCase::model_line).collect::<Vec<_>>()));
    for (i, c) in cases.iter().enumerate() {
        let key = c.key(round);
        cx.rep.case(Some(fnv(format!("{key} {}", c.alg).as_bytes())));
        let (obs, foreign) = match tokio::time::timeout(CASE_TIMEOUT, c.run_on(pki)).await {
            Ok(o) => o,
            Err(_) => (Obs::Other("timeout".into()), false),
        };
        let why = match &obs {
            Obs::ClientRejects(w) | Obs::ServerRejects(w) | Obs::ConfigError(w) => {
                format!(" ({})", w.split(|ch: char| !ch.is_ascii_alphanumeric()).next().unwrap_or(""))
            }
            _ => String::new(),
        };
        let judged = c.required().is_some();
        cx.rep.count(&format!("odd/{}{}/{}/{}{why}", if c.skip { "skip-verify" } else { "verify" }, if judged { "" } else { "-not-judged" }, c.kind, obs.kind()));
        cx.rep.count(&format!("odd/roots={}/client-cert={}/key={}", c.roots, c.cli_cert, c.alg));
        cx.rep.count(&format!("odd/server={}", if foreign { "not-penguin (make_server_config refuses this certificate)" } else { "make_server_config" }));
        if let Some(why) = c.problem(&obs) {
            cx.rep.fail(FailKind::Impl, &key, &why, c.replay());
        }
        if matches!(obs, Obs::Other(_) | Obs::ConfigError(_) | Obs::DnsName) {
            // never silently accepted: an outcome the harness cannot classify
            cx.rep.fail(FailKind::Model, &format!("unclassified {key}"), &format!("{obs:?}"), c.replay());
        }
        // (the abstract PKI of the model knows issuers and names, not extensions: the one kind whose refusal under
        // skip-verify is the recorded finding — the certificate does not even parse for the signature check — is
        // judged against the property above and not compared with the model)
        let outside_model = c.skip && c.kind == "unknown-critical-extension";
        if outside_model { cx.rep.count("odd/not-model-compared/unknown-critical-extension-under-skip-verify"); }
        if let (Some(m), true) = (&model, judged && !outside_model) {
            cx.rep.model_compared += 1;
            let ml = &m[i];
            let real_ok = matches!(obs, Obs::Ok { .. });
            let mut agree = ml.split(' ').next() == Some(obs.kind()) && ml.contains(&format!("ok={real_ok}"));
            if let Obs::Ok { server_saw_client_cert } = obs {
                agree &= ml.contains(&format!("presented={}", u8::from(server_saw_client_cert)));
            }
            if !agree {
                cx.rep.fail(FailKind::Model, &format!("model {key}"), &format!("model `{ml}` (for `{}`) vs implementation {obs:?}", c.model_line()), c.replay());
            }
        }
        if c.skip && c.kind == "self-signed-ca-true" && c.roots == "a" && !c.cli_cert && round.idx == 0 {
            cx.rep.sample(json!({"odd": c.to_json(), "certificate": odd_text(&c.kind), "impl": format!("{obs:?}")}));
        }
    }
    cx.rep.count_n("odd/ms", t0.elapsed().as_millis() as u64);
}

// ---------------------------------------------------------------------------------------------
// Identity reload through the real listener
// ---------------------------------------------------------------------------------------------

type ClientStream = tokio_rustls::TlsStream<tokio::net::TcpStream>;

fn peer_leaf(s: &ClientStream) -> Option<Vec<u8>> {
    s.get_ref().1.peer_certificates().and_then(|c| c.first()).map(|c| c.as_ref().to_vec())
}

async fn health(s: &mut ClientStream) -> Result<(), String> {
    let io = async {
        s.write_all(b"GET /health HTTP/1.1\r\nhost: localhost\r\n\r\n").await?;
        s.flush().await?;
        let mut buf = Vec::new();
        let mut chunk = [0u8; 512];
        while !buf.ends_with(b"\r\n\r\nOK") {
            let n = s.read(&mut chunk).await?;
            if n == 0 {
                return Err(std::io::Error::other(format!("EOF after {:?}", String::from_utf8_lossy(&buf))));
            }
            buf.extend_from_slice(&chunk[..n]);
        }
        if buf.starts_with(b"HTTP/1.1 200") { Ok(()) } else { Err(std::io::Error::other("not a 200")) }
    };
    match tokio::time::timeout(Duration::from_secs(5), io).await {
        Ok(r) => r.map_err(|e| format!("{e}")),
        Err(_) => Err("timeout".into()),
    }
}

/// Returns a description of the first thing that is not as the property demands.
async fn reload_part(cx: &mut Ctx, pki: &Pki, round: &Round) {
    let key = format!("reload [round {}]", round.idx);
    let replay = json!({"op": "reload", "round": round.idx});
    let dir = pki.dir.join("reload");
    std::fs::create_dir_all(&dir).expect("reload dir");
    let cert = dir.join("cert.pem").to_str().expect("path").to_string();
    let keyp = dir.join("privkey.pem").to_str().expect("path").to_string();
    let put = |l: &(String, String, Vec<u8>)| {
        std::fs::write(&cert, &l.0).expect("write cert");
        std::fs::write(&keyp, &l.1).expect("write key");
    };
    let leaves: Vec<_> = (0..3).map(|i| leaf(&format!("identity {i}"), &["localhost"], true, None, round.alg)).collect();
    let label = |der: &Option<Vec<u8>>| -> String {
        match der {
            None => "none".into(),
            Some(d) => leaves.iter().position(|l| &l.2 == d).map_or("unknown".into(), |i| format!("{}", 10 * (i + 1))),
        }
    };
    let mut model_ops: Vec<String> = vec![];
    let mut seen: Vec<String> = vec![]; // identity label each accepted connection was served with
    let mut problems: Vec<String> = vec![];

    let run = async {
        put(&leaves[0]);
        let identity = make_tls_identity(&cert, &keyp, None).await.map_err(|e| format!("make_tls_identity: {e}"))?;
        model_ops.push("init 10".into());
        let listener = tokio::net::TcpListener::bind("127.0.0.1:0").await.map_err(|e| format!("bind: {e}"))?;
        let addr = listener.local_addr().map_err(|e| format!("{e}"))?;
        let state = rusty_penguin_lib::server::State::new().await.map_err(|e| format!("State::new: {e}"))?;
        // the real accept loop: `load_full()` per accepted connection, `serve_connection_tls`
        let srv = tokio::spawn(rusty_penguin_lib::server::run_listener(listener, Some(identity.clone()), state));
        let connect = |cc: Option<(String, String)>| async move {
            let tcp = tokio::net::TcpStream::connect(addr).await.map_err(|e| format!("tcp: {e}"))?;
            let (c, k) = cc.unzip();
            let mut s = tls_connect(tcp, "localhost", c.as_deref(), k.as_deref(), None, true)
                .await
                .map_err(|e| format!("tls_connect: {e}"))?;
            health(&mut s).await.map_err(|e| format!("first request: {e}"))?;
            Ok::<ClientStream, String>(s)
        };
        // connection 1 under identity 10
        let mut s1 = connect(None).await?;
        model_ops.push("accept".into());
        seen.push(label(&peer_leaf(&s1)));
        // reload → identity 20
        put(&leaves[1]);
        reload_tls_identity(&identity, &cert, &keyp, None).await.map_err(|e| format!("reload: {e}"))?;
        model_ops.push("reload 20".into());
        let mut s2 = connect(None).await?;
        model_ops.push("accept".into());
        seen.push(label(&peer_leaf(&s2)));
        if let Err(e) = health(&mut s1).await {
            problems.push(format!("connection 1 stopped answering after the first reload: {e}"));
        }
        // a reload that fails (unreadable certificate) must leave identity 20 in place
        std::fs::write(&cert, "garbage").expect("write");
        if reload_tls_identity(&identity, &cert, &keyp, None).await.is_ok() {
            problems.push("reload from a file without certificates reported success".into());
        }
        model_ops.push("reload-fail".into());
        let mut s3 = connect(None).await?;
        model_ops.push("accept".into());
        seen.push(label(&peer_leaf(&s3)));
        // reload → identity 30, now with a client CA: later handshakes need a client certificate,
        // established connections (made without one) are not disturbed
        put(&leaves[2]);
        reload_tls_identity(&identity, &cert, &keyp, Some(&pki.p("ca_c.pem"))).await.map_err(|e| format!("reload: {e}"))?;
        model_ops.push("reload 30".into());
        // a client without certificate: its side of the TLS 1.3 handshake completes (so the leaf it
        // was shown is observable), the server then refuses it and the first request fails
        {
            let tcp = tokio::net::TcpStream::connect(addr).await.map_err(|e| format!("tcp: {e}"))?;
            match tls_connect(tcp, "localhost", None, None, None, true).await {
                Ok(mut s4) => {
                    model_ops.push("accept".into());
                    seen.push(label(&peer_leaf(&s4)));
                    if health(&mut s4).await.is_ok() {
                        problems.push("after reloading with a client CA a client without certificate was served".into());
                    }
                }
                Err(e) => problems.push(format!("unexpected failure kind for a client without certificate: {e}")),
            }
        }
        let mut s5 = connect(Some((pki.p("cli_trusted.pem"), pki.p("cli_trusted.key")))).await?;
        model_ops.push("accept".into());
        seen.push(label(&peer_leaf(&s5)));
        for (i, s) in [&mut s1, &mut s2, &mut s3, &mut s5].into_iter().enumerate() {
            if let Err(e) = health(s).await {
                problems.push(format!("established connection #{} stopped answering after later reloads: {e}", i + 1));
            }
        }
        for (s, want) in [(&s1, "10"), (&s2, "20"), (&s3, "20"), (&s5, "30")] {
            if label(&peer_leaf(s)) != want {
                problems.push(format!("an established session's peer certificate changed (want {want})"));
            }
        }
        srv.abort();
        Ok::<(), String>(())
    };
    let res = tokio::time::timeout(Duration::from_secs(60), run).await;
    cx.rep.case(Some(fnv(key.as_bytes())));
    cx.rep.count("reload/run");
    match &res {
        Err(_) => cx.rep.fail(FailKind::Impl, &key, "reload scenario timed out", replay.clone()),
        Ok(Err(e)) => cx.rep.fail(FailKind::Impl, &key, &format!("reload scenario failed: {e}; seen so far {seen:?}"), replay.clone()),
        Ok(Ok(())) => {}
    }
    // the property, directly: 10, then 20 after the reload, still 20 after the failed reload, then 30
    let want = ["10", "20", "20", "30", "30"];
    if res.as_ref().is_ok_and(Result::is_ok) && seen != want {
        problems.push(format!("identities seen by successive handshakes {seen:?}, required {want:?}"));
    }
    if let Some(p) = problems.first() {
        cx.rep.fail(FailKind::Impl, &key, p, replay.clone());
    }
    if let Some(d) = cx.drv.as_mut() {
        let answers = d.batch(&model_ops);
        let model_seen: Vec<String> =
            model_ops.iter().zip(&answers).filter(|(o, _)| *o == "accept").map(|(_, a)| a.clone()).collect();
        cx.rep.model_compared += model_seen.len() as u64;
        let sessions = d.ask("sessions");
        if model_seen != seen || sessions != seen.join(",") {
            cx.rep.fail(
                FailKind::Model,
                &format!("model {key}"),
                &format!("model accepts {model_seen:?} (sessions {sessions}) vs implementation {seen:?}"),
                replay,
            );
        }
    }
    cx.rep.sample(json!({"reload": {"ops": model_ops, "identity_seen_per_connection": seen}}));
}

// ---------------------------------------------------------------------------------------------
// Returning clients across reloads: clients that keep their `ClientConfig` (TLS session store)
// ---------------------------------------------------------------------------------------------
//
// The property: "a server configured with a client CA completes the handshake only with clients
// presenting a certificate issued under that CA … and replacing the server identity at run time
// changes what later handshakes see without disturbing established connections".  A *later
// handshake* is any handshake after the reload — also the one of a client that was connected before
// and comes back offering the session ticket it was given then.  The oracle below is that statement
// and nothing else: every connection made after a reload is admitted iff the client-CA policy in
// force NOW admits that client, it is shown the identity in force NOW, and connections established
// earlier keep answering with the identity they started with.  Whether a handshake is a full or a
// resumed one is not part of the property; it is compared with the model only (`FailKind::Model`).

/// Client-CA setting of the server: none / CA C / CA D.
#[derive(Clone, Copy, Debug, PartialEq, Eq)]
enum Pol {
    None,
    C,
    D,
}

/// A client: without certificate / certificate issued under CA C / under CA D.
#[derive(Clone, Copy, Debug, PartialEq, Eq)]
enum Who {
    Anon,
    C,
    D,
}

impl Pol {
    const ALL: [Pol; 3] = [Pol::None, Pol::C, Pol::D];
    fn ch(self) -> char {
        match self {
            Pol::None => 'n',
            Pol::C => 'c',
            Pol::D => 'd',
        }
    }
    fn parse(c: char) -> Option<Self> {
        Self::ALL.into_iter().find(|p| p.ch() == c)
    }
    fn ca_file(self, pki: &Pki) -> Option<String> {
        match self {
            Pol::None => None,
            Pol::C => Some(pki.p("ca_c.pem")),
            Pol::D => Some(pki.p("ca_d.pem")),
        }
    }
    /// The property's statement: no client CA admits everybody (and asks nobody), a client CA admits
    /// exactly the clients presenting a certificate issued under it.
    fn admits(self, w: Who) -> bool {
        match self {
            Pol::None => true,
            Pol::C => w == Who::C,
            Pol::D => w == Who::D,
        }
    }
}

impl Who {
    const ALL: [Who; 3] = [Who::Anon, Who::C, Who::D];
    fn ch(self) -> char {
        match self {
            Who::Anon => 'a',
            Who::C => 'c',
            Who::D => 'd',
        }
    }
    fn parse(c: char) -> Option<Self> {
        Self::ALL.into_iter().find(|p| p.ch() == c)
    }
    fn files(self, pki: &Pki) -> Option<(String, String)> {
        match self {
            Who::Anon => None,
            Who::C => Some((pki.p("cli_trusted.pem"), pki.p("cli_trusted.key"))),
            Who::D => Some((pki.p("cli_other.pem"), pki.p("cli_other.key"))),
        }
    }
}

#[derive(Clone, Copy, Debug, PartialEq, Eq)]
enum REv {
    /// long-lived client number k connects again with the `ClientConfig` it has used all along
    Connect(usize),
    /// a client of this kind with a brand-new `ClientConfig` connects
    Fresh(Who),
    /// `reload_tls_identity` with a new leaf and this client-CA setting
    Reload(Pol),
    /// `reload_tls_identity` from an unreadable certificate file (must fail and change nothing)
    ReloadFail,
}

/// `resume <initial policy> <long-lived clients> <event>…`, e.g. `resume n acd c0 c1 c2 rc c0 c1 c2 fa`.
#[derive(Clone, Debug, PartialEq, Eq)]
struct RScenario {
    init: Pol,
    clients: Vec<Who>,
    evs: Vec<REv>,
}

const MAX_RELOADS: usize = 8;

impl RScenario {
    fn line(&self) -> String {
        let mut s = format!("resume {} {}", self.init.ch(), self.clients.iter().map(|w| w.ch()).collect::<String>());
        for e in &self.evs {
            s.push(' ');
            match e {
                REv::Connect(k) => s.push_str(&format!("c{k}")),
                REv::Fresh(w) => s.push_str(&format!("f{}", w.ch())),
                REv::Reload(p) => s.push_str(&format!("r{}", p.ch())),
                REv::ReloadFail => s.push('x'),
            }
        }
        s
    }
    fn parse(line: &str) -> Option<Self> {
        let t: Vec<&str> = line.split_whitespace().collect();
        if t.len() < 3 || t[0] != "resume" || t[1].chars().count() != 1 {
            return None;
        }
        let init = Pol::parse(t[1].chars().next()?)?;
        let clients = if t[2] == "-" { vec![] } else { t[2].chars().map(Who::parse).collect::<Option<Vec<_>>>()? };
        let mut evs = vec![];
        for tok in &t[3..] {
            let mut cs = tok.chars();
            let ev = match cs.next()? {
                'c' => {
                    let k: usize = cs.as_str().parse().ok()?;
                    if k >= clients.len() {
                        return None;
                    }
                    REv::Connect(k)
                }
                'f' => REv::Fresh(Who::parse(cs.next()?)?),
                'r' => REv::Reload(Pol::parse(cs.next()?)?),
                'x' if cs.as_str().is_empty() => REv::ReloadFail,
                _ => return None,
            };
            evs.push(ev);
        }
        if evs.iter().filter(|e| matches!(e, REv::Reload(_))).count() > MAX_RELOADS {
            return None;
        }
        Some(Self { init, clients, evs })
    }
}

/// One connection attempt of a resume scenario, as observed on the real code.
#[derive(Clone, Debug)]
struct RConn {
    ev: usize,
    who: Who,
    returning: Option<usize>,
    /// the ticket the client holds, as the cache number of the configuration that last admitted it
    ticket: Option<u64>,
    /// policy and identity label in force when the connection was made
    pol: Pol,
    label: usize,
    /// the client's side of the handshake completed
    hs_done: bool,
    leaf: Option<String>,
    kind: Option<&'static str>,
    served: bool,
    err: String,
}

#[derive(Clone, Debug, Default)]
struct RRun {
    conns: Vec<RConn>,
    /// (class, description): what is not as the property demands
    problems: Vec<(String, String)>,
    /// the scenario could not be run (not a verdict on the code)
    infra: Option<String>,
    /// model request lines, parallel to the events that the model sees
    model_ops: Vec<String>,
}

/// Self-signed `localhost` leaves, one per identity label (`label = 10 * (index + 1)`), per round.
fn resume_leaves(round: &Round) -> Vec<(String, String, Vec<u8>)> {
    (0..=MAX_RELOADS).map(|i| leaf(&format!("resume identity {i}"), &["localhost"], true, None, round.alg)).collect()
}

async fn run_resume(pki: &Pki, leaves: &[(String, String, Vec<u8>)], sc: &RScenario) -> RRun {
    let mut out = RRun::default();
    let dir = pki.dir.join("resume");
    std::fs::create_dir_all(&dir).expect("resume dir");
    let cert = dir.join("cert.pem").to_str().expect("path").to_string();
    let keyp = dir.join("privkey.pem").to_str().expect("path").to_string();
    let put = |l: &(String, String, Vec<u8>)| {
        std::fs::write(&cert, &l.0).expect("write cert");
        std::fs::write(&keyp, &l.1).expect("write key");
    };
    let label_of = |der: &Option<Vec<u8>>| -> Option<String> {
        der.as_ref().map(|d| leaves.iter().position(|l| &l.2 == d).map_or("unknown".into(), |i| format!("{}", 10 * (i + 1))))
    };
    put(&leaves[0]);
    let identity = match make_tls_identity(&cert, &keyp, sc.init.ca_file(pki).as_deref()).await {
        Ok(i) => i,
        Err(e) => {
            out.infra = Some(format!("make_tls_identity: {e}"));
            return out;
        }
    };
    out.model_ops.push("rinit 10".into());
    let listener = match tokio::net::TcpListener::bind("127.0.0.1:0").await {
        Ok(l) => l,
        Err(e) => {
            out.infra = Some(format!("bind: {e}"));
            return out;
        }
    };
    let addr = listener.local_addr().expect("local addr");
    let state = match rusty_penguin_lib::server::State::new().await {
        Ok(s) => s,
        Err(e) => {
            out.infra = Some(format!("State::new: {e}"));
            return out;
        }
    };
    // the real accept loop: `load_full()` per accepted connection, `serve_connection_tls`
    let srv = tokio::spawn(rusty_penguin_lib::server::run_listener(listener, Some(identity.clone()), state));
    // the real client configuration (`--tls-skip-verify`, the client's certificate if it has one);
    // a long-lived client keeps its `ClientConfig`, and with it rustls' client-side session store
    async fn client_config(pki: &Pki, w: Who) -> Result<Arc<rustls::ClientConfig>, String> {
        let (c, k) = w.files(pki).unzip();
        make_client_config(c.as_deref(), k.as_deref(), None, true, Some(&["http/1.1"]))
            .await
            .map(Arc::new)
            .map_err(|e| format!("make_client_config: {e}"))
    }
    let mut kept: Vec<Arc<rustls::ClientConfig>> = vec![];
    for w in &sc.clients {
        match client_config(pki, *w).await {
            Ok(c) => kept.push(c),
            Err(e) => {
                out.infra = Some(e);
                srv.abort();
                return out;
            }
        }
    }
    let mut tickets: Vec<Option<u64>> = vec![None; sc.clients.len()];
    let (mut pol, mut label, mut cache) = (sc.init, 0usize, 0u64);
    // (stream, the identity it was shown when it was established, description)
    let mut established: Vec<(ClientStream, Option<String>, String)> = vec![];
    for (i, ev) in sc.evs.iter().enumerate() {
        match *ev {
            REv::Reload(p) => {
                if label + 1 >= leaves.len() {
                    out.infra = Some("too many reloads in one scenario".into());
                    break;
                }
                put(&leaves[label + 1]);
                if let Err(e) = reload_tls_identity(&identity, &cert, &keyp, p.ca_file(pki).as_deref()).await {
                    out.problems.push(("reload-failed".into(), format!("event {i}: reload_tls_identity failed: {e}")));
                    break;
                }
                label += 1;
                cache += 1;
                pol = p;
                out.model_ops.push(format!("rreload {}", 10 * (label + 1)));
                for (s, _, what) in &mut established {
                    if let Err(e) = health(s).await {
                        out.problems.push(("established-disturbed".into(),
                            format!("event {i} (reload): the established connection of {what} stopped answering: {e}")));
                    }
                }
            }
            REv::ReloadFail => {
                std::fs::write(&cert, "garbage").expect("write");
                if reload_tls_identity(&identity, &cert, &keyp, pol.ca_file(pki).as_deref()).await.is_ok() {
                    out.problems.push(("bad-reload-accepted".into(),
                        format!("event {i}: reload from a file without certificates reported success")));
                }
                put(&leaves[label]);
                out.model_ops.push("rreload-fail".into());
            }
            REv::Connect(_) | REv::Fresh(_) => {
                let (who, returning, cfg) = match *ev {
                    REv::Connect(k) => (sc.clients[k], Some(k), Ok(kept[k].clone())),
                    REv::Fresh(w) => (w, None, client_config(pki, w).await),
                    _ => unreachable!(),
                };
                let cfg = match cfg {
                    Ok(c) => c,
                    Err(e) => {
                        out.infra = Some(e);
                        break;
                    }
                };
                let ticket = returning.and_then(|k| tickets[k]);
                let mut c = RConn { ev: i, who, returning, ticket, pol, label, hs_done: false, leaf: None, kind: None,
                    served: false, err: String::new() };
                out.model_ops.push(format!("raccept {}", ticket.map_or("-".to_string(), |t| t.to_string())));
                let attempt = async {
                    let tcp = tokio::net::TcpStream::connect(addr).await.map_err(|e| (true, format!("tcp: {e}")))?;
                    let name = rustls::pki_types::ServerName::try_from("localhost").expect("server name");
                    let s = tokio_rustls::TlsConnector::from(cfg).connect(name, tcp).await.map_err(|e| (false, format!("tls: {e}")))?;
                    Ok::<ClientStream, (bool, String)>(tokio_rustls::TlsStream::Client(s))
                };
                match tokio::time::timeout(CASE_TIMEOUT, attempt).await {
                    Err(_) => {
                        out.infra = Some(format!("event {i}: connection attempt timed out"));
                        break;
                    }
                    Ok(Err((true, e))) => {
                        out.infra = Some(format!("event {i}: {e}"));
                        break;
                    }
                    Ok(Err((false, e))) => c.err = e,
                    Ok(Ok(mut s)) => {
                        c.hs_done = true;
                        c.leaf = label_of(&peer_leaf(&s));
                        c.kind = match s.get_ref().1.handshake_kind() {
                            Some(rustls::HandshakeKind::Resumed) => Some("resumed"),
                            Some(_) => Some("full"),
                            None => None,
                        };
                        match health(&mut s).await {
                            Ok(()) => {
                                c.served = true;
                                if let Some(k) = returning {
                                    tickets[k] = Some(cache);
                                }
                                let what = format!("{} (event {i})", match returning {
                                    Some(k) => format!("long-lived client {k} [{}]", who.ch()),
                                    None => format!("fresh client [{}]", who.ch()),
                                });
                                established.push((s, c.leaf.clone(), what));
                            }
                            Err(e) => c.err = e,
                        }
                    }
                }
                // the property, directly
                let want = pol.admits(who);
                let whom = match returning {
                    Some(k) => format!("long-lived client {k} ({})", match ticket {
                        Some(t) if t == cache => "admitted before under the configuration still in force".to_string(),
                        Some(t) => format!("last admitted {} reload(s) ago", cache - t),
                        None => "never admitted so far".into(),
                    }),
                    None => "a fresh client".into(),
                };
                let cert_txt = match who {
                    Who::Anon => "without certificate",
                    Who::C => "with a certificate issued under CA C",
                    Who::D => "with a certificate issued under CA D",
                };
                let pol_txt = match pol {
                    Pol::None => "no client CA".to_string(),
                    p => format!("client CA {}", p.ch().to_ascii_uppercase()),
                };
                if c.served != want {
                    let class = match (c.served, returning.is_some() && ticket.is_some_and(|t| t != cache)) {
                        (true, true) => "returning-client-admitted-against-current-client-ca",
                        (true, false) => "client-admitted-against-client-ca",
                        (false, _) => "client-refused-against-policy",
                    };
                    out.problems.push((class.into(), format!(
                        "event {i}: {whom} {cert_txt} connects while the identity in force has {pol_txt}: the property requires the \
                         connection to be {}, observed: {} (handshake kind {:?}, {})",
                        if want { "served" } else { "refused" },
                        if c.served { "served" } else { "refused" }, c.kind, if c.err.is_empty() { "no error" } else { &c.err })));
                }
                let want_leaf = format!("{}", 10 * (label + 1));
                if c.hs_done && c.leaf.as_deref() != Some(&want_leaf) {
                    out.problems.push(("later-handshake-sees-old-identity".into(), format!(
                        "event {i}: {whom} {cert_txt} completed a handshake (kind {:?}) and was shown identity {:?}; the identity in \
                         force is {want_leaf}", c.kind, c.leaf)));
                }
                out.conns.push(c);
            }
        }
    }
    if out.infra.is_none() {
        for (s, lab, what) in &mut established {
            if let Err(e) = health(s).await {
                out.problems.push(("established-disturbed".into(),
                    format!("at the end: the established connection of {what} stopped answering: {e}")));
            }
            if label_of(&peer_leaf(s)) != *lab {
                out.problems.push(("established-identity-changed".into(),
                    format!("at the end: the peer certificate of the established connection of {what} changed")));
            }
        }
    }
    srv.abort();
    out
}

fn rconn_json(c: &RConn) -> Value {
    json!({"event": c.ev, "client": c.who.ch().to_string(), "long_lived": c.returning, "ticket_of_cache": c.ticket,
        "policy_in_force": c.pol.ch().to_string(), "identity_in_force": 10 * (c.label + 1), "client_handshake_completed": c.hs_done,
        "identity_seen": c.leaf, "kind": c.kind, "served": c.served, "error": c.err})
}

/// The fixed part: every (old policy → new policy) transition with one long-lived client of each kind
/// connecting before and after, fresh clients of each kind afterwards, and the long-lived clients
/// once more (now holding a ticket of the new configuration if it admitted them); failed reloads;
/// tickets that are several reloads old.
fn resume_fixed() -> Vec<RScenario> {
    use REv::{Connect as C, Fresh as F, Reload as R, ReloadFail as X};
    let all = vec![Who::Anon, Who::C, Who::D];
    let mut v = vec![];
    // transitions that change the client-CA setting first
    let mut transitions: Vec<(Pol, Pol)> = Pol::ALL.into_iter().flat_map(|a| Pol::ALL.into_iter().map(move |b| (a, b))).collect();
    transitions.sort_by_key(|(a, b)| a == b);
    for (p0, p1) in transitions {
        {
            v.push(RScenario { init: p0, clients: all.clone(), evs: vec![C(0), C(1), C(2), R(p1), C(0), C(1), C(2),
                F(Who::Anon), F(Who::C), F(Who::D), C(0), C(1), C(2)] });
        }
    }
    // a failed reload changes nothing (the long-lived clients may go on resuming)
    v.push(RScenario { init: Pol::C, clients: all.clone(), evs: vec![C(0), C(1), C(2), X, C(0), C(1), C(2), R(Pol::D), X, C(0), C(1), C(2)] });
    // tickets two and three configurations old; a policy that comes back is still a new configuration
    v.push(RScenario { init: Pol::None, clients: all.clone(), evs: vec![C(0), C(1), C(2), R(Pol::None), R(Pol::C), C(0), C(1), C(2),
        R(Pol::None), C(0), C(2), R(Pol::D), C(0), C(1), C(2), R(Pol::C), R(Pol::None), R(Pol::C), C(0), C(1), C(2)] });
    // two long-lived clients of the same kind, one connecting before each reload, one skipping some
    v.push(RScenario { init: Pol::C, clients: vec![Who::C, Who::C, Who::Anon], evs: vec![C(0), C(1), C(0), R(Pol::C), C(0), R(Pol::D), C(0), C(1),
        R(Pol::None), C(2), C(1), R(Pol::C), C(2), C(0), C(1)] });
    v
}

fn resume_random(r: &mut Rng) -> RScenario {
    let init = *r.pick(&Pol::ALL);
    let n = r.range(1, 4) as usize;
    let clients: Vec<Who> = (0..n).map(|_| *r.pick(&Who::ALL)).collect();
    let len = r.range(6, 18) as usize;
    let mut evs = vec![];
    let mut reloads = 0;
    for _ in 0..len {
        let e = match r.below(10) {
            0..=4 => REv::Connect(r.below(n as u64) as usize),
            5 => REv::Fresh(*r.pick(&Who::ALL)),
            6 => REv::ReloadFail,
            _ if reloads < MAX_RELOADS => {
                reloads += 1;
                REv::Reload(*r.pick(&Pol::ALL))
            }
            _ => REv::Connect(r.below(n as u64) as usize),
        };
        evs.push(e);
    }
    RScenario { init, clients, evs }
}

async fn resume_part(cx: &mut Ctx, pki: &Pki, round: &Round, leaves: &[(String, String, Vec<u8>)], scs: &[RScenario]) {
    for sc in scs {
        let line = sc.line();
        let key_tail = format!("{line} [round {}: {}]", round.idx, round.alg);
        cx.rep.case(Some(fnv(key_tail.as_bytes())));
        cx.rep.count("resume/scenario");
        let mut run = run_resume(pki, leaves, sc).await;
        if run.infra.is_some() || !run.problems.is_empty() {
            // run once more on its own before anything is reported (loaded machine)
            cx.rep.count("resume/re-run");
            run = run_resume(pki, leaves, sc).await;
        }
        let round_json = json!({"idx": round.idx, "alg": round.alg, "intermediate": round.intermediate,
            "mismatch_on_cert": round.mismatch_on_cert});
        if let Some(why) = &run.infra {
            cx.rep.fail(FailKind::Model, &format!("resume could-not-run :: {key_tail}"), why,
                json!({"op": "resume", "line": line, "round": round_json}));
            continue;
        }
        for c in &run.conns {
            cx.rep.count(&format!("resume/{}{}/{}", if c.returning.is_some() { "long-lived" } else { "fresh" },
                match c.ticket { Some(_) => "+ticket", None => "" }, if c.served { "served" } else { "refused" }));
            if let Some(k) = c.kind {
                cx.rep.count(&format!("resume/kind/{k}"));
            }
        }
        if let Some((class, _)) = run.problems.first().cloned() {
            // shrink the event list while the same class of failure remains
            let mut small = sc.clone();
            let mut best = run.clone();
            let clients = sc.clients.clone();
            let init = sc.init;
            let mut budget = 40;
            let mut cands: Vec<Vec<REv>> = vec![];
            // (shrink_list wants a synchronous predicate; collect candidates greedily instead)
            loop {
                cands.clear();
                for i in 0..small.evs.len() {
                    let mut e = small.evs.clone();
                    e.remove(i);
                    cands.push(e);
                }
                let mut progressed = false;
                for e in cands.drain(..) {
                    if budget == 0 {
                        break;
                    }
                    budget -= 1;
                    let cand = RScenario { init, clients: clients.clone(), evs: e };
                    let r = run_resume(pki, leaves, &cand).await;
                    if r.infra.is_none() && r.problems.iter().any(|(c, _)| *c == class) {
                        small = cand;
                        best = r;
                        progressed = true;
                        break;
                    }
                }
                if !progressed || budget == 0 {
                    break;
                }
            }
            let sline = small.line();
            for (class, desc) in &best.problems {
                cx.rep.fail(FailKind::Impl, &format!("resume {class} :: {sline} [round {}: {}]", round.idx, round.alg), desc,
                    json!({"op": "resume", "line": sline, "round": round_json, "found_in": line,
                        "connections": best.conns.iter().map(rconn_json).collect::<Vec<_>>()}));
            }
            continue;
        }
        if let Some(d) = cx.drv.as_mut() {
            let answers = d.batch(&run.model_ops);
            let acc: Vec<&String> = run.model_ops.iter().zip(&answers).filter(|(o, _)| o.starts_with("raccept")).map(|(_, a)| a).collect();
            for (c, a) in run.conns.iter().zip(acc) {
                cx.rep.model_compared += 1;
                let mut t = a.split(' ');
                let (mid, mkind) = (t.next().unwrap_or(""), t.next().unwrap_or(""));
                let agree = !c.hs_done || (c.leaf.as_deref() == Some(mid) && c.kind == Some(mkind));
                if !agree || !(mkind == "full" || mkind == "resumed") {
                    cx.rep.fail(FailKind::Model, &format!("model resume :: {key_tail}"),
                        &format!("event {}: model `{a}` vs implementation identity {:?} kind {:?}", c.ev, c.leaf, c.kind),
                        json!({"op": "resume", "line": line, "round": round_json, "connections": run.conns.iter().map(rconn_json).collect::<Vec<_>>()}));
                }
            }
        }
        if cx.rep.samples.len() < 10 && sc.evs.len() > 12 && round.idx == 0 {
            cx.rep.sample(json!({"resume": line, "connections": run.conns.iter().map(rconn_json).collect::<Vec<_>>()}));
        }
    }
}

// ---------------------------------------------------------------------------------------------
// Signal-driven reload: the real `server_main`, SIGUSR1 sent to this very process
// ---------------------------------------------------------------------------------------------
//
// `server_main` with `--tls-cert/--tls-key[/--tls-ca]` registers a SIGUSR1 handler that calls
// `reload_tls_identity` on the configured paths.  The property: "replacing the server identity at run
// time changes what later handshakes see without disturbing established connections".  The oracle is
// that sentence per signal: a SIGUSR1 that finds files from which a configuration can be built makes
// later handshakes see the identity (and the client-CA policy) in those files — polled for up to
// `SIGNAL_PATIENCE` —, one that finds broken files leaves the identity in force untouched, established
// connections keep answering, and this holds for EVERY signal of the history, whatever failed before.
//
// SIGUSR1 is process-wide: the family runs sequentially in one place, nothing else in this harness
// installs a SIGUSR1 handler (the other parts drive `run_listener` / `reload_tls_identity` directly),
// and the harness registers a tokio SIGUSR1 stream of its own BEFORE the first signal is sent (tokio
// never uninstalls its handler, so the default action "terminate" can no longer happen); that stream
// also confirms that each signal was delivered to the process.

const SIGNAL_PATIENCE: Duration = Duration::from_secs(10);
const SIGNAL_SETTLE: Duration = Duration::from_millis(600);

#[derive(Clone, Copy, Debug, PartialEq, Eq)]
enum Brk {
    /// new certificate in place, key file removed (rotation signalled too early)
    MissingKey,
    /// certificate file cut in the middle of the PEM body
    Truncated,
    /// new certificate, key of another key pair
    Mismatched,
    /// empty certificate file
    EmptyCert,
    /// the client-CA bundle holds no certificate (worlds with `--tls-ca` only)
    EmptyCa,
}

#[derive(Clone, Copy, Debug, PartialEq, Eq)]
enum SEv {
    /// certificate and key replaced by a new valid identity; `Some(p)`: the client-CA file too
    Valid(Option<Pol>),
    Broken(Brk),
    /// SIGUSR1, then the judgement
    Signal,
}

/// `signal <n|c|d> <event>…`: `n` = server started without `--tls-ca`, `c`/`d` = with a client-CA file
/// holding CA C / CA D.  Events: `v` new identity, `vc`/`vd` new identity and client CA C / D,
/// `bk` missing key, `bt` truncated PEM, `bm` mismatched key, `be` empty certificate file,
/// `ba` empty client-CA bundle, `s` SIGUSR1.
#[derive(Clone, Debug, PartialEq, Eq)]
struct SScenario {
    ca: Pol,
    evs: Vec<SEv>,
}

impl SScenario {
    fn line(&self) -> String {
        let mut s = format!("signal {}", self.ca.ch());
        for e in &self.evs {
            s.push(' ');
            s.push_str(match e {
                SEv::Valid(None) => "v",
                SEv::Valid(Some(Pol::C)) => "vc",
                SEv::Valid(Some(Pol::D)) => "vd",
                SEv::Valid(Some(Pol::None)) => "v",
                SEv::Broken(Brk::MissingKey) => "bk",
                SEv::Broken(Brk::Truncated) => "bt",
                SEv::Broken(Brk::Mismatched) => "bm",
                SEv::Broken(Brk::EmptyCert) => "be",
                SEv::Broken(Brk::EmptyCa) => "ba",
                SEv::Signal => "s",
            });
        }
        s
    }
    fn parse(line: &str) -> Option<Self> {
        let t: Vec<&str> = line.split_whitespace().collect();
        if t.len() < 3 || t[0] != "signal" || t[1].chars().count() != 1 {
            return None;
        }
        let ca = Pol::parse(t[1].chars().next()?)?;
        let mut evs = vec![];
        for tok in &t[2..] {
            let e = match *tok {
                "v" => SEv::Valid(None),
                "vc" => SEv::Valid(Some(Pol::C)),
                "vd" => SEv::Valid(Some(Pol::D)),
                "bk" => SEv::Broken(Brk::MissingKey),
                "bt" => SEv::Broken(Brk::Truncated),
                "bm" => SEv::Broken(Brk::Mismatched),
                "be" => SEv::Broken(Brk::EmptyCert),
                "ba" => SEv::Broken(Brk::EmptyCa),
                "s" => SEv::Signal,
                _ => return None,
            };
            // the client-CA file exists only in worlds started with `--tls-ca`
            if ca == Pol::None && matches!(e, SEv::Valid(Some(_)) | SEv::Broken(Brk::EmptyCa)) {
                return None;
            }
            evs.push(e);
        }
        (evs.len() <= 40).then_some(Self { ca, evs })
    }
}

#[derive(Clone, Debug, Default)]
struct SRun {
    /// (class, description)
    problems: Vec<(String, String)>,
    infra: Option<String>,
    /// per signal: (files valid, identity label presented afterwards)
    signals: Vec<(bool, Option<String>)>,
    model_ops: Vec<String>,
    handshakes: u64,
}

fn send_sigusr1_to_self() -> Result<(), String> {
    let st = std::process::Command::new("kill")
        .arg("-USR1")
        .arg(std::process::id().to_string())
        .status()
        .map_err(|e| format!("cannot run kill(1): {e}"))?;
    if st.success() { Ok(()) } else { Err(format!("kill -USR1 exited with {st}")) }
}

static SIGNAL_WORLDS: std::sync::atomic::AtomicUsize = std::sync::atomic::AtomicUsize::new(0);

async fn run_signal(pki: &Pki, sc: &SScenario, usr1: &mut tokio::signal::unix::Signal) -> SRun {
    use rusty_penguin_lib::arg::ServerArgs;
    let mut out = SRun::default();
    let dir = pki.dir.join(format!("signal-{}", SIGNAL_WORLDS.fetch_add(1, Ordering::SeqCst)));
    std::fs::create_dir_all(&dir).expect("signal dir");
    let path = |f: &str| dir.join(f).to_str().expect("path").to_string();
    let (cert, keyp, cap) = (path("cert.pem"), path("privkey.pem"), path("client-ca.pem"));
    let ca_pem = |p: Pol| std::fs::read_to_string(p.ca_file(pki).expect("CA file")).expect("read CA");
    let label = |i: usize| format!("{}", 10 * (i + 1));
    // every identity ever written, by index; a label is `10 * (index + 1)`
    let mut ders: Vec<Vec<u8>> = vec![];
    let fresh = |ders: &mut Vec<Vec<u8>>| {
        let l = leaf(&format!("signal identity {}", ders.len()), &["localhost"], true, None, "p256");
        ders.push(l.2.clone());
        l
    };
    // what the files hold: a matching certificate/key pair (its index), and the client-CA bundle
    let first = fresh(&mut ders);
    std::fs::write(&cert, &first.0).expect("write cert");
    std::fs::write(&keyp, &first.1).expect("write key");
    let mut file_id: Option<usize> = Some(0);
    let mut file_ca: Option<Pol> = (sc.ca != Pol::None).then_some(sc.ca);
    if sc.ca != Pol::None {
        std::fs::write(&cap, ca_pem(sc.ca)).expect("write client CA");
    }
    // the identity and policy in force, as the property has it
    let (mut cur_id, mut cur_pol) = (0usize, sc.ca);
    // a port that is free right now
    let port = match std::net::TcpListener::bind("127.0.0.1:0").and_then(|l| l.local_addr()) {
        Ok(a) => a.port(),
        Err(e) => {
            out.infra = Some(format!("no free port: {e}"));
            return out;
        }
    };
    let args: &'static ServerArgs = Box::leak(Box::new(ServerArgs {
        host: vec!["127.0.0.1".to_string()],
        port: vec![port],
        not_found_resp: "404".to_string(),
        timeout: penguin_mux::timing::OptionalDuration::from_secs(120),
        tls_cert: Some(cert.clone()),
        tls_key: Some(keyp.clone()),
        tls_ca: (sc.ca != Pol::None).then(|| cap.clone()),
        ..Default::default()
    }));
    let server = tokio::spawn(rusty_penguin_lib::server::server_main(args));
    out.model_ops.push("init 10".into());
    // one handshake of a client without certificate: the leaf it is shown (the client's side of a
    // TLS 1.3 handshake completes also when the server is going to refuse it for lack of a certificate)
    async fn presented(port: u16, ders: &[Vec<u8>]) -> Result<(ClientStream, String), String> {
        let io = async {
            let tcp = tokio::net::TcpStream::connect(("127.0.0.1", port)).await.map_err(|e| format!("tcp: {e}"))?;
            let s = tls_connect(tcp, "localhost", None, None, None, true).await.map_err(|e| format!("tls_connect: {e}"))?;
            let lab = match peer_leaf(&s) {
                None => "none".to_string(),
                Some(d) => ders.iter().position(|x| *x == d).map_or("unknown".into(), |i| format!("{}", 10 * (i + 1))),
            };
            Ok::<_, String>((s, lab))
        };
        tokio::time::timeout(Duration::from_secs(5), io).await.unwrap_or_else(|_| Err("handshake timed out".into()))
    }
    // wait for the server to come up with the initial identity
    let up_deadline = tokio::time::Instant::now() + Duration::from_secs(15);
    loop {
        out.handshakes += 1;
        if matches!(presented(port, &ders).await, Ok((_, l)) if l == label(0)) {
            break;
        }
        if server.is_finished() || tokio::time::Instant::now() >= up_deadline {
            out.infra = Some(match server.is_finished() {
                true => format!("server_main ended at start-up: {:?}", server.await),
                false => "the server did not come up with the initial identity within 15 s".into(),
            });
            return out;
        }
        tokio::time::sleep(Duration::from_millis(50)).await;
    }
    // (stream, label it was shown, description)
    let mut established: Vec<(ClientStream, String, String)> = vec![];
    let mut n_signal = 0usize;
    // signals that found broken files so far (their numbers)
    let mut failed: Vec<usize> = vec![];
    'events: for (i, ev) in sc.evs.iter().enumerate() {
        match *ev {
            SEv::Valid(p) => {
                let l = fresh(&mut ders);
                std::fs::write(&cert, &l.0).expect("write cert");
                std::fs::write(&keyp, &l.1).expect("write key");
                file_id = Some(ders.len() - 1);
                if let Some(p) = p {
                    std::fs::write(&cap, ca_pem(p)).expect("write client CA");
                    file_ca = Some(p);
                }
            }
            SEv::Broken(b) => {
                let l = fresh(&mut ders);
                match b {
                    Brk::MissingKey => {
                        std::fs::write(&cert, &l.0).expect("write cert");
                        let _ = std::fs::remove_file(&keyp);
                        file_id = None;
                    }
                    Brk::Truncated => {
                        let cut = l.0.len() / 2;
                        std::fs::write(&cert, &l.0[..cut]).expect("write cert");
                        std::fs::write(&keyp, &l.1).expect("write key");
                        file_id = None;
                    }
                    Brk::Mismatched => {
                        let other = fresh(&mut ders);
                        std::fs::write(&cert, &l.0).expect("write cert");
                        std::fs::write(&keyp, &other.1).expect("write key");
                        file_id = None;
                    }
                    Brk::EmptyCert => {
                        std::fs::write(&cert, "").expect("write cert");
                        std::fs::write(&keyp, &l.1).expect("write key");
                        file_id = None;
                    }
                    Brk::EmptyCa => {
                        std::fs::write(&cap, "# a CA bundle without any certificate\n").expect("write client CA");
                        file_ca = None;
                    }
                }
            }
            SEv::Signal => {
                n_signal += 1;
                let valid = file_id.is_some() && (sc.ca == Pol::None || file_ca.is_some());
                // the harness' idea of "files from which a configuration can be built" against the
                // real configuration function (a disagreement is not a verdict on the signal path)
                let builds = make_server_config(&cert, &keyp, (sc.ca != Pol::None).then_some(cap.as_str())).await.is_ok();
                if builds != valid {
                    out.infra = Some(format!(
                        "event {i}: the harness takes the files for {} but make_server_config {}",
                        if valid { "valid" } else { "broken" },
                        if builds { "accepts them" } else { "rejects them" }
                    ));
                    break 'events;
                }
                if let Err(e) = send_sigusr1_to_self() {
                    out.infra = Some(e);
                    break 'events;
                }
                if !matches!(tokio::time::timeout(Duration::from_secs(10), usr1.recv()).await, Ok(Some(()))) {
                    out.infra = Some(format!("event {i}: SIGUSR1 was sent but not delivered to this process within 10 s"));
                    break 'events;
                }
                let history = if failed.is_empty() {
                    "no reload had failed before".to_string()
                } else {
                    format!("the reload(s) of signal(s) {failed:?} had failed before (broken files), as they must")
                };
                let shown: Option<String>;
                if valid {
                    let (want_id, want_pol) = (file_id.expect("valid"), file_ca.unwrap_or(Pol::None));
                    out.model_ops.push(format!("reload {}", label(want_id)));
                    let deadline = tokio::time::Instant::now() + SIGNAL_PATIENCE;
                    let mut last = String::new();
                    let mut got = None;
                    loop {
                        out.handshakes += 1;
                        match presented(port, &ders).await {
                            Ok((s, l)) if l == label(want_id) => {
                                got = Some(s);
                                break;
                            }
                            Ok((_, l)) => last = format!("identity {l}"),
                            Err(e) => last = format!("no handshake ({e})"),
                        }
                        if tokio::time::Instant::now() >= deadline {
                            break;
                        }
                        tokio::time::sleep(Duration::from_millis(100)).await;
                    }
                    match got {
                        Some(s) => {
                            shown = Some(label(want_id));
                            cur_id = want_id;
                            cur_pol = want_pol;
                            if sc.ca == Pol::None {
                                established.push((s, label(want_id), format!("the client connected after signal {n_signal}")));
                            }
                        }
                        None => {
                            shown = None;
                            let class = if failed.is_empty() { "signal-not-applied" } else { "later-signal-ignored-after-failed-reload" };
                            out.problems.push((class.into(), format!(
                                "event {i}: SIGUSR1 number {n_signal} found a valid certificate/key{} in place (identity {}), but for {} s every \
                                 later handshake still saw {last}; the identity in force before was {}; {history}",
                                if sc.ca == Pol::None { String::new() } else { format!(" and client CA {}", want_pol.ch().to_ascii_uppercase()) },
                                label(want_id), SIGNAL_PATIENCE.as_secs(), label(cur_id))));
                            out.signals.push((valid, shown));
                            break 'events;
                        }
                    }
                } else {
                    failed.push(n_signal);
                    out.model_ops.push("reload-fail".into());
                    tokio::time::sleep(SIGNAL_SETTLE).await;
                    out.handshakes += 1;
                    match presented(port, &ders).await {
                        Ok((s, l)) if l == label(cur_id) => {
                            shown = Some(l.clone());
                            if sc.ca == Pol::None {
                                established.push((s, l, format!("the client connected after signal {n_signal}")));
                            }
                        }
                        Ok((_, l)) => {
                            shown = Some(l.clone());
                            out.problems.push(("failed-reload-changed-identity".into(), format!(
                                "event {i}: SIGUSR1 number {n_signal} found broken files; afterwards a handshake saw identity {l}, the identity \
                                 in force is {}", label(cur_id))));
                        }
                        Err(e) => {
                            shown = None;
                            out.problems.push(("server-stopped-serving-after-failed-reload".into(), format!(
                                "event {i}: SIGUSR1 number {n_signal} found broken files; afterwards no handshake completes: {e}")));
                        }
                    }
                }
                out.signals.push((valid, shown));
                out.model_ops.push("accept".into());
                // the client-CA policy in force, on fresh clients of each kind
                for who in Who::ALL {
                    let (c, k) = who.files(pki).unzip();
                    let io = async {
                        let tcp = tokio::net::TcpStream::connect(("127.0.0.1", port)).await.map_err(|e| format!("tcp: {e}"))?;
                        let mut s = tls_connect(tcp, "localhost", c.as_deref(), k.as_deref(), None, true)
                            .await
                            .map_err(|e| format!("tls_connect: {e}"))?;
                        health(&mut s).await?;
                        Ok::<ClientStream, String>(s)
                    };
                    out.handshakes += 1;
                    let r = tokio::time::timeout(Duration::from_secs(8), io).await.unwrap_or_else(|_| Err("timed out".into()));
                    let want = cur_pol.admits(who);
                    if r.is_ok() != want {
                        out.problems.push(("client-ca-not-the-one-in-force".into(), format!(
                            "event {i}: after SIGUSR1 number {n_signal} the client-CA setting in force is `{}`; a fresh client `{}` must be {}, \
                             observed: {}", cur_pol.ch(), who.ch(), if want { "served" } else { "refused" },
                            match &r { Ok(_) => "served".to_string(), Err(e) => format!("refused ({e})") })));
                    }
                    if let Ok(s) = r {
                        let l = match peer_leaf(&s) {
                            None => "none".to_string(),
                            Some(d) => ders.iter().position(|x| *x == d).map_or("unknown".into(), |i| label(i)),
                        };
                        established.push((s, l, format!("the `{}` client connected after signal {n_signal}", who.ch())));
                    }
                }
                // established connections are not disturbed by the reload (or by its failure)
                for (s, l, what) in &mut established {
                    if let Err(e) = health(s).await {
                        out.problems.push(("established-disturbed".into(),
                            format!("event {i}: after SIGUSR1 number {n_signal} the established connection of {what} stopped answering: {e}")));
                    }
                    let now = match peer_leaf(s) {
                        None => "none".to_string(),
                        Some(d) => ders.iter().position(|x| *x == d).map_or("unknown".into(), |i| label(i)),
                    };
                    if now != *l {
                        out.problems.push(("established-identity-changed".into(),
                            format!("event {i}: the peer certificate of the established connection of {what} changed from {l} to {now}")));
                    }
                }
                if !out.problems.is_empty() {
                    break 'events;
                }
            }
        }
    }
    server.abort();
    out
}

/// (quick, thorough-only) histories.  Quick: a failed reload then a good one; a client-CA change
/// across a failed reload.  Thorough adds: ok; fail, fail, ok; ok, fail, ok, ok; every kind of broken
/// files; worlds with a client CA from the start.
fn signal_fixed(tier: Tier) -> Vec<SScenario> {
    let mut lines = vec!["signal n bk s v s", "signal c v s ba s vd s v s"];
    if tier == Tier::Thorough {
        lines.extend([
            "signal n v s",
            "signal n bt s bm s v s",
            "signal n v s be s v s v s",
            "signal n bk s bt s bm s be s v s v s",
            "signal d bk s vc s bt s v s",
            "signal c ba s bm s be s vd s vc s",
            "signal d v s s bk v s ba s s vc s",
        ]);
    }
    lines.into_iter().map(|l| SScenario::parse(l).expect("fixed signal history")).collect()
}

fn signal_random(r: &mut Rng) -> SScenario {
    let ca = *r.pick(&Pol::ALL);
    let mut evs = vec![];
    for _ in 0..r.range(3, 6) {
        // one or two rewrites of the files, then the signal (sometimes twice)
        for _ in 0..r.range(1, 2) {
            let e = if r.chance(1, 2) {
                SEv::Valid(if ca != Pol::None && r.chance(1, 2) { Some(*r.pick(&[Pol::C, Pol::D])) } else { None })
            } else {
                let kinds: &[Brk] = if ca == Pol::None {
                    &[Brk::MissingKey, Brk::Truncated, Brk::Mismatched, Brk::EmptyCert]
                } else {
                    &[Brk::MissingKey, Brk::Truncated, Brk::Mismatched, Brk::EmptyCert, Brk::EmptyCa]
                };
                SEv::Broken(*r.pick(kinds))
            };
            evs.push(e);
        }
        evs.push(SEv::Signal);
        if r.chance(1, 6) {
            evs.push(SEv::Signal);
        }
    }
    SScenario { ca, evs }
}

async fn signal_part(cx: &mut Ctx, pki: &Pki, usr1: &mut tokio::signal::unix::Signal, scs: &[SScenario], done: &mut Vec<String>) {
    for sc in scs {
        let line = sc.line();
        if done.contains(&line) {
            continue;
        }
        done.push(line.clone());
        cx.rep.case(Some(fnv(line.as_bytes())));
        cx.rep.count("signal/history");
        let t = std::time::Instant::now();
        let mut run = run_signal(pki, sc, usr1).await;
        if run.infra.is_some() || !run.problems.is_empty() {
            // once more on its own before anything is reported
            cx.rep.count("signal/re-run");
            run = run_signal(pki, sc, usr1).await;
        }
        cx.rep.count_n("signal/handshakes", run.handshakes);
        cx.rep.count_n("signal/ms", t.elapsed().as_millis() as u64);
        for (valid, _) in &run.signals {
            cx.rep.count(if *valid { "signal/sigusr1-valid-files" } else { "signal/sigusr1-broken-files" });
        }
        let replay = json!({"op": "signal", "line": line, "signals": run.signals.iter().map(|(v, s)| json!({"files_valid": v,
            "identity_presented_afterwards": s})).collect::<Vec<_>>()});
        if let Some(why) = &run.infra {
            cx.rep.fail(FailKind::Model, &format!("signal could-not-run :: {line}"), why, replay);
            continue;
        }
        if !run.problems.is_empty() {
            for (class, desc) in &run.problems {
                cx.rep.fail(FailKind::Impl, &format!("signal {class} :: {line}"), desc, replay.clone());
            }
            continue;
        }
        if let Some(d) = cx.drv.as_mut() {
            // the listener model: every signal is `reload <id>` or `reload-fail`, then an accepted connection
            let answers = d.batch(&run.model_ops);
            let acc: Vec<&String> = run.model_ops.iter().zip(&answers).filter(|(o, _)| *o == "accept").map(|(_, a)| a).collect();
            for (k, ((_, shown), a)) in run.signals.iter().zip(acc).enumerate() {
                cx.rep.model_compared += 1;
                if shown.as_deref() != Some(a.as_str()) {
                    cx.rep.fail(FailKind::Model, &format!("model signal :: {line}"),
                        &format!("signal {}: model serves identity {a}, implementation presented {shown:?}", k + 1), replay.clone());
                }
            }
        }
        if cx.rep.samples.len() < 12 && sc.evs.len() >= 6 {
            cx.rep.sample(json!({"signal": line, "per_signal": run.signals.iter().map(|(v, s)| json!({"files_valid": v,
                "identity_presented_afterwards": s})).collect::<Vec<_>>()}));
        }
    }
}

// ---------------------------------------------------------------------------------------------
// Trust anchors exactly as given
// ---------------------------------------------------------------------------------------------
//
// The property speaks about "the roots the client was GIVEN" and "clients presenting a certificate
// issued under THAT CA".  A `--tls-ca` file from which no certificate can be used (the CA saved as DER
// instead of PEM, an `openssl x509 -trustout` PEM, a file that holds only a key, an empty or
// half-written file) gives the side started with it NO trust anchor: such a client reaches no server,
// such a server admits no client (the real code refuses to build the configuration; a reload keeps the
// identity and client CA in force).  What must never happen is that the anchors silently become some
// OTHER set, in particular the platform trust store.  To see that, the platform store has to hold a CA
// under which the harness can issue certificates: `install_platform_store` generates CA "P" and points
// `SSL_CERT_FILE` / `SSL_CERT_DIR` (honoured by rustls-native-certs, the `system-roots` root source of
// this build) at it before any TLS configuration is built.  The oracle knows only which roots each
// side was given (R), P being the platform CA and X a private CA:
//   client given R, server certificate issued by P:          connects only if P ∈ R
//   server given client CA R, client certificate issued by W: admitted only if W ∈ R;  nobody without one
// with R = {P} / {X} for the controls, R = {} for every unusable file (after a refused reload: the
// R in force before), and R = the platform store when no `--tls-ca` is given at all.  That last case
// is the calibration of the family (`anchors/platform-store=present|absent`): in a build without a
// platform root source a fall-back to it cannot be told from the empty set, and the family has no teeth.
// Nothing of this is sent to the Lean driver: the model has no notion of an unusable CA file.

struct Platform {
    ca: Authority,
    /// the file `SSL_CERT_FILE` points to
    pem_path: String,
}

/// The platform trust store of this process = CA P and nothing else.  Must run before any other
/// thread exists and before any TLS configuration is built (first thing in `main`).
fn install_platform_store(base: &Path) -> Platform {
    let dir = base.join("platform");
    let certs_d = dir.join("certs.d");
    std::fs::create_dir_all(&certs_d).expect("platform store dir");
    let round = Round { idx: 0, alg: "p256", intermediate: false, mismatch_on_cert: false };
    let ca = authority("CA P (platform store)", &round);
    let pem_path = dir.join("roots.pem");
    std::fs::write(&pem_path, &ca.pem).expect("write platform roots");
    // SAFETY: the process is single-threaded here (no runtime, no driver yet) and nothing has read
    // these variables so far.
    unsafe {
        std::env::set_var("SSL_CERT_FILE", &pem_path);
        std::env::set_var("SSL_CERT_DIR", &certs_d);
    }
    Platform { ca, pem_path: pem_path.to_str().expect("utf-8 path").to_string() }
}

/// File kinds from which `--tls-ca` obtains no trust anchor.
const UNUSABLE: [&str; 5] = ["der", "trusted-pem", "key-only", "empty", "truncated"];
/// Proper files (controls): the platform CA itself, the private CA X.
const A_CONTROLS: [&str; 2] = ["platform-ca", "private-ca"];

fn kind_text(kind: &str) -> &'static str {
    match kind {
        "der" => "the private CA X saved as DER instead of PEM",
        "trusted-pem" => "the private CA X as written by `openssl x509 -trustout` (BEGIN TRUSTED CERTIFICATE)",
        "key-only" => "a PEM file that holds only a private key",
        "empty" => "an empty file (bundle caught in the middle of being rewritten)",
        "truncated" => "the private CA X's PEM cut off in the middle of the body",
        "platform-ca" => "CA P (the CA of the platform store) as PEM",
        "private-ca" => "the private CA X as PEM",
        "none" => "no --tls-ca at all",
        _ => "?",
    }
}

/// Which of (P, X) the file gives as trust anchors, as the property has it.
fn given(kind: &str) -> (bool, bool) {
    match kind {
        "platform-ca" => (true, false),
        "private-ca" => (false, true),
        _ => (false, false),
    }
}

struct AnchorPki {
    dir: PathBuf,
    alg: &'static str,
}

impl AnchorPki {
    fn p(&self, f: &str) -> String {
        self.dir.join(f).to_str().expect("utf-8 path").to_string()
    }
    fn put(&self, f: &str, body: &[u8]) {
        std::fs::write(self.dir.join(f), body).expect("write anchors file");
    }
    fn put_leaf(&self, stem: &str, l: &(String, String, Vec<u8>)) {
        self.put(&format!("{stem}.pem"), l.0.as_bytes());
        self.put(&format!("{stem}.key"), l.1.as_bytes());
    }
    fn generate(base: &Path, plat: &Platform, alg: &'static str) -> Self {
        let dir = base.join(format!("anchors-{alg}"));
        std::fs::create_dir_all(&dir).expect("anchors dir");
        let ap = Self { dir, alg };
        let x = authority("CA X (private)", &Round { idx: 0, alg, intermediate: false, mismatch_on_cert: false });
        ap.put("ca-platform-ca", plat.ca.pem.as_bytes());
        ap.put("ca-private-ca", x.pem.as_bytes());
        ap.put("ca-der", &x.der);
        ap.put("ca-trusted-pem", x.pem.replace("CERTIFICATE", "TRUSTED CERTIFICATE").as_bytes());
        ap.put("ca-key-only", KeyPair::generate_for(alg_of(alg)).expect("key").serialize_pem().as_bytes());
        ap.put("ca-empty", b"");
        ap.put("ca-truncated", &x.pem.as_bytes()[..x.pem.len() / 2]);
        ap.put_leaf("srv_p", &leaf("server leaf (P)", &[GOOD_NAME, "localhost"], true, Some(&plat.ca), alg));
        ap.put_leaf("srv_x", &leaf("server leaf (X)", &[GOOD_NAME, "localhost"], true, Some(&x), alg));
        ap.put_leaf("cli_p", &leaf("client leaf (P)", &["client.test"], false, Some(&plat.ca), alg));
        ap.put_leaf("cli_x", &leaf("client leaf (X)", &["client.test"], false, Some(&x), alg));
        ap
    }
    fn ca_file(&self, kind: &str) -> Option<String> {
        (kind != "none").then(|| self.p(&format!("ca-{kind}")))
    }
    fn ca_bytes(&self, kind: &str) -> Vec<u8> {
        std::fs::read(self.dir.join(format!("ca-{kind}"))).expect("read anchors CA file")
    }
    /// client certificate files: 'p' issued by P, 'x' issued by X, anything else: none
    fn cli(&self, who: char) -> Option<(String, String)> {
        matches!(who, 'p' | 'x').then(|| (self.p(&format!("cli_{who}.pem")), self.p(&format!("cli_{who}.key"))))
    }
}

#[derive(Clone, Copy, Debug, PartialEq, Eq)]
enum ASide {
    /// `tls_connect` with `--tls-ca <file>` against a server whose certificate P issued
    Client,
    /// `make_tls_identity(.., Some(file))`, then handshakes against what it built (if anything)
    Start,
    /// identity built with client CA X, the file rewritten, `reload_tls_identity`
    Reload,
    /// the real `server_main` started with `--tls-ca <file>`
    MainStart,
    /// the real `server_main` started with client CA X, the file rewritten, SIGUSR1
    MainReload,
}

impl ASide {
    const ALL: [ASide; 5] = [ASide::Client, ASide::Start, ASide::Reload, ASide::MainStart, ASide::MainReload];
    fn tok(self) -> &'static str {
        match self {
            ASide::Client => "client",
            ASide::Start => "server-start",
            ASide::Reload => "server-reload",
            ASide::MainStart => "server-main-start",
            ASide::MainReload => "server-main-reload",
        }
    }
}

/// `anchors <client|server-start|server-reload|server-main-start|server-main-reload> <file kind>`
#[derive(Clone, Debug, PartialEq, Eq)]
struct AScenario {
    side: ASide,
    kind: &'static str,
}

impl AScenario {
    fn line(&self) -> String {
        format!("anchors {} {}", self.side.tok(), self.kind)
    }
    fn parse(line: &str) -> Option<Self> {
        let t: Vec<&str> = line.split_whitespace().collect();
        if t.len() != 3 || t[0] != "anchors" {
            return None;
        }
        let side = ASide::ALL.into_iter().find(|s| s.tok() == t[1])?;
        let kind = UNUSABLE.into_iter().chain(A_CONTROLS).chain((side == ASide::Client).then_some("none")).find(|k| *k == t[2])?;
        Some(Self { side, kind })
    }
}

#[derive(Clone, Debug, Default)]
struct ARun {
    /// what the property forbids: (class, description)
    violations: Vec<(String, String)>,
    /// a control did not behave as the scenario presupposes (calibration of the harness, not a verdict)
    control: Option<String>,
    infra: Option<String>,
    /// bucket for the distribution
    outcome: String,
    /// `client none` only: did the client reach the P-issued server
    connected: Option<bool>,
    observed: Vec<String>,
}

/// One verified-or-not handshake over an in-memory pipe: the real client entry point against an acceptor
/// built from `cfg`, one byte each way.  Ok(None) = completed, Ok(Some(why)) = failed, Err = no outcome.
async fn anchors_handshake(
    cfg: Arc<rustls::ServerConfig>,
    cli: Option<(String, String)>,
    ca: Option<String>,
    skip: bool,
) -> Result<Option<String>, String> {
    let acceptor = tokio_rustls::TlsAcceptor::from(cfg);
    let (cio, sio) = tokio::io::duplex(1 << 16);
    let server = tokio::spawn(async move {
        let mut s = acceptor.accept(sio).await?;
        let mut b = [0u8; 1];
        s.read_exact(&mut b).await?;
        s.write_all(&[b[0] ^ 0xff]).await?;
        s.flush().await?;
        let _ = s.read(&mut b).await; // until the client closes
        Ok::<(), std::io::Error>(())
    });
    let stop = server.abort_handle();
    let (c, k) = cli.unzip();
    let client = async {
        let mut st = tls_connect(cio, GOOD_NAME, c.as_deref(), k.as_deref(), ca.as_deref(), skip)
            .await
            .map_err(|e| format!("tls_connect: {e}"))?;
        let r = exchange(&mut st, 0x5a).await;
        let _ = st.shutdown().await;
        match r {
            Ok(0xa5) => Ok(()),
            Ok(b) => Err(format!("wrong answer byte {b:#x}")),
            Err(e) => Err(format!("first exchange: {e}")),
        }
    };
    let both = async {
        let cr = client.await;
        let sr = server.await;
        (cr, sr)
    };
    match tokio::time::timeout(CASE_TIMEOUT, both).await {
        Err(_) => {
            stop.abort();
            Err(format!("no outcome within {} s (hang)", CASE_TIMEOUT.as_secs()))
        }
        Ok((Ok(()), Ok(Ok(())))) => Ok(None),
        Ok((cr, sr)) => Ok(Some(format!(
            "client: {}; server: {}",
            cr.err().unwrap_or_else(|| "done".into()),
            match sr {
                Ok(Ok(())) => "done".to_string(),
                Ok(Err(e)) => format!("{e}"),
                Err(e) => format!("task: {e}"),
            }
        ))),
    }
}

/// Judge who a server admits against the anchors it was given: `adm` = (P-client, X-client, no certificate).
fn judge_admissions(out: &mut ARun, sc: &AScenario, when: &str, r_given: (bool, bool), r_text: &str, adm: [Result<bool, String>; 3]) {
    let whos = [("a certificate issued by CA P (platform store)", r_given.0, "server-admits-platform-client"),
        ("a certificate issued by the private CA X", r_given.1, "server-admits-foreign-client"),
        ("no certificate", false, "server-admits-anonymous-client")];
    for ((who, allowed, class), a) in whos.into_iter().zip(adm) {
        match a {
            Err(e) => out.violations.push(("server-hangs".into(), format!("{when}: a client presenting {who}: {e}"))),
            Ok(true) if !allowed => out.violations.push((class.into(), format!(
                "{when}: the server's client CA file is {} ({r_text}); a client presenting {who} completed the handshake and was \
                 served, although that file does not cover it", kind_text(sc.kind)))),
            Ok(false) if allowed && A_CONTROLS.contains(&sc.kind) && out.control.is_none() =>
                out.control = Some(format!("{when}: a client presenting {who} was refused by a server whose client CA file is {}",
                    kind_text(sc.kind))),
            Ok(a) => out.observed.push(format!("{when}: client with {who}: {}", if a { "admitted" } else { "refused" })),
        }
    }
}

async fn admissions_of(ap: &AnchorPki, cfg: &Arc<rustls::ServerConfig>) -> [Result<bool, String>; 3] {
    let mut v = vec![];
    for who in ['p', 'x', '-'] {
        v.push(anchors_handshake(cfg.clone(), ap.cli(who), None, true).await.map(|r| r.is_none()));
    }
    v.try_into().expect("three")
}

static ANCHOR_WORLDS: std::sync::atomic::AtomicUsize = std::sync::atomic::AtomicUsize::new(0);

/// In-memory scenarios (`client`, `server-start`, `server-reload`).
async fn run_anchor_mem(ap: &AnchorPki, sc: &AScenario) -> ARun {
    let mut out = ARun::default();
    let r_text = |g: (bool, bool)| match g {
        (true, _) => "trust anchors given: CA P",
        (_, true) => "trust anchors given: the private CA X only",
        _ => "no usable certificate in it: no trust anchor given",
    };
    match sc.side {
        ASide::Client => {
            let cfg = match make_server_config(&ap.p("srv_p.pem"), &ap.p("srv_p.key"), None).await {
                Ok(c) => Arc::new(c),
                Err(e) => {
                    out.infra = Some(format!("make_server_config for the P-issued server: {e}"));
                    return out;
                }
            };
            match anchors_handshake(cfg, None, ap.ca_file(sc.kind), false).await {
                Err(e) => {
                    out.outcome = "hang".into();
                    out.violations.push(("client-hangs".into(), format!("client with --tls-ca = {}: {e}", kind_text(sc.kind))));
                }
                Ok(r) => {
                    let connected = r.is_none();
                    out.connected = Some(connected);
                    out.outcome = if connected { "connects".into() } else { "refused".into() };
                    out.observed.push(match &r {
                        None => "handshake completed, one byte each way".to_string(),
                        Some(why) => format!("no connection ({why})"),
                    });
                    if sc.kind == "none" {
                        // calibration: the built-in roots of this build, whatever they are
                    } else if connected && !given(sc.kind).0 {
                        out.violations.push(("client-accepts-platform-ca".into(), format!(
                            "a client started with --tls-ca = {} ({}), verification on, completed the handshake with a server whose \
                             certificate was issued by CA P; P is not in that file, it is the CA of the platform trust store \
                             (SSL_CERT_FILE)", kind_text(sc.kind), r_text(given(sc.kind)))));
                    } else if !connected && given(sc.kind).0 {
                        out.control = Some(format!("a client given CA P as --tls-ca does not reach the P-issued server: {r:?}"));
                    }
                }
            }
        }
        ASide::Start => {
            match make_tls_identity(&ap.p("srv_x.pem"), &ap.p("srv_x.key"), ap.ca_file(sc.kind).as_deref()).await {
                Err(e) => {
                    out.outcome = "refused-to-start".into();
                    out.observed.push(format!("make_tls_identity: {e}"));
                    if A_CONTROLS.contains(&sc.kind) {
                        out.control = Some(format!("no identity from a proper client CA file: {e}"));
                    }
                }
                Ok(id) => {
                    out.outcome = "starts".into();
                    let adm = admissions_of(ap, &id.load_full()).await;
                    judge_admissions(&mut out, sc, "server started with this client CA file", given(sc.kind), r_text(given(sc.kind)), adm);
                }
            }
        }
        ASide::Reload => {
            let dir = ap.dir.join(format!("reload-{}", ANCHOR_WORLDS.fetch_add(1, Ordering::SeqCst)));
            std::fs::create_dir_all(&dir).expect("anchors reload dir");
            let path = |f: &str| dir.join(f).to_str().expect("path").to_string();
            let (cert, keyp, cap) = (path("cert.pem"), path("privkey.pem"), path("client-ca.pem"));
            let ids: Vec<_> = (0..2).map(|i| leaf(&format!("anchors identity {i}"), &["localhost"], true, None, ap.alg)).collect();
            std::fs::write(&cert, &ids[0].0).expect("write cert");
            std::fs::write(&keyp, &ids[0].1).expect("write key");
            std::fs::write(&cap, ap.ca_bytes("private-ca")).expect("write client CA");
            let id = match make_tls_identity(&cert, &keyp, Some(&cap)).await {
                Ok(id) => id,
                Err(e) => {
                    out.infra = Some(format!("make_tls_identity with the proper client CA X: {e}"));
                    return out;
                }
            };
            let before = AScenario { side: sc.side, kind: "private-ca" };
            let adm = admissions_of(ap, &id.load_full()).await;
            judge_admissions(&mut out, &before, "before the reload", (false, true), r_text((false, true)), adm);
            // the file is replaced, a new certificate is in place, the identity is reloaded
            std::fs::write(&cert, &ids[1].0).expect("write cert");
            std::fs::write(&keyp, &ids[1].1).expect("write key");
            std::fs::write(&cap, ap.ca_bytes(sc.kind)).expect("write client CA");
            let reloaded = reload_tls_identity(&id, &cert, &keyp, Some(&cap)).await;
            let adm = admissions_of(ap, &id.load_full()).await;
            match reloaded {
                Err(e) => {
                    // the client CA in force is still X
                    out.outcome = "reload-refused".into();
                    out.observed.push(format!("reload_tls_identity: {e}"));
                    if A_CONTROLS.contains(&sc.kind) {
                        out.control = Some(format!("reload with a proper client CA file refused: {e}"));
                    }
                    let keep = AScenario { side: sc.side, kind: sc.kind };
                    // judged against the anchors in force before; an X client refused now is no violation
                    let mut tmp = ARun::default();
                    judge_admissions(&mut tmp, &keep, "after the refused reload", (false, true), "the reload was refused; the client CA in force is still X", adm);
                    out.violations.extend(tmp.violations);
                    out.observed.extend(tmp.observed);
                }
                Ok(()) => {
                    out.outcome = "reload-applied".into();
                    judge_admissions(&mut out, sc, "after the reload", given(sc.kind), r_text(given(sc.kind)), adm);
                }
            }
        }
        ASide::MainStart | ASide::MainReload => unreachable!("server_main scenarios run in run_anchor_main"),
    }
    out
}

/// `server_main` scenarios: the real server with `--tls-cert/--tls-key/--tls-ca`, clients over TCP.
async fn run_anchor_main(ap: &AnchorPki, sc: &AScenario, usr1: &mut tokio::signal::unix::Signal) -> ARun {
    use rusty_penguin_lib::arg::ServerArgs;
    let mut out = ARun::default();
    let dir = ap.dir.join(format!("main-{}", ANCHOR_WORLDS.fetch_add(1, Ordering::SeqCst)));
    std::fs::create_dir_all(&dir).expect("anchors main dir");
    let path = |f: &str| dir.join(f).to_str().expect("path").to_string();
    let (cert, keyp, cap) = (path("cert.pem"), path("privkey.pem"), path("client-ca.pem"));
    let ids: Vec<_> = (0..2).map(|i| leaf(&format!("anchors identity {i}"), &["localhost"], true, None, "p256")).collect();
    std::fs::write(&cert, &ids[0].0).expect("write cert");
    std::fs::write(&keyp, &ids[0].1).expect("write key");
    let start_kind = if sc.side == ASide::MainStart { sc.kind } else { "private-ca" };
    std::fs::write(&cap, ap.ca_bytes(start_kind)).expect("write client CA");
    let port = match std::net::TcpListener::bind("127.0.0.1:0").and_then(|l| l.local_addr()) {
        Ok(a) => a.port(),
        Err(e) => {
            out.infra = Some(format!("no free port: {e}"));
            return out;
        }
    };
    let args: &'static ServerArgs = Box::leak(Box::new(ServerArgs {
        host: vec!["127.0.0.1".to_string()],
        port: vec![port],
        not_found_resp: "404".to_string(),
        timeout: penguin_mux::timing::OptionalDuration::from_secs(120),
        tls_cert: Some(cert.clone()),
        tls_key: Some(keyp.clone()),
        tls_ca: Some(cap.clone()),
        ..Default::default()
    }));
    let server = tokio::spawn(rusty_penguin_lib::server::server_main(args));
    // index of the identity an anonymous client is shown (its side of a TLS 1.3 handshake completes
    // also when the server is going to refuse it for lack of a certificate)
    let shown = |port: u16| {
        let ids = &ids;
        async move {
            let io = async {
                let tcp = tokio::net::TcpStream::connect(("127.0.0.1", port)).await.ok()?;
                let s = tls_connect(tcp, "localhost", None, None, None, true).await.ok()?;
                let d = peer_leaf(&s)?;
                ids.iter().position(|l| l.2 == d)
            };
            tokio::time::timeout(Duration::from_secs(5), io).await.ok().flatten()
        }
    };
    // is a client of this kind served?  (kept open: `established`)
    async fn served(ap: &AnchorPki, port: u16, who: char) -> Result<ClientStream, String> {
        let (c, k) = ap.cli(who).unzip();
        let io = async {
            let tcp = tokio::net::TcpStream::connect(("127.0.0.1", port)).await.map_err(|e| format!("tcp: {e}"))?;
            let mut s = tls_connect(tcp, "localhost", c.as_deref(), k.as_deref(), None, true).await.map_err(|e| format!("tls_connect: {e}"))?;
            health(&mut s).await?;
            Ok::<ClientStream, String>(s)
        };
        tokio::time::timeout(Duration::from_secs(8), io).await.unwrap_or_else(|_| Err("timed out".into()))
    }
    async fn admissions(ap: &AnchorPki, port: u16) -> [Result<bool, String>; 3] {
        let mut v = vec![];
        for who in ['p', 'x', '-'] {
            v.push(Ok(served(ap, port, who).await.is_ok()));
        }
        v.try_into().expect("three")
    }
    let r_text = |g: (bool, bool)| match g {
        (true, _) => "trust anchors given: CA P",
        (_, true) => "trust anchors given: the private CA X only",
        _ => "no usable certificate in it: no trust anchor given",
    };
    // start-up: either the server comes up with identity 0 or `server_main` ends with an error
    let patience = if sc.side == ASide::MainStart && !A_CONTROLS.contains(&sc.kind) { 5 } else { 15 };
    let deadline = tokio::time::Instant::now() + Duration::from_secs(patience);
    let up = loop {
        if shown(port).await == Some(0) {
            break true;
        }
        if server.is_finished() || tokio::time::Instant::now() >= deadline {
            break false;
        }
        tokio::time::sleep(Duration::from_millis(50)).await;
    };
    if sc.side == ASide::MainStart {
        if up {
            out.outcome = "starts".into();
            let adm = admissions(ap, port).await;
            judge_admissions(&mut out, sc, "server_main started with this --tls-ca", given(sc.kind), r_text(given(sc.kind)), adm);
        } else if server.is_finished() {
            out.outcome = "refused-to-start".into();
            out.observed.push(format!("server_main ended: {:?}", server.await));
            if A_CONTROLS.contains(&sc.kind) {
                out.control = Some("server_main does not start with a proper client CA file".into());
            }
            return out;
        } else {
            out.outcome = "not-serving".into();
            out.observed.push(format!("no handshake completes within {patience} s of start-up"));
            if A_CONTROLS.contains(&sc.kind) {
                out.control = Some("server_main does not serve with a proper client CA file".into());
            }
        }
        server.abort();
        return out;
    }
    // run-time variant
    if !up {
        out.infra = Some(match server.is_finished() {
            true => format!("server_main (client CA X) ended at start-up: {:?}", server.await),
            false => "the server (client CA X) did not come up within 15 s".into(),
        });
        return out;
    }
    let before = AScenario { side: sc.side, kind: "private-ca" };
    let mut established = served(ap, port, 'x').await.ok();
    let adm = admissions(ap, port).await;
    judge_admissions(&mut out, &before, "before the SIGUSR1", (false, true), r_text((false, true)), adm);
    if established.is_none() && out.control.is_none() {
        out.control = Some("before the SIGUSR1 a client of the private CA X is not served".into());
    }
    if out.control.is_some() || !out.violations.is_empty() {
        server.abort();
        return out;
    }
    std::fs::write(&cert, &ids[1].0).expect("write cert");
    std::fs::write(&keyp, &ids[1].1).expect("write key");
    std::fs::write(&cap, ap.ca_bytes(sc.kind)).expect("write client CA");
    if let Err(e) = send_sigusr1_to_self() {
        out.infra = Some(e);
        server.abort();
        return out;
    }
    if !matches!(tokio::time::timeout(Duration::from_secs(10), usr1.recv()).await, Ok(Some(()))) {
        out.infra = Some("SIGUSR1 was sent but not delivered to this process within 10 s".into());
        server.abort();
        return out;
    }
    let t_sig = tokio::time::Instant::now();
    if A_CONTROLS.contains(&sc.kind) {
        // a proper file: the reload is applied (the signal family's business; here only as a control)
        while shown(port).await != Some(1) && t_sig.elapsed() < SIGNAL_PATIENCE {
            tokio::time::sleep(Duration::from_millis(100)).await;
        }
        if shown(port).await != Some(1) {
            out.control = Some(format!("SIGUSR1 with a proper client CA file was not applied within {} s", SIGNAL_PATIENCE.as_secs()));
        } else {
            out.outcome = "reload-applied".into();
            let adm = admissions(ap, port).await;
            judge_admissions(&mut out, sc, "after the SIGUSR1", given(sc.kind), r_text(given(sc.kind)), adm);
        }
    } else {
        // an unusable file: whatever the server makes of it, for the whole settle time no client of P
        // (and nobody without certificate) may be served
        loop {
            let p = served(ap, port, 'p').await.is_ok();
            let anon = served(ap, port, '-').await.is_ok();
            if p || anon || t_sig.elapsed() >= SIGNAL_SETTLE {
                let x = served(ap, port, 'x').await.is_ok();
                let id = shown(port).await;
                out.outcome = match (id, x) {
                    (Some(0), true) => "reload-refused/old-identity-and-client-ca-kept".into(),
                    (Some(0), false) => "reload-refused/old-identity/x-refused".into(),
                    (Some(1), _) => "reload-applied".into(),
                    _ => "no-handshake-afterwards".into(),
                };
                // after a refused reload the client CA in force is still X; after an applied one it is
                // what the file gives: nothing.  Either way neither P nor an anonymous client is covered.
                let (g, txt) = if id == Some(1) {
                    (given(sc.kind), r_text(given(sc.kind)))
                } else {
                    ((false, true), "the identity in force is still the one with client CA X")
                };
                let mut tmp = ARun::default();
                judge_admissions(&mut tmp, sc, &format!("{} ms after the SIGUSR1 (identity shown: {id:?})", t_sig.elapsed().as_millis()),
                    g, txt, [Ok(p), Ok(x), Ok(anon)]);
                out.violations.extend(tmp.violations);
                out.observed.extend(tmp.observed);
                break;
            }
            tokio::time::sleep(Duration::from_millis(100)).await;
        }
    }
    // the connection established before the signal is not disturbed
    if let Some(s) = established.as_mut() {
        if let Err(e) = health(s).await {
            out.violations.push(("established-disturbed".into(),
                format!("after the SIGUSR1 the connection of the X client established before it stopped answering: {e}")));
        }
    }
    server.abort();
    out
}

async fn run_anchor(ap: &AnchorPki, sc: &AScenario, usr1: &mut tokio::signal::unix::Signal) -> ARun {
    match sc.side {
        ASide::Client | ASide::Start | ASide::Reload => run_anchor_mem(ap, sc).await,
        ASide::MainStart | ASide::MainReload => run_anchor_main(ap, sc, usr1).await,
    }
}

/// The calibration: does a client WITHOUT `--tls-ca` reach a server whose certificate CA P issued, i.e.
/// do the built-in roots of this build come from the platform store the harness installed?
async fn anchors_calibrate(cx: &mut Ctx, ap: &AnchorPki) -> bool {
    let sc = AScenario { side: ASide::Client, kind: "none" };
    let run = run_anchor_mem(ap, &sc).await;
    cx.rep.case(Some(fnv(format!("{} [calibration]", sc.line()).as_bytes())));
    let present = run.connected == Some(true);
    cx.rep.count(if present { "anchors/platform-store=present" } else { "anchors/platform-store=absent" });
    if let Some(why) = run.infra.or_else(|| run.violations.first().map(|(_, d)| d.clone())) {
        cx.rep.fail(FailKind::Model, "anchors could-not-run :: calibration", &why, json!({"op": "anchors", "line": sc.line(), "alg": ap.alg}));
    }
    present
}

fn anchors_scenarios(tier: Tier, rng: &mut Rng) -> Vec<AScenario> {
    let mut v = vec![];
    let all: Vec<&'static str> = A_CONTROLS.into_iter().chain(UNUSABLE).collect();
    for side in [ASide::Client, ASide::Start, ASide::Reload] {
        v.extend(all.iter().map(|k| AScenario { side, kind: k }));
    }
    match tier {
        Tier::Quick => {
            // the real server_main: one start and two SIGUSR1 worlds, the kinds picked by the seed
            let a = rng.below(UNUSABLE.len() as u64) as usize;
            let b = (a + 1 + rng.below(UNUSABLE.len() as u64 - 1) as usize) % UNUSABLE.len();
            v.push(AScenario { side: ASide::MainStart, kind: UNUSABLE[b] });
            v.push(AScenario { side: ASide::MainReload, kind: UNUSABLE[a] });
            v.push(AScenario { side: ASide::MainReload, kind: UNUSABLE[b] });
        }
        Tier::Thorough => {
            for side in [ASide::MainStart, ASide::MainReload] {
                v.extend(all.iter().map(|k| AScenario { side, kind: k }));
            }
        }
    }
    v
}

async fn anchors_part(cx: &mut Ctx, ap: &AnchorPki, usr1: &mut tokio::signal::unix::Signal, scs: &[AScenario], platform_present: bool,
    done: &mut Vec<String>) {
    for sc in scs {
        let line = sc.line();
        let tail = format!("{line} [{}]", ap.alg);
        if done.contains(&tail) {
            continue;
        }
        done.push(tail.clone());
        cx.rep.case(Some(fnv(tail.as_bytes())));
        let t = std::time::Instant::now();
        let mut run = run_anchor(ap, sc, usr1).await;
        if run.infra.is_some() || run.control.is_some() || !run.violations.is_empty() {
            // once more on its own before anything is reported
            cx.rep.count("anchors/re-run");
            run = run_anchor(ap, sc, usr1).await;
        }
        cx.rep.count_n("anchors/ms", t.elapsed().as_millis() as u64);
        cx.rep.count(&format!("anchors/{}/{}/{}", sc.side.tok(),
            if UNUSABLE.contains(&sc.kind) { "unusable-file" } else { sc.kind }, run.outcome));
        let replay = json!({"op": "anchors", "line": line, "alg": ap.alg, "file": kind_text(sc.kind),
            "platform_store": if platform_present { "CA P through SSL_CERT_FILE (calibration: a client without --tls-ca reaches a P-issued server)" }
                else { "absent in this build (a client without --tls-ca does not reach a P-issued server)" },
            "outcome": run.outcome, "observed": run.observed});
        if let Some(why) = &run.infra {
            cx.rep.fail(FailKind::Model, &format!("anchors could-not-run :: {tail}"), why, replay);
            continue;
        }
        if let Some(why) = &run.control {
            cx.rep.fail(FailKind::Model, &format!("anchors control-failed :: {tail}"), why, replay.clone());
        }
        for (class, desc) in &run.violations {
            let key = if sc.side == ASide::Client { format!("anchors {class} :: {}", sc.kind) } else { format!("anchors {class} :: {} [{}]", sc.kind, sc.side.tok()) };
            cx.rep.fail(FailKind::Impl, &key, desc, replay.clone());
        }
        if run.violations.is_empty() && UNUSABLE.contains(&sc.kind) && cx.rep.samples.len() < 16
            && cx.rep.samples.iter().filter(|s| s.get("anchors").is_some()).count() < 4
        {
            cx.rep.sample(json!({"anchors": line, "outcome": run.outcome, "observed": run.observed}));
        }
    }
}

// ---------------------------------------------------------------------------------------------

fn rounds_for(args: &Args, rng: &mut Rng) -> Vec<Round> {
    let mut v = vec![Round { idx: 0, alg: "p256", intermediate: false, mismatch_on_cert: false }];
    let algs = ["p256", "p384", "ed25519", "rsa"];
    match args.tier {
        Tier::Quick => {
            // one more round whose shape the seed picks
            v.push(Round { idx: 1, alg: algs[rng.below(3) as usize], intermediate: true, mismatch_on_cert: rng.chance(1, 2) });
        }
        Tier::Thorough => {
            let mut idx = 1;
            for alg in algs {
                for intermediate in [false, true] {
                    for mismatch_on_cert in [false, true] {
                        if (alg, intermediate, mismatch_on_cert) != ("p256", false, false) {
                            v.push(Round { idx, alg, intermediate, mismatch_on_cert });
                            idx += 1;
                        }
                    }
                }
            }
        }
    }
    v
}

fn shuffle<T>(v: &mut [T], rng: &mut Rng) {
    for i in (1..v.len()).rev() {
        v.swap(i, rng.below(i as u64 + 1) as usize);
    }
}

fn base_dir() -> PathBuf {
    PathBuf::from(format!("/verif/.build/tmp/c17-{}", std::process::id()))
}

fn replay(path: &str, platform: &Platform) -> i32 {
    let text = std::fs::read_to_string(path).expect("read replay file");
    let v: Value = serde_json::from_str(&text).expect("replay json");
    let rp = if v.get("replay").is_some() { &v["replay"] } else { &v };
    let rt = tokio::runtime::Builder::new_multi_thread().worker_threads(4).enable_all().build().expect("runtime");
    let base = base_dir();
    let rc = match rp["op"].as_str() {
        Some("hs") => {
            let c = Case::from_json(&rp["case"]).expect("case");
            let r = &rp["round"];
            let alg = ["p256", "p384", "ed25519", "rsa"].into_iter().find(|a| Some(*a) == r["alg"].as_str()).unwrap_or("p256");
            let round = Round {
                idx: 0,
                alg,
                intermediate: r["intermediate"].as_bool().unwrap_or(false),
                mismatch_on_cert: r["mismatch_on_cert"].as_bool().unwrap_or(false),
            };
            let pki = Pki::generate(&base, &round);
            let obs = rt.block_on(run_case(&pki, &round, &c));
            println!("case      {}", c.model_line(&round));
            println!("impl      {obs:?}");
            println!("required  handshake {}", if c.spec_ok(&round) { "completes" } else { "fails" });
            if matches!(obs, Obs::Ok { .. }) == c.spec_ok(&round) && !matches!(obs, Obs::Other(_)) {
                println!("holds on this input");
                0
            } else {
                println!("FAILS");
                1
            }
        }
        Some("signal") => {
            let Some(sc) = rp["line"].as_str().and_then(SScenario::parse) else {
                println!("unreadable signal history");
                return 2;
            };
            let round = Round { idx: 0, alg: "p256", intermediate: false, mismatch_on_cert: false };
            let pki = Pki::generate(&base, &round);
            println!("history   {}", sc.line());
            let run = rt.block_on(async {
                // our own handler first: no SIGUSR1 can terminate this process afterwards
                let mut usr1 = tokio::signal::unix::signal(tokio::signal::unix::SignalKind::user_defined1()).expect("register SIGUSR1");
                let mut run = run_signal(&pki, &sc, &mut usr1).await;
                if run.infra.is_some() || !run.problems.is_empty() {
                    println!("first run fails; running once more");
                    run = run_signal(&pki, &sc, &mut usr1).await;
                }
                run
            });
            for (k, (valid, shown)) in run.signals.iter().enumerate() {
                println!("observed  SIGUSR1 number {}: files {}, identity presented afterwards {shown:?}", k + 1,
                    if *valid { "valid" } else { "broken" });
            }
            if let Some(why) = &run.infra {
                println!("could not run: {why}");
                2
            } else if run.problems.is_empty() {
                println!("holds on this input");
                0
            } else {
                for (k, d) in &run.problems {
                    println!("FAILS [{k}]: {d}");
                }
                1
            }
        }
        Some("resume") => {
            let Some(sc) = rp["line"].as_str().and_then(RScenario::parse) else {
                println!("unreadable resume scenario");
                return 2;
            };
            let r = &rp["round"];
            let alg = ["p256", "p384", "ed25519", "rsa"].into_iter().find(|a| Some(*a) == r["alg"].as_str()).unwrap_or("p256");
            let round = Round { idx: 0, alg, intermediate: r["intermediate"].as_bool().unwrap_or(false), mismatch_on_cert: false };
            let pki = Pki::generate(&base, &round);
            let leaves = resume_leaves(&round);
            println!("scenario  {}", sc.line());
            let mut run = rt.block_on(run_resume(&pki, &leaves, &sc));
            if run.infra.is_some() || !run.problems.is_empty() {
                println!("first run fails; running once more");
                run = rt.block_on(run_resume(&pki, &leaves, &sc));
            }
            for c in &run.conns {
                println!("observed  {}", rconn_json(c));
            }
            if let Some(why) = &run.infra {
                println!("could not run: {why}");
                2
            } else if run.problems.is_empty() {
                println!("holds on this input");
                0
            } else {
                for (k, d) in &run.problems {
                    println!("FAILS [{k}]: {d}");
                }
                1
            }
        }
        Some("anchors") => {
            let Some(sc) = rp["line"].as_str().and_then(AScenario::parse) else {
                println!("unreadable anchors scenario");
                return 2;
            };
            let alg = ["p256", "p384", "ed25519", "rsa"].into_iter().find(|a| Some(*a) == rp["alg"].as_str()).unwrap_or("p256");
            let ap = AnchorPki::generate(&base, platform, alg);
            println!("scenario  {}   (--tls-ca file: {})", sc.line(), kind_text(sc.kind));
            let (present, run) = rt.block_on(async {
                let mut usr1 = tokio::signal::unix::signal(tokio::signal::unix::SignalKind::user_defined1()).expect("register SIGUSR1");
                let cal = run_anchor_mem(&ap, &AScenario { side: ASide::Client, kind: "none" }).await;
                let mut run = run_anchor(&ap, &sc, &mut usr1).await;
                if run.infra.is_some() || run.control.is_some() || !run.violations.is_empty() {
                    println!("first run fails; running once more");
                    run = run_anchor(&ap, &sc, &mut usr1).await;
                }
                (cal.connected == Some(true), run)
            });
            println!("platform  SSL_CERT_FILE={} (CA P); a client without --tls-ca {} a P-issued server", platform.pem_path,
                if present { "reaches" } else { "does not reach" });
            println!("outcome   {}", run.outcome);
            for o in &run.observed {
                println!("observed  {o}");
            }
            if let Some(why) = run.infra.as_ref().or(run.control.as_ref()) {
                println!("could not run: {why}");
                2
            } else if run.violations.is_empty() {
                println!("holds on this input");
                0
            } else {
                for (k, d) in &run.violations {
                    println!("FAILS [{k}]: {d}");
                }
                1
            }
        }
        Some("odd") => {
            let Some(c) = OCase::from_json(rp) else {
                println!("unreadable odd-certificate case");
                return 2;
            };
            let round = Round { idx: 0, alg: alg_of_name(&c.alg), intermediate: false, mismatch_on_cert: false };
            let pki = Pki::generate(&base, &round);
            println!("case      server certificate: {} ({}); {}; --tls-skip-verify {}", c.kind, odd_text(&c.kind), c.detail(), if c.skip { "ON" } else { "off" });
            println!("required  {}", match c.required() {
                Some(true) => "the handshake completes (skip-verify: any certificate is accepted)",
                Some(false) => "the handshake is refused (not issued under the client's roots, or not valid for the requested name)",
                None if c.skip => "nothing (not judged: the unchanged client refuses this kind under skip-verify while checking the handshake signature; reported as a candidate finding)",
                None => "nothing (outcome left to rustls/webpki: issued under the client's roots and named, odd otherwise)",
            });
            let obs = rt.block_on(c.run(&pki));
            println!("impl      {obs:?}");
            println!("model     hs request `{}`", c.model_line());
            match c.problem(&obs) {
                None if matches!(obs, Obs::Other(_) | Obs::ConfigError(_) | Obs::DnsName) => {
                    println!("could not classify the outcome");
                    2
                }
                None => {
                    println!("holds on this input");
                    0
                }
                Some(why) => {
                    println!("FAILS: {why}");
                    1
                }
            }
        }
        Some("nameh") => {
            let Some(c) = HCase::from_json(rp) else {
                println!("unreadable nameh case");
                return 2;
            };
            let round = Round { idx: 0, alg: "p256", intermediate: false, mismatch_on_cert: false };
            let pki = Pki::generate(&base, &round);
            println!("case      server URL wss://{URL_HOST}:<port>/ws, --hostname {:?}, --tls-server-name {:?}, --header {:?}; the server's certificate is valid for `{}` only",
                c.hostname, c.sni, c.headers, c.cert_for);
            println!("required  SNI `{}`, handshake {}", c.want(), if c.cert_for == c.want() { "completes" } else { "is refused by the client" });
            let run = |c: &HCase| rt.block_on(name_case(&pki, c.hostname.as_deref().map(str::as_bytes), c.sni.as_deref(), &c.headers, &c.cert_for));
            let mut obs = run(&c);
            if obs.is_err() {
                println!("first run could not run; running once more");
                obs = run(&c);
            }
            match obs {
                Err(e) => {
                    println!("could not run: {e}");
                    2
                }
                Ok(obs) => {
                    println!("impl      {obs:?}");
                    match c.problem(&obs) {
                        None => {
                            println!("holds on this input");
                            0
                        }
                        Some(why) => {
                            println!("FAILS: {why}");
                            1
                        }
                    }
                }
            }
        }
        Some(op @ ("reload" | "name" | "asks")) => {
            let round = Round { idx: 0, alg: "p256", intermediate: false, mismatch_on_cert: false };
            let pki = Pki::generate(&base, &round);
            let args = Args::parse();
            let mut cx = Ctx { rep: Report::new("tls", &args, "replay"), drv: None };
            rt.block_on(async {
                match op {
                    "reload" => reload_part(&mut cx, &pki, &round).await,
                    "name" => name_part(&mut cx, &pki, &round).await,
                    _ => asks_probe(&mut cx, &pki, &round).await,
                }
            });
            for f in &cx.rep.failures {
                println!("FAILS: {} — {}", f["key"], f["desc"]);
            }
            if cx.rep.has_failures() { 1 } else { println!("holds"); 0 }
        }
        _ => {
            println!("unknown replay");
            2
        }
    };
    let _ = std::fs::remove_dir_all(&base);
    rc
}

fn main() {
    pvhf::quiet_panics();
    let args = Args::parse();
    let base = base_dir();
    // before anything else (single-threaded, no TLS configuration built yet): the platform trust store of
    // this process is CA P of the harness (see the anchors family)
    let platform = install_platform_store(&base);
    tls::init_crypto_provider().expect("install the rustls crypto provider");
    if let Some(p) = &args.replay {
        std::process::exit(replay(p, &platform));
    }
    let rule = "every combination of the property's quantifier {server cert: trusted CA/other CA/self-signed} x {name \
matches/differs} x {skip-verify} x {client cert: none/trusted CA/other CA} x {server client-CA set/not} (72) as a real \
handshake per PKI round (key algorithm, direct or via an intermediate, name mismatch on the request or on the \
certificate), plus configuration corner cases, CertificateRequest probes, the client's server-name choice (also under custom request headers: none / Host: another host / \
host: another host / an unrelated header / Host: the requested name, against a certificate for the requested name, for the header's \
host only, for the URL host only), odd server certificates under skip-verify (CA:TRUE self-signed, a root used as server \
certificate, withheld intermediate, expired, not yet valid, clientAuth-only, name-constraint violation, unknown critical extension, \
no SAN, IP-only SAN, eight intermediates, pathLen violation, bad signature; client roots platform / unrelated bundle / own root; with \
and without client certificate; must complete with skip-verify on, refused with it off whenever not issued under the client's roots \
or not named), the reload \
scenario, histories of reloads with long-lived clients that keep their TLS session store (every client-CA transition) and \
histories of SIGUSR1-driven reloads (valid and broken files) against the real server_main, and --tls-ca files without \
usable certificate (DER, TRUSTED CERTIFICATE, key only, empty, truncated) on either side with the platform trust store under the \
harness's control (client, server start, reload, server_main start and SIGUSR1); every case is non-trivial (a real handshake or configuration attempt); distinct by (round, configuration)";
    let mut cx = Ctx {
        rep: Report::new("tls", &args, rule),
        drv: args.driver.as_deref().map(|p| Driver::spawn(p, &[]).expect("start Lean driver")),
    };
    let mut rng = Rng::new(args.seed);
    let rt = tokio::runtime::Builder::new_multi_thread().worker_threads(4).enable_all().build().expect("runtime");
    let rounds = rounds_for(&args, &mut rng);
    let mut platform_present = false;
    let t0 = std::time::Instant::now();
    rt.block_on(async {
        // before any SIGUSR1 can be sent: a handler of our own (see the signal family)
        let mut usr1 = tokio::signal::unix::signal(tokio::signal::unix::SignalKind::user_defined1()).expect("register SIGUSR1");
        let mut signal_done: Vec<String> = vec![];
        // the anchors family: its PKI (under the platform CA P and a private CA X) and its calibration
        let ap = AnchorPki::generate(&base, &platform, "p256");
        platform_present = anchors_calibrate(&mut cx, &ap).await;
        let mut anchors_done: Vec<String> = vec![];
        // corpus first: `hs <json case>` lines, run on the PKI of round 0
        let corpus = pvhf::corpus_files(args.corpus.as_deref());
        if !corpus.is_empty() {
            let pki = Pki::generate(&base.join("corpus"), &rounds[0]);
            for (_name, text) in corpus {
                let cases: Vec<Case> = text
                    .lines()
                    .filter_map(|l| l.strip_prefix("hs "))
                    .filter_map(|j| serde_json::from_str::<Value>(j).ok())
                    .filter_map(|v| Case::from_json(&v))
                    .collect();
                cx.eval_cases(&pki, &rounds[0], &cases).await;
                // `nameh <json case>` lines: the client's server name under custom request headers
                let hcs: Vec<HCase> = text
                    .lines()
                    .filter_map(|l| l.strip_prefix("nameh "))
                    .filter_map(|j| serde_json::from_str::<Value>(j).ok())
                    .filter_map(|v| HCase::from_json(&v))
                    .collect();
                nameh_part(&mut cx, &pki, &rounds[0], &hcs).await;
                // `odd <json case>` lines: odd server certificates with skip-verify on / off
                let ocs: Vec<OCase> = text
                    .lines()
                    .filter_map(|l| l.strip_prefix("odd "))
                    .filter_map(|j| serde_json::from_str::<Value>(j).ok())
                    .filter_map(|v| OCase::from_json(&v))
                    .collect();
                odd_part(&mut cx, &pki, &rounds[0], &ocs).await;
                // `resume …` lines: returning-client scenarios
                let rscs: Vec<RScenario> = text.lines().filter_map(RScenario::parse).collect();
                if !rscs.is_empty() {
                    let leaves = resume_leaves(&rounds[0]);
                    resume_part(&mut cx, &pki, &rounds[0], &leaves, &rscs).await;
                }
                // `signal …` lines: SIGUSR1 histories against the real `server_main`
                let sscs: Vec<SScenario> = text.lines().filter_map(SScenario::parse).collect();
                signal_part(&mut cx, &pki, &mut usr1, &sscs, &mut signal_done).await;
                // `anchors …` lines: trust anchors exactly as given
                let ascs: Vec<AScenario> = text.lines().filter_map(AScenario::parse).collect();
                anchors_part(&mut cx, &ap, &mut usr1, &ascs, platform_present, &mut anchors_done).await;
            }
        }
        for round in &rounds {
            let pki = Pki::generate(&base, round);
            let mut cases = matrix();
            assert_eq!(cases.len(), 72);
            shuffle(&mut cases, &mut rng);
            cx.eval_cases(&pki, round, &cases).await;
            let mut ex = extras();
            shuffle(&mut ex, &mut rng);
            cx.eval_cases(&pki, round, &ex).await;
            asks_probe(&mut cx, &pki, round).await;
            if round.idx == 0 || args.tier == Tier::Thorough {
                name_part(&mut cx, &pki, round).await;
                // the same choice under custom request headers: a handful in quick, the whole matrix in thorough
                let hcs = nameh_cases(args.tier == Tier::Quick, &mut rng);
                nameh_part(&mut cx, &pki, round, &hcs).await;
                // odd server certificates under skip-verify: a handful in quick, all of them in thorough
                let ocs = odd_cases(args.tier == Tier::Quick, round.alg, &mut rng);
                odd_part(&mut cx, &pki, round, &ocs).await;
                reload_part(&mut cx, &pki, round).await;
                // returning clients: the fixed family (all policy transitions) plus seeded histories
                let leaves = resume_leaves(round);
                let mut rscs = resume_fixed();
                let n_random = match args.tier {
                    Tier::Quick => 6,
                    Tier::Thorough => 10,
                };
                rscs.extend((0..n_random).map(|_| resume_random(&mut rng)));
                resume_part(&mut cx, &pki, round, &leaves, &rscs).await;
            }
            if round.idx == 0 {
                // SIGUSR1 histories against the real `server_main` (one world, sequential; the signal is
                // process-wide): two short ones in quick, the whole family plus seeded ones in thorough
                let mut sscs = signal_fixed(args.tier);
                if args.tier == Tier::Thorough {
                    sscs.extend((0..8).map(|_| signal_random(&mut rng)));
                }
                signal_part(&mut cx, &pki, &mut usr1, &sscs, &mut signal_done).await;
                // trust anchors exactly as given: every file kind x {client, server start, server reload}
                // in memory, the real `server_main` (start and SIGUSR1) for a few kinds in quick and for
                // all of them in thorough; thorough repeats the in-memory part with another key algorithm
                let ascs = anchors_scenarios(args.tier, &mut rng);
                anchors_part(&mut cx, &ap, &mut usr1, &ascs, platform_present, &mut anchors_done).await;
                if args.tier == Tier::Thorough {
                    for alg in ["p384", "ed25519", "rsa"] {
                        let ap2 = AnchorPki::generate(&base, &platform, alg);
                        let mem: Vec<AScenario> = ascs.iter().filter(|s| matches!(s.side, ASide::Client | ASide::Start | ASide::Reload)).cloned().collect();
                        anchors_part(&mut cx, &ap2, &mut usr1, &mem, platform_present, &mut anchors_done).await;
                    }
                }
            }
            cx.rep.count(&format!("round/{}{}{}", round.alg, if round.intermediate { "+intermediate" } else { "" },
                if round.mismatch_on_cert { "+san-mismatch" } else { "" }));
        }
    });
    // the 72-combination matrix is the whole quantifier and was enumerated completely in every round
    cx.rep.exhaustive = true;
    cx.rep.notes.push(format!(
        "{} PKI round(s) x (72-case matrix + {} corner cases + probes); run time {:.1}s; X.509 path validation and the \
handshake are rustls/webpki (trusted), the model covers the configuration decisions",
        rounds.len(),
        extras().len(),
        t0.elapsed().as_secs_f64()
    ));
    cx.rep.notes.push(format!(
        "anchors family (oracle only, not sent to the model): the platform trust store of this process is the harness CA P \
(SSL_CERT_FILE={}, SSL_CERT_DIR=empty directory, set before any TLS configuration is built); calibration: a client without \
--tls-ca {} a server whose certificate P issued, so the build's platform root source is {}; a --tls-ca file without usable \
certificate ({}) must give no trust anchor at all: such a client never reaches the P-issued server, such a server (start, \
reload_tls_identity, server_main start, server_main + SIGUSR1) never serves a client presenting a P-issued certificate",
        platform.pem_path,
        if platform_present { "reaches" } else { "does NOT reach" },
        if platform_present { "present and under the harness's control" } else { "ABSENT: a fall-back to the platform store cannot be observed in this build" },
        UNUSABLE.join(", ")
    ));
    cx.rep.notes.push(format!(
        "odd-certificate family: kinds {}; with skip-verify on every kind must be accepted (judged, and compared with the model) except {}: \
run and counted but NOT judged, because the unchanged client refuses it even under skip-verify (EmptyVerifier::verify_tls13_signature -> \
rustls::crypto::verify_tls13_signature parses the end-entity certificate with webpki, which rejects an unknown critical extension); \
penguin's make_server_config refuses to load that certificate too, so those cases run against a rustls server configured by the harness; \
with skip-verify off a case is judged only when the certificate is not issued under the client's roots or does not carry the requested name",
        ODD_KINDS.join(", "),
        ODD_NOT_JUDGED_UNDER_SKIP.join(", ")
    ));
    if let Some(d) = &cx.drv {
        cx.rep.notes.push(format!("driver lines: {}", d.lines));
    }
    let _ = std::fs::remove_dir_all(&base);
    cx.rep.finish(&args);
    std::process::exit(i32::from(cx.rep.has_failures()));
}
