//! The client's two UDP maps under tokio's paused clock: the real `HandlerResources` (public
//! `create`, `add_udp_client`; pruning through the real `prune_client_id_map_task` inside
//! `client_main_inner`; contents read through the public `Debug` implementation) against the Lean
//! model `Penguin.UdpMap` (drv_udpmap).  `send_datagram_reply` is private and is exercised end to
//! end only (udp.rs).

use crate::world::{maps_consistent, parse_maps, pick_port, MapsSnapshot};
use penguin_mux::timing::OptionalDuration;
use pvhf::{Driver, FailKind, Report, Rng, json};
use rusty_penguin_lib::arg::{ClientArgs, Remote, ServerUrl};
use rusty_penguin_lib::client::{HandlerResources, client_main_inner};
use std::net::SocketAddr;
use std::str::FromStr;
use std::sync::Arc;
use std::time::Duration;
use tokio::net::{TcpListener, UdpSocket};

pub fn enc(a: SocketAddr) -> u64 {
    match a {
        SocketAddr::V4(a) => (u64::from(u32::from(*a.ip())) << 16) | u64::from(a.port()),
        SocketAddr::V6(a) => (1u64 << 60) | (pvhf::fnv(&a.ip().octets()) & 0xFFFF_FFFF) << 16 | u64::from(a.port()),
    }
}

#[derive(Clone, Debug)]
pub enum MOp {
    Add { peer: u16, sock: usize, s5: bool },
    Wait { ms: u64 },
}

pub fn gen_ops(r: &mut Rng, n: usize) -> Vec<MOp> {
    let mut v = vec![];
    for _ in 0..n {
        if r.chance(3, 5) {
            v.push(MOp::Add { peer: 5000 + r.below(5) as u16, sock: r.below(3) as usize, s5: r.chance(1, 2) });
        } else {
            v.push(MOp::Wait { ms: *r.pick(&[2u64, 500, 3000, 5000, 9998, 10000, 10002, 12000, 20000]) });
        }
    }
    v
}

pub fn ops_text(ops: &[MOp]) -> String {
    ops.iter()
        .map(|o| match o {
            MOp::Add { peer, sock, s5 } => format!("add:{peer}:{sock}:{}", u8::from(*s5)),
            MOp::Wait { ms } => format!("wait:{ms}"),
        })
        .collect::<Vec<_>>()
        .join(" ")
}

pub fn parse_ops(s: &str) -> Option<Vec<MOp>> {
    s.split_whitespace()
        .map(|t| {
            let p: Vec<&str> = t.split(':').collect();
            match p.as_slice() {
                ["add", peer, sock, s5] => Some(MOp::Add { peer: peer.parse().ok()?, sock: sock.parse().ok().filter(|n| *n < 3)?, s5: *s5 == "1" }),
                ["wait", ms] => Some(MOp::Wait { ms: ms.parse().ok().filter(|n| n % 2 == 0)? }),
                _ => None,
            }
        })
        .collect()
}

fn dump_of(m: &MapsSnapshot, socks: &[SocketAddr]) -> String {
    let ids: Vec<String> = m
        .ids
        .iter()
        .map(|(id, p, o, s5)| format!("{id}:{}:{}:{}:{}", enc(*p), enc(*o), socks.iter().position(|s| s == o).map_or(99, |x| x), u8::from(*s5)))
        .collect();
    let addrs: Vec<String> = m.addrs.iter().map(|((p, o), id)| format!("{}:{}:{id}", enc(*p), enc(*o))).collect();
    let f = |v: Vec<String>| if v.is_empty() { "-".to_string() } else { v.join(";") };
    format!("ids={} addrs={}", f(ids), f(addrs))
}

/// Returns the number of operations compared. Failures go to `rep`.
pub fn run_maps(ops: &[MOp], drv: Option<&mut Driver>, rep: &mut Report) -> usize {
    let rt = tokio::runtime::Builder::new_current_thread().enable_all().start_paused(true).build().expect("runtime");
    let text = ops_text(ops);
    let replay = json!({"op": "maps", "ops": text});
    // run the real thing first, collecting (model request, expected response, snapshot) per step
    let trace: Result<Vec<(String, String)>, String> = rt.block_on(async {
        let blackhole = TcpListener::bind("127.0.0.1:0").await.map_err(|e| e.to_string())?;
        let port = pick_port();
        let args: &'static ClientArgs = Box::leak(Box::new(ClientArgs {
            server: ServerUrl::from_str(&format!("ws://{}/ws", blackhole.local_addr().unwrap())).map_err(|e| e.to_string())?,
            remote: vec![Remote::from_str(&format!("127.0.0.1:{port}:127.0.0.1:9/udp")).map_err(|e| e.to_string())?],
            keepalive: OptionalDuration::NONE,
            max_retry_count: 0,
            max_retry_interval: 3_600_000,
            handshake_timeout: OptionalDuration::NONE,
            channel_timeout: OptionalDuration::NONE,
            ..Default::default()
        }));
        let (hr, scrx, dgrx) = HandlerResources::create();
        let hr: &'static HandlerResources = Box::leak(Box::new(hr));
        let t0 = tokio::time::Instant::now();
        let client = tokio::spawn(client_main_inner(args, hr, scrx, dgrx));
        for _ in 0..50 {
            tokio::task::yield_now().await;
        }
        if tokio::time::Instant::now() != t0 {
            return Err("the paused clock moved during start-up".into());
        }
        let mut socks = vec![];
        for _ in 0..3 {
            socks.push(Arc::new(UdpSocket::bind("127.0.0.1:0").await.map_err(|e| e.to_string())?));
        }
        let sock_addrs: Vec<SocketAddr> = socks.iter().map(|s| s.local_addr().unwrap()).collect();
        let mut out: Vec<(String, String)> = vec![("reset".into(), "ok".into())];
        let mut now: u64 = 1; // odd, so that no operation coincides with a prune tick (multiples of 10 s)
        let mut ticks_done: u64 = 0; // the tick at 0 ran on an empty map
        tokio::time::sleep_until(t0 + Duration::from_millis(now)).await;
        let snapshot = |out: &mut Vec<(String, String)>| -> Result<(), String> {
            let m = parse_maps(&format!("{hr:?}"))?;
            maps_consistent(&m).map_err(|e| format!("INCONSISTENT {e}"))?;
            out.push(("dump".into(), dump_of(&m, &sock_addrs)));
            Ok(())
        };
        for op in ops {
            match op {
                MOp::Wait { ms } => {
                    now += ms;
                    tokio::time::sleep_until(t0 + Duration::from_millis(now)).await;
                    // let the prune task finish its turn if it was woken together with us
                    for _ in 0..5 {
                        tokio::task::yield_now().await;
                    }
                    while (ticks_done + 1) * 10_000 < now {
                        ticks_done += 1;
                        // what it removed is seen in the next dump
                        out.push((format!("prune {}", ticks_done * 10_000), "*".into()));
                    }
                    snapshot(&mut out)?;
                }
                MOp::Add { peer, sock, s5 } => {
                    let peer_addr = SocketAddr::from(([127, 0, 0, 1], *peer));
                    let id = hr.add_udp_client(peer_addr, socks[*sock].clone(), *s5);
                    out.push((
                        format!("add {now} {} {} {sock} {} {id}", enc(peer_addr), enc(sock_addrs[*sock]), u8::from(*s5)),
                        format!("id {id}"),
                    ));
                    snapshot(&mut out)?;
                }
            }
        }
        if client.is_finished() {
            return Err("client_main_inner ended during the run".into());
        }
        client.abort();
        Ok(out)
    });
    rt.shutdown_timeout(Duration::from_millis(100));
    let trace = match trace {
        Ok(t) => t,
        Err(e) if e.starts_with("INCONSISTENT") => {
            rep.fail(FailKind::Impl, "maps:inconsistent", &format!("the client's two UDP maps are inconsistent: {e}"), replay);
            return 0;
        }
        Err(e) => {
            rep.notes.push(format!("maps: infrastructure problem, sequence skipped: {e}"));
            return 0;
        }
    };
    let Some(drv) = drv else { return trace.len() };
    let reqs: Vec<String> = trace.iter().map(|(q, _)| q.clone()).collect();
    let resp = drv.batch(&reqs);
    for (i, ((q, want), got)) in trace.iter().zip(resp.iter()).enumerate() {
        if want != "*" && want != got {
            rep.fail(
                FailKind::Model,
                &format!("maps:{}", q.split_whitespace().next().unwrap_or("?")),
                &format!("step {i} `{q}`: implementation `{want}`, model `{got}`"),
                json!({"op": "maps", "ops": text, "step": i, "request": q, "impl": want, "model": got}),
            );
            break;
        }
    }
    trace.len()
}
