//! "Several remotes on one client": ONE real client configured with 1-4 remotes drawn from fixed TCP remote,
//! fixed UDP remote, SOCKS, HTTP proxy and Unix socket, in a given order on its command line, on local hosts
//! 127.0.0.1 / [::1] / 0.0.0.0 and on port numbers that remotes may SHARE wherever the operating system lets
//! them: a TCP listener and a UDP socket on one (host, port) -- TCP and UDP ports are separate name spaces, the
//! way one forwards a service that speaks both (`5353:target:53 5353:target:53/udp`) --, and any two sockets on
//! one port number of different local hosts (127.0.0.1 and ::1; 0.0.0.0 and ::1).  Every other world of this
//! harness gives its client one remote per entry point kind, each on a port number of its own.
//!
//! EVERY remote of the client is then exercised with an ordinary scenario of its entry point kind (`TcpScn` /
//! `UdpScn`: the same scripts, the same monitors: bytes unmodified, complete, in order, end-of-stream and
//! close propagated, replies at the client that sent the request), one after the other or all at the same time.
//! A remote on which nothing listens although the client is up and running (`World::start_multi`) is a
//! violation with a key of its own: the entry point the command line asks for does not exist, so nothing
//! sent to it "behaves like a direct connection to the target".
//!
//! Port numbers are symbolic in the scenario text (`a`, `b`, ..: remotes with the same letter get the same
//! number); the numbers themselves are found free at run time, so a scenario line replays anywhere.

use crate::io::Chunk;
use crate::tcp::{check_conn, run_conn, ConnObs, Entry, Mode, TcpScn};
use crate::udp::{run_udp, UdpOutcome, UdpScn};
use crate::world::{PlanKind, PlanRemote, World, SLOTS, UDP_TARGETS};
use pvhf::{Rng, Tier};
use std::net::{IpAddr, Ipv4Addr, Ipv6Addr};
use std::sync::atomic::Ordering;
use std::sync::Arc;
use std::time::{Duration, Instant};

#[derive(Clone, Copy, Debug, PartialEq, Eq)]
pub enum MKind {
    Tcp,
    Udp,
    Socks,
    Http,
    Unix,
}

pub const MKINDS: [MKind; 5] = [MKind::Tcp, MKind::Udp, MKind::Socks, MKind::Http, MKind::Unix];

impl MKind {
    pub fn text(self) -> &'static str {
        match self {
            MKind::Tcp => "tcp",
            MKind::Udp => "udp",
            MKind::Socks => "socks",
            MKind::Http => "http",
            MKind::Unix => "unix",
        }
    }
    /// as in the keys of the other families
    pub fn long(self) -> &'static str {
        match self {
            MKind::Tcp => "tcp-remote",
            MKind::Udp => "udp-remote",
            MKind::Socks => "socks",
            MKind::Http => "http-proxy",
            MKind::Unix => "unix-socket",
        }
    }
    fn parse(s: &str) -> Option<Self> {
        MKINDS.iter().copied().find(|k| k.text() == s)
    }
    /// which of the two port name spaces its listener lives in
    fn is_udp(self) -> bool {
        self == MKind::Udp
    }
}

#[derive(Clone, Copy, Debug, PartialEq, Eq)]
pub enum MHost {
    V4,
    V6,
    Any,
}

pub const MHOSTS: [MHost; 3] = [MHost::V4, MHost::V6, MHost::Any];

impl MHost {
    pub fn text(self) -> &'static str {
        match self {
            MHost::V4 => "v4",
            MHost::V6 => "v6",
            MHost::Any => "any",
        }
    }
    fn parse(s: &str) -> Option<Self> {
        MHOSTS.iter().copied().find(|k| k.text() == s)
    }
    /// LOCAL_HOST as written in the remote specification
    fn spec_text(self) -> &'static str {
        match self {
            MHost::V4 => "127.0.0.1",
            MHost::V6 => "[::1]",
            MHost::Any => "0.0.0.0",
        }
    }
    /// where a local client reaches it
    fn reach(self) -> IpAddr {
        match self {
            MHost::V6 => IpAddr::V6(Ipv6Addr::LOCALHOST),
            _ => IpAddr::V4(Ipv4Addr::LOCALHOST),
        }
    }
    /// two sockets of one protocol cannot both have the port on these hosts
    fn overlaps(self, o: MHost) -> bool {
        self == o || (self != MHost::V6 && o != MHost::V6)
    }
}

#[derive(Clone, Copy, Debug, PartialEq, Eq)]
pub struct MRemote {
    pub kind: MKind,
    pub host: MHost,
    /// remotes of one group have the same port number (0 = `a`)
    pub group: u8,
}

impl MRemote {
    pub fn text(&self) -> String {
        if self.kind == MKind::Unix {
            "unix".into()
        } else {
            format!("{}@{}:{}", self.kind.text(), self.host.text(), (b'a' + self.group) as char)
        }
    }
    fn parse(s: &str) -> Option<Self> {
        if s == "unix" {
            return Some(MRemote { kind: MKind::Unix, host: MHost::V4, group: 255 });
        }
        let (k, rest) = s.split_once('@')?;
        let (h, g) = rest.split_once(':')?;
        let g = g.as_bytes();
        if g.len() != 1 || !(b'a'..=b'h').contains(&g[0]) {
            return None;
        }
        let kind = MKind::parse(k).filter(|k| *k != MKind::Unix)?;
        Some(MRemote { kind, host: MHost::parse(h)?, group: g[0] - b'a' })
    }
    fn inet(&self) -> bool {
        self.kind != MKind::Unix
    }
    /// both want the same socket address in the same name space
    fn collides(&self, o: &MRemote) -> bool {
        self.inet() && o.inet() && self.group == o.group && self.kind.is_udp() == o.kind.is_udp() && self.host.overlaps(o.host)
    }
}

#[derive(Clone, Debug, PartialEq, Eq)]
pub enum Sub {
    Tcp(TcpScn),
    Udp(UdpScn),
}

impl Sub {
    fn line(&self) -> String {
        match self {
            Sub::Tcp(s) => s.line(),
            Sub::Udp(s) => s.line(),
        }
    }
}

#[derive(Clone, Debug, PartialEq, Eq)]
pub struct MultiScn {
    /// the client's remotes, in the order of its command line
    pub remotes: Vec<MRemote>,
    /// (index of the remote, the scenario run through it); at most one TCP and one UDP scenario per remote
    pub subs: Vec<(usize, Sub)>,
    /// all scenarios at the same time (the UDP ones among themselves one after the other: they share the echo
    /// targets' reply count); otherwise one after the other in the order given
    pub together: bool,
}

fn entry_fits(kind: MKind, e: Entry) -> bool {
    match kind {
        MKind::Tcp => e == Entry::Tcp,
        MKind::Unix => e == Entry::Uds,
        MKind::Socks => matches!(e, Entry::Socks4 | Entry::Socks4a | Entry::Socks5V4 | Entry::Socks5V6 | Entry::Socks5Dom),
        MKind::Http => matches!(e, Entry::HttpV4 | Entry::HttpV6 | Entry::HttpDom),
        MKind::Udp => false,
    }
}

impl MultiScn {
    pub fn remotes_text(&self) -> String {
        self.remotes.iter().map(MRemote::text).collect::<Vec<_>>().join(",")
    }
    pub fn line(&self) -> String {
        let mut l = format!("multi remotes={} together={}", self.remotes_text(), u8::from(self.together));
        for (i, s) in &self.subs {
            l.push_str(&format!(" ;; {i}: {}", s.line()));
        }
        l
    }
    pub fn parse(line: &str) -> Option<Self> {
        let mut parts = line.split(";;").map(str::trim);
        let mut head = parts.next()?.split_whitespace();
        if head.next()? != "multi" {
            return None;
        }
        let mut sc = MultiScn { remotes: vec![], subs: vec![], together: false };
        for kv in head {
            let (k, v) = kv.split_once('=')?;
            match k {
                "remotes" => sc.remotes = v.split(',').map(MRemote::parse).collect::<Option<Vec<_>>>()?,
                "together" => sc.together = v == "1",
                _ => return None,
            }
        }
        for p in parts {
            let (i, rest) = p.split_once(':')?;
            let i: usize = i.trim().parse().ok()?;
            let rest = rest.trim();
            let sub = if rest.starts_with("udp") { Sub::Udp(UdpScn::parse(rest)?) } else { Sub::Tcp(TcpScn::parse(rest)?) };
            sc.subs.push((i, sub));
        }
        sc.valid().ok()?;
        Some(sc)
    }
    /// the UDP remote `i` forwards to the world's UDP target number ..: the UDP remotes in their order
    fn udp_target(&self, i: usize) -> usize {
        self.remotes[..i].iter().filter(|r| r.kind == MKind::Udp).count()
    }
    pub fn valid(&self) -> Result<(), String> {
        let n = self.remotes.len();
        if n == 0 || n > SLOTS {
            return Err(format!("1 .. {SLOTS} remotes"));
        }
        let count = |k: MKind| self.remotes.iter().filter(|r| r.kind == k).count();
        if count(MKind::Socks) > 1 || count(MKind::Http) > 1 || count(MKind::Udp) > UDP_TARGETS {
            return Err("at most one SOCKS, one HTTP and three UDP remotes (what a world has targets and fields for)".into());
        }
        for (i, a) in self.remotes.iter().enumerate() {
            for b in &self.remotes[i + 1..] {
                if a.collides(b) {
                    return Err(format!("{} and {} want the same socket address: that client would not start", a.text(), b.text()));
                }
            }
        }
        if self.subs.iter().any(|(j, _)| *j >= n) {
            return Err("scenario for a remote that is not there".into());
        }
        for (i, r) in self.remotes.iter().enumerate() {
            let mine: Vec<&Sub> = self.subs.iter().filter(|(j, _)| *j == i).map(|(_, s)| s).collect();
            if mine.is_empty() {
                return Err(format!("remote {i} is not exercised"));
            }
            if mine.iter().filter(|s| matches!(s, Sub::Tcp(_))).count() > 1 || mine.iter().filter(|s| matches!(s, Sub::Udp(_))).count() > 1 {
                return Err(format!("remote {i}: at most one TCP and one UDP scenario"));
            }
            for s in mine {
                match s {
                    Sub::Tcp(t) => {
                        if !entry_fits(r.kind, t.entry) {
                            return Err(format!("remote {i} ({}) cannot carry `{}`", r.text(), t.entry.text()));
                        }
                        if t.mode == Mode::Refuse && !t.entry.has_handshake() {
                            return Err("a fixed remote of this family always has a listening target".into());
                        }
                    }
                    Sub::Udp(u) => {
                        if u.idle_ms > 0 || u.oneway.is_some() {
                            return Err("no waiting scenarios in this family".into());
                        }
                        match r.kind {
                            MKind::Udp => {
                                if u.socks || u.targets != [self.udp_target(i)] {
                                    return Err(format!("remote {i} ({}) forwards to UDP target {} only", r.text(), self.udp_target(i)));
                                }
                            }
                            MKind::Socks => {
                                let v6 = u.targets.iter().filter(|t| **t == 2).count();
                                if !u.socks || u.targets.is_empty() || (v6 != 0 && v6 != u.targets.len()) {
                                    return Err("a SOCKS5 association of this family talks to targets of one address family".into());
                                }
                            }
                            _ => return Err(format!("remote {i} ({}) carries no datagrams", r.text())),
                        }
                    }
                }
            }
        }
        Ok(())
    }
    fn plan(&self) -> Vec<PlanRemote> {
        self.remotes
            .iter()
            .enumerate()
            .map(|(i, r)| PlanRemote {
                kind: match r.kind {
                    MKind::Tcp => PlanKind::Tcp,
                    MKind::Unix => PlanKind::Unix,
                    MKind::Socks => PlanKind::Socks,
                    MKind::Http => PlanKind::Http,
                    MKind::Udp => PlanKind::Udp { udp_target: self.udp_target(i) },
                },
                host_text: r.host.spec_text(),
                reach: r.host.reach(),
                group: r.group,
            })
            .collect()
    }
    /// The same client with only the remotes `keep` (ascending), exercised in the same way.
    pub fn restrict(&self, keep: &[usize]) -> MultiScn {
        let mut out = MultiScn { remotes: keep.iter().map(|i| self.remotes[*i]).collect(), subs: vec![], together: self.together };
        for (i, s) in &self.subs {
            let Some(ni) = keep.iter().position(|k| k == i) else { continue };
            let mut s = s.clone();
            if let (Sub::Udp(u), MKind::Udp) = (&mut s, self.remotes[*i].kind) {
                u.targets = vec![out.udp_target(ni)];
            }
            out.subs.push((ni, s));
        }
        out
    }
    /// Smaller clients that may fail in the same way: the failing remote with one other remote (those on its own
    /// port number first), order kept.
    pub fn shrink_candidates(&self, failing: &[usize]) -> Vec<MultiScn> {
        let mut v: Vec<MultiScn> = vec![];
        if self.remotes.len() <= 2 {
            return v;
        }
        for f in failing {
            let mut others: Vec<usize> = (0..self.remotes.len()).filter(|o| o != f).collect();
            others.sort_by_key(|o| !(self.remotes[*o].inet() && self.remotes[*f].inet() && self.remotes[*o].group == self.remotes[*f].group));
            for o in others {
                let c = self.restrict(&[o.min(*f), o.max(*f)]);
                if c.valid().is_ok() && !v.contains(&c) {
                    v.push(c);
                }
            }
        }
        v.truncate(3);
        v
    }
    /// The distribution buckets of the remote-set shape.
    pub fn buckets(&self) -> Vec<String> {
        let fam = "multi-remote";
        let mut b = vec![format!("{fam}/remotes-{}", self.remotes.len())];
        b.push(format!("{fam}/exercised/{}", if self.together { "all-remotes-at-the-same-time" } else { "one-remote-after-the-other" }));
        for r in &self.remotes {
            b.push(format!("{fam}/kind/{}", r.kind.long()));
            if r.inet() {
                b.push(format!("{fam}/local-host/{}", r.host.spec_text()));
            }
        }
        let mut shared = false;
        for (i, x) in self.remotes.iter().enumerate() {
            for y in &self.remotes[i + 1..] {
                if x.inet() && y.inet() && x.group == y.group {
                    shared = true;
                    let hosts = if x.host == y.host { "same-local-host".to_string() } else { format!("{}-and-{}", x.host.spec_text(), y.host.spec_text()) };
                    b.push(format!("{fam}/same-port-number/{}-then-{}/{hosts}", x.kind.long(), y.kind.long()));
                    if x.host == y.host {
                        b.push(format!("{fam}/one-local-address-tcp-and-udp/{}-first", if x.kind.is_udp() { "udp" } else { "tcp" }));
                    }
                }
            }
        }
        if !shared {
            b.push(format!("{fam}/every-remote-on-a-port-number-of-its-own"));
        }
        for (i, s) in &self.subs {
            b.push(match s {
                Sub::Tcp(t) => format!("{fam}/through/{}/{}", self.remotes[*i].kind.long(), t.entry.text()),
                Sub::Udp(u) => format!("{fam}/through/{}/udp-{}-clients-{}", self.remotes[*i].kind.long(), if u.socks { "association" } else { "datagrams" }, u.clients),
            });
            if let Sub::Tcp(t) = s {
                b.push(format!("{fam}/tcp-mode/{}", t.mode.text()));
            }
        }
        b
    }
}

#[derive(Debug)]
pub enum SubOut {
    Tcp(ConnObs),
    Udp(UdpOutcome),
    /// nothing listens on the remote (reported as such): no traffic was tried
    Skipped,
}

#[derive(Debug, Default)]
pub struct MultiOutcome {
    pub infra: Option<String>,
    /// the remote specifications the client was given
    pub specs: Vec<String>,
    pub never_opened: Vec<(usize, String)>,
    pub subs: Vec<(usize, SubOut)>,
    pub unexpected: usize,
    /// the client ended at start-up in every one of four worlds, each with fresh port numbers / while the scenarios ran
    pub ended_at_start: Option<String>,
    pub ended: Option<String>,
    pub warm_up: String,
}

fn echo_one_byte(entry: Entry) -> TcpScn {
    TcpScn { entry, mode: Mode::Echo, up: 1, down: 0, upc: Chunk::Whole, downc: Chunk::Whole, slow_ms: 0, seed: 1, rcvbuf: 0, pace_ms: 0, early: 0, hello_joined: false, split: vec![] }
}

/// One byte / one datagram through the tunnel by way of the first remote that is there: waits for the client's
/// connection to the server (datagrams sent earlier would be lost, legitimately).  The result is not judged:
/// whatever is wrong with that remote shows in its own scenario.
async fn warm_up(w: &Arc<World>, sc: &MultiScn) -> String {
    let open = |i: usize| !w.never_opened.iter().any(|(j, _)| *j == i);
    let first = (0..sc.remotes.len()).filter(|i| open(*i)).min_by_key(|i| sc.remotes[*i].kind.is_udp());
    let Some(i) = first else { return "no remote to warm up through".into() };
    match sc.remotes[i].kind {
        MKind::Udp => {
            let t = sc.udp_target(i);
            let Ok(sock) = tokio::net::UdpSocket::bind(w.udp_client_bind(false, &[t])).await else { return "bind failed".into() };
            let deadline = Instant::now() + Duration::from_secs(15);
            let mut buf = [0u8; 64];
            while Instant::now() < deadline {
                let _ = sock.send_to(b"warm-up-datagram", w.udp_remote_addr(t)).await;
                if tokio::time::timeout(Duration::from_millis(100), sock.recv_from(&mut buf)).await.is_ok_and(|r| r.is_ok()) {
                    return format!("a datagram through remote {i} was answered after {} ms", w.client_started.elapsed().as_millis());
                }
            }
            format!("no datagram through remote {i} was answered in 15 s")
        }
        k => {
            let entry = match k {
                MKind::Tcp => Entry::Tcp,
                MKind::Unix => Entry::Uds,
                MKind::Socks => Entry::Socks5V4,
                _ => Entry::HttpV4,
            };
            let s = echo_one_byte(entry);
            let o = run_conn(w.clone(), i, s.clone()).await;
            let bad = check_conn(&s, &o);
            if bad.is_empty() {
                format!("one byte echoed through remote {i} after {} ms", w.client_started.elapsed().as_millis())
            } else {
                format!("through remote {i}: {}", bad[0].1)
            }
        }
    }
}

pub async fn run_multi(sc: &MultiScn) -> MultiOutcome {
    let mut out = MultiOutcome::default();
    if let Err(e) = sc.valid() {
        out.infra = Some(format!("not a scenario of this family: {e}"));
        return out;
    }
    let plan = sc.plan();
    let (mut world, mut last, mut ended) = (None, String::new(), 0);
    for _ in 0..4 {
        match World::start_multi(&plan).await {
            Ok(w) => {
                world = Some(w);
                break;
            }
            Err(e) => {
                ended += usize::from(e.starts_with("CLIENT-ENDED-AT-START-UP"));
                last = e;
            }
        }
    }
    let Some(w) = world else {
        if ended == 4 {
            out.ended_at_start = Some(last);
        } else {
            out.infra = Some(format!("world did not start: {last}"));
        }
        return out;
    };
    out.specs = w.specs.clone();
    out.never_opened = w.never_opened.clone();
    let open = |i: usize| !w.never_opened.iter().any(|(j, _)| *j == i);
    out.warm_up = warm_up(&w, sc).await;
    let before = w.unexpected_target_conns.load(Ordering::SeqCst);
    let tcp_one = |w: Arc<World>, i: usize, t: TcpScn| async move {
        match tokio::time::timeout(crate::io::step() * 6, tokio::spawn(run_conn(w, i, t))).await {
            Ok(Ok(o)) => Ok(o),
            Ok(Err(e)) => Err(format!("connection task: {e}")),
            Err(_) => {
                let mut o = ConnObs::default();
                o.client.hang = Some("the whole connection scenario exceeded its deadline".into());
                Ok(o)
            }
        }
    };
    if sc.together {
        let tcp_part = async {
            let mut hs = vec![];
            for (i, s) in &sc.subs {
                if let (Sub::Tcp(t), true) = (s, open(*i)) {
                    hs.push((*i, tokio::spawn(tcp_one(w.clone(), *i, t.clone()))));
                }
            }
            let mut v = vec![];
            for (i, h) in hs {
                v.push((i, h.await.unwrap_or_else(|e| Err(format!("connection task: {e}")))));
            }
            v
        };
        let udp_part = async {
            let mut v = vec![];
            for (i, s) in &sc.subs {
                if let (Sub::Udp(u), true) = (s, open(*i)) {
                    v.push((*i, run_udp(w.clone(), u.clone()).await));
                }
            }
            v
        };
        let (tcp, udp) = tokio::join!(tcp_part, udp_part);
        let (mut tcp, mut udp) = (tcp.into_iter(), udp.into_iter());
        for (i, s) in &sc.subs {
            if !open(*i) {
                out.subs.push((*i, SubOut::Skipped));
                continue;
            }
            match s {
                Sub::Tcp(_) => match tcp.next() {
                    Some((_, Ok(o))) => out.subs.push((*i, SubOut::Tcp(o))),
                    Some((_, Err(e))) => out.infra = Some(e),
                    None => out.infra = Some("lost a TCP outcome".into()),
                },
                Sub::Udp(_) => match udp.next() {
                    Some((_, o)) => out.subs.push((*i, SubOut::Udp(o))),
                    None => out.infra = Some("lost a UDP outcome".into()),
                },
            }
        }
    } else {
        for (i, s) in &sc.subs {
            if !open(*i) {
                out.subs.push((*i, SubOut::Skipped));
                continue;
            }
            match s {
                Sub::Tcp(t) => match tcp_one(w.clone(), *i, t.clone()).await {
                    Ok(o) => out.subs.push((*i, SubOut::Tcp(o))),
                    Err(e) => out.infra = Some(e),
                },
                Sub::Udp(u) => out.subs.push((*i, SubOut::Udp(run_udp(w.clone(), u.clone()).await))),
            }
        }
    }
    for (_, o) in &out.subs {
        if let SubOut::Udp(u) = o {
            if let Some(e) = &u.infra {
                out.infra = Some(e.clone());
            }
        }
    }
    // a target connection nobody asked for may still be on its way
    tokio::time::sleep(Duration::from_millis(20)).await;
    out.unexpected = w.unexpected_target_conns.load(Ordering::SeqCst) - before;
    out.ended = w.client_result.lock().unwrap().clone();
    out
}

/// (remote the violation is about, key, description)
pub fn judge_multi(sc: &MultiScn, o: &MultiOutcome) -> Vec<(Option<usize>, String, String)> {
    let mut bad = vec![];
    let who = format!(
        "ONE client with the remotes `{}` in this order on its command line [{}]",
        if o.specs.is_empty() { sc.remotes_text() } else { o.specs.join("  ") },
        sc.remotes_text()
    );
    if let Some(e) = &o.ended_at_start {
        bad.push((None, "multi-remote:client-ended-at-start-up".to_string(), format!("{who}: in four worlds, each with port numbers found free for every one of its sockets just before, the client ended instead of serving its remotes: {e}")));
        return bad;
    }
    for (i, d) in &o.never_opened {
        bad.push((
            Some(*i),
            format!("multi-remote:{}:entry-point-never-opened", sc.remotes[*i].kind.long()),
            format!("{who}: {d}; the entry point the command line asks for does not exist, whatever is sent to it reaches no target"),
        ));
    }
    for ((i, s), (_, so)) in sc.subs.iter().zip(o.subs.iter()) {
        let found = match (s, so) {
            (Sub::Tcp(t), SubOut::Tcp(c)) => crate::judge(&crate::Scn::Tcp(vec![t.clone()]), &crate::Outcome::Tcp(vec![c.clone()], 0)),
            (Sub::Udp(u), SubOut::Udp(c)) => c
                .bad
                .iter()
                .map(|(k, d)| (format!("udp:{}:{k}", if u.socks { "socks5" } else { "udp-remote" }), format!("{d}  [{}]", u.line())))
                .collect(),
            _ => vec![],
        };
        for (k, d) in found {
            bad.push((Some(*i), format!("multi-remote:{k}"), format!("{who}: through remote {i} ({}): {d}", o.specs.get(*i).map_or("", String::as_str))));
        }
    }
    if o.unexpected > 0 {
        bad.push((None, "multi-remote:tcp:unexpected-target-connection".into(), format!("{who}: {} connection(s) reached a target although no local connection asked for them", o.unexpected)));
    }
    if let Some(e) = &o.ended {
        bad.push((None, "multi-remote:client-ended".into(), format!("{who}: client_main_inner returned {e} while its remotes were in use")));
    }
    bad
}

pub fn nontrivial(o: &MultiOutcome) -> bool {
    o.subs.iter().any(|(_, s)| match s {
        SubOut::Tcp(c) => c.target_connected || c.client.saw_eof || c.handshake_fail.is_some(),
        SubOut::Udp(u) => u.replies_ok > 0,
        SubOut::Skipped => false,
    }) || !o.never_opened.is_empty()
}

// ---------------------------------------------------------------------------------------------
// Generation
// ---------------------------------------------------------------------------------------------

const SOCKS_ENTRIES: [Entry; 5] = [Entry::Socks4, Entry::Socks4a, Entry::Socks5V4, Entry::Socks5V6, Entry::Socks5Dom];
const HTTP_ENTRIES: [Entry; 3] = [Entry::HttpV4, Entry::HttpV6, Entry::HttpDom];

/// An ordinary connection scenario of this entry point kind: every close order (refusal where the local client
/// names the target), dialogues after a half-close; payloads of at most a few frames so that a world lives
/// for a fraction of a second.
fn sub_tcp(r: &mut Rng, entry: Entry) -> TcpScn {
    let mut modes = vec![
        Mode::Echo, Mode::ClientFirst, Mode::TargetFirst, Mode::Duplex, Mode::TargetCloses, Mode::TargetDrops, Mode::ClientDrops, Mode::ClientFirstHold, Mode::TargetFirstHold,
    ];
    if entry.has_handshake() {
        modes.push(Mode::Refuse);
    }
    let mode = *r.pick(&modes);
    let mut s = crate::random_tcp(r, Tier::Quick, Some(entry), Some(mode));
    if !mode.is_hold() {
        s.up = s.up.min(65_536);
        s.down = s.down.min(65_536);
    } else {
        // the payload before the half-close
        if mode == Mode::ClientFirstHold {
            s.up = s.up.min(65_536);
        } else {
            s.down = s.down.min(65_536);
        }
    }
    s.slow_ms = s.slow_ms.min(120);
    s
}

fn sub_udp(r: &mut Rng, socks: bool, targets: Vec<usize>) -> UdpScn {
    let all_sizes = [0usize, 1, 3, 4, 9, 10, 11, 100, 508, 1200, 1399, 1400];
    let n = r.range(2, 3) as usize;
    let sizes: Vec<usize> = (0..n).map(|_| *r.pick(&all_sizes)).collect();
    let domain = socks && !targets.contains(&2) && r.chance(1, 4);
    UdpScn {
        socks,
        clients: r.range(1, 3) as usize,
        targets,
        sizes,
        replies: if r.chance(1, 4) { 2 } else { 1 },
        domain,
        idle_ms: 0,
        oneway: None,
        junk: None,
        rounds: 1,
        shared: None,
        seed: r.next() % 1_000_000_000,
    }
}

/// Every remote of the set gets its scenario(s): a SOCKS remote a connection and, every other time, a UDP
/// association as well.
pub fn exercise(r: &mut Rng, remotes: Vec<MRemote>, together: bool) -> MultiScn {
    let mut sc = MultiScn { remotes, subs: vec![], together };
    for i in 0..sc.remotes.len() {
        match sc.remotes[i].kind {
            MKind::Tcp => sc.subs.push((i, Sub::Tcp(sub_tcp(r, Entry::Tcp)))),
            MKind::Unix => sc.subs.push((i, Sub::Tcp(sub_tcp(r, Entry::Uds)))),
            MKind::Http => {
                let e = HTTP_ENTRIES[r.below(HTTP_ENTRIES.len() as u64) as usize];
                sc.subs.push((i, Sub::Tcp(sub_tcp(r, e))));
            }
            MKind::Socks => {
                let e = SOCKS_ENTRIES[r.below(SOCKS_ENTRIES.len() as u64) as usize];
                sc.subs.push((i, Sub::Tcp(sub_tcp(r, e))));
                if r.chance(1, 2) {
                    let targets = match r.below(4) {
                        0 => vec![0],
                        1 => vec![1],
                        2 => vec![2],
                        _ => vec![0, 1],
                    };
                    sc.subs.push((i, Sub::Udp(sub_udp(r, true, targets))));
                }
            }
            MKind::Udp => {
                let t = sc.udp_target(i);
                sc.subs.push((i, Sub::Udp(sub_udp(r, false, vec![t]))));
            }
        }
    }
    sc
}

fn set(text: &str) -> Vec<MRemote> {
    text.split(',').map(|t| MRemote::parse(t).unwrap_or_else(|| panic!("e2e: remote `{t}`"))).collect()
}

/// 2-4 remotes by the dice; a new remote takes the port number of an earlier one every other time, when the
/// operating system lets it.
fn random_set(r: &mut Rng) -> Vec<MRemote> {
    let n = r.range(2, 4) as usize;
    let mut v: Vec<MRemote> = vec![];
    let mut next_group = 0u8;
    while v.len() < n {
        let kind = *r.pick(&[MKind::Tcp, MKind::Tcp, MKind::Udp, MKind::Udp, MKind::Udp, MKind::Socks, MKind::Http, MKind::Unix]);
        let count = |k: MKind| v.iter().filter(|x| x.kind == k).count();
        if (kind == MKind::Socks && count(MKind::Socks) == 1) || (kind == MKind::Http && count(MKind::Http) == 1) || (kind == MKind::Udp && count(MKind::Udp) == UDP_TARGETS) {
            continue;
        }
        if kind == MKind::Unix {
            v.push(MRemote { kind, host: MHost::V4, group: 255 });
            continue;
        }
        let host = *r.pick(&[MHost::V4, MHost::V4, MHost::V6, MHost::V6, MHost::Any]);
        let mut m = MRemote { kind, host, group: next_group };
        if r.chance(1, 2) {
            let mut groups: Vec<u8> = v.iter().filter(|x| x.inet()).map(|x| x.group).collect();
            groups.sort_unstable();
            groups.dedup();
            let fits: Vec<u8> = groups.into_iter().filter(|g| !v.iter().any(|x| x.collides(&MRemote { group: *g, ..m }))).collect();
            if !fits.is_empty() {
                m.group = *r.pick(&fits);
            }
        }
        if m.group == next_group {
            next_group += 1;
        }
        v.push(m);
    }
    v
}

/// The family.  quick: the shapes below, each once, and a few by the dice.  thorough: every ordered pair of a
/// TCP-side kind and a UDP remote on one port number for every combination of local hosts the operating system
/// allows, every ordered pair of kinds on one port number of two local hosts, the larger sets, and more by the dice.
pub fn multi_pass(r: &mut Rng, tier: Tier) -> Vec<MultiScn> {
    let mut sets: Vec<Vec<MRemote>> = vec![];
    // a TCP listener and a UDP socket on ONE local address, in both orders
    let one_address = [
        "tcp@v4:a,udp@v4:a", "udp@v4:a,tcp@v4:a", "socks@v4:a,udp@v4:a", "udp@v6:a,http@v6:a", "udp@any:a,tcp@any:a", "http@v4:a,udp@v4:a", "tcp@v6:a,udp@v6:a", "udp@v4:a,socks@v4:a",
    ];
    // one port number on two local hosts
    let two_hosts = ["tcp@v4:a,tcp@v6:a", "udp@v6:a,udp@v4:a", "tcp@v4:a,udp@v6:a", "socks@v6:a,http@v4:a", "udp@any:a,tcp@v6:a", "udp@v6:a,tcp@any:a"];
    // three and four remotes: everything on one port number; mixed kinds with and without shared numbers; two
    // Unix sockets; the third UDP remote forwards to the IPv6 target
    let larger = [
        "tcp@v4:a,udp@v4:a,tcp@v6:a,udp@v6:a",
        "udp@v4:a,socks@v4:a,unix,http@v4:b",
        "unix,tcp@v4:a,unix",
        "http@v4:a,socks@v4:b,tcp@v4:c,udp@v4:d",
        "udp@v4:a,udp@v4:b,udp@v6:a,tcp@v6:b",
        "socks@any:a,udp@v4:a,http@v6:a,udp@v6:a",
    ];
    match tier {
        Tier::Quick => {
            sets.extend(one_address.iter().chain(&two_hosts).chain(&larger).map(|t| set(t)));
            for _ in 0..4 {
                sets.push(random_set(r));
            }
        }
        Tier::Thorough => {
            let tcp_side = [MKind::Tcp, MKind::Socks, MKind::Http];
            for k in tcp_side {
                for (h1, h2) in MHOSTS.iter().flat_map(|a| MHOSTS.iter().map(move |b| (*a, *b))) {
                    let (x, y) = (MRemote { kind: k, host: h1, group: 0 }, MRemote { kind: MKind::Udp, host: h2, group: 0 });
                    sets.push(vec![x, y]);
                    sets.push(vec![y, x]);
                }
            }
            for k1 in [MKind::Tcp, MKind::Socks, MKind::Http, MKind::Udp] {
                for k2 in [MKind::Tcp, MKind::Socks, MKind::Http, MKind::Udp] {
                    if k1.is_udp() != k2.is_udp() || (k1 == k2 && matches!(k1, MKind::Socks | MKind::Http)) {
                        continue;
                    }
                    for (h1, h2) in [(MHost::V4, MHost::V6), (MHost::V6, MHost::V4), (MHost::Any, MHost::V6), (MHost::V6, MHost::Any)] {
                        sets.push(vec![MRemote { kind: k1, host: h1, group: 0 }, MRemote { kind: k2, host: h2, group: 0 }]);
                    }
                }
            }
            sets.extend(one_address.iter().chain(&two_hosts).chain(&larger).map(|t| set(t)));
            for t in larger {
                let mut v = set(t);
                v.reverse();
                sets.push(v);
            }
            for _ in 0..60 {
                sets.push(random_set(r));
            }
        }
    }
    let mut out = vec![];
    for (n, s) in sets.into_iter().enumerate() {
        let sc = exercise(r, s, n % 3 == 1);
        match sc.valid() {
            Ok(()) => out.push(sc),
            Err(e) => panic!("e2e: generated an invalid multi-remote scenario ({e}): {}", sc.line()),
        }
    }
    out
}
