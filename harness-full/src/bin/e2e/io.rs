//! Scripted endpoints: the behaviour of one side (local client or target) of one TCP connection.

use std::time::{Duration, Instant};
use tokio::io::{AsyncRead, AsyncReadExt, AsyncWrite, AsyncWriteExt};

pub trait Rw: AsyncRead + AsyncWrite + Unpin + Send {}
impl<T: AsyncRead + AsyncWrite + Unpin + Send> Rw for T {}
pub type BoxStream = Box<dyn Rw>;

/// Every single read / write / connect is bounded by this; a step that takes longer is a hang.
pub static STEP_MS: std::sync::atomic::AtomicU64 = std::sync::atomic::AtomicU64::new(20_000);
#[allow(non_snake_case)]
pub fn step() -> Duration {
    Duration::from_millis(STEP_MS.load(std::sync::atomic::Ordering::Relaxed))
}

/// "Promptly": a message written into a connection that its writer then keeps open and idle must be
/// complete at the reader within this time (a direct loopback connection needs microseconds; the
/// tunnel a few milliseconds; the bound only has to separate "arrives" from "is withheld until
/// something else happens" on a loaded machine).
pub static PROMPT_MS: std::sync::atomic::AtomicU64 = std::sync::atomic::AtomicU64::new(10_000);
pub fn prompt() -> Duration {
    Duration::from_millis(PROMPT_MS.load(std::sync::atomic::Ordering::Relaxed))
}

/// In-process side channel between the two scripted ends of ONE connection. The end that
/// half-closed first cannot acknowledge anything through the connection any more, so it reports
/// here how many bytes of the still-open direction it has received; the end that keeps the
/// connection open waits for that report before it goes on (next message / close). Carries no
/// payload and never touches the sockets.
#[derive(Debug)]
pub struct Gate {
    tx: tokio::sync::watch::Sender<GateState>,
}

#[derive(Clone, Copy, Debug, Default)]
pub struct GateState {
    /// bytes received so far by the end that half-closed first
    pub received: usize,
    /// that end has stopped reading (end-of-stream, error or hang)
    pub ended: bool,
}

impl Gate {
    pub fn new() -> Self {
        Gate { tx: tokio::sync::watch::channel(GateState::default()).0 }
    }
    fn report(&self, received: usize, ended: bool) {
        self.tx.send_replace(GateState { received, ended });
    }
    fn subscribe(&self) -> tokio::sync::watch::Receiver<GateState> {
        self.tx.subscribe()
    }
}

#[derive(Clone, Debug, PartialEq, Eq)]
pub enum Chunk {
    Whole,
    Fixed(usize),
    Random(u64, usize),
}

impl Chunk {
    pub fn text(&self) -> String {
        match self {
            Chunk::Whole => "whole".into(),
            Chunk::Fixed(n) => format!("fixed:{n}"),
            Chunk::Random(s, m) => format!("random:{s}:{m}"),
        }
    }
    pub fn parse(s: &str) -> Option<Self> {
        let p: Vec<&str> = s.split(':').collect();
        match p.as_slice() {
            ["whole"] => Some(Chunk::Whole),
            ["fixed", n] => Some(Chunk::Fixed(n.parse().ok().filter(|n| *n > 0)?)),
            ["random", s, m] => Some(Chunk::Random(s.parse().ok()?, m.parse().ok().filter(|n| *n > 0)?)),
            _ => None,
        }
    }
    /// Cut `len` bytes into write sizes.
    pub fn sizes(&self, len: usize) -> Vec<usize> {
        let mut out = vec![];
        let mut left = len;
        match self {
            Chunk::Whole => {
                if len > 0 {
                    out.push(len);
                }
            }
            Chunk::Fixed(n) => {
                while left > 0 {
                    let k = (*n).min(left);
                    out.push(k);
                    left -= k;
                }
            }
            Chunk::Random(seed, max) => {
                let mut r = pvhf::Rng::new(*seed);
                while left > 0 {
                    let k = (r.range(1, *max as u64) as usize).min(left);
                    out.push(k);
                    left -= k;
                }
            }
        }
        out
    }
}

#[derive(Clone, Debug, PartialEq, Eq)]
pub enum Role {
    /// write `send` (at once, or only after the peer's end-of-stream was read), half-close if
    /// `shutdown`, read to end-of-stream, close
    Normal { after_peer_eof: bool, shutdown: bool },
    /// write back whatever is read until end-of-stream, then half-close and close
    Echo,
    /// read exactly `n` bytes, write `send`, close both directions at once
    CloseAfter { n: usize },
    /// write `send`, close both directions at once without reading
    DropAfterSend,
    /// the peer half-closes first: read to end-of-stream, then write `send` one message (= one chunk)
    /// at a time, KEEPING THE CONNECTION OPEN: after each message wait until the peer reports through
    /// the gate that it has the whole message (at most `prompt()`; a message not complete by then is
    /// recorded in `unconfirmed` and ends the dialogue), pause `read_delay_ms` before each message
    /// and before the close; finally half-close and close
    Hold,
    /// a peer that has nothing more to say and reads LATE: write `send`, half-close at once, do not read
    /// for `read_delay_ms`, then read to end-of-stream (`pace_ms` > 0: at most 32 KiB per read and a pause of
    /// `pace_ms` after every read), close.  With `Script::rcvbuf` the socket's receive buffer is made small
    /// first, so that what the other end has written is still in ITS send buffer when it closes.
    Late { pace_ms: u64 },
}

#[derive(Clone, Debug)]
pub struct Script {
    pub role: Role,
    pub send: Vec<u8>,
    pub chunk: Chunk,
    /// wait this long before the first read (a slow reader: back-pressure through the tunnel);
    /// for `Hold`: the pause before each message and before the close
    pub read_delay_ms: u64,
    /// `Hold` and its peer (`Normal`, which then reports every read through it)
    pub gate: Option<std::sync::Arc<Gate>>,
    /// SO_RCVBUF to set on this end's TCP socket before anything else happens (applied by whoever owns the
    /// concrete socket: the target's accept loop, `run_conn` for the local client)
    pub rcvbuf: Option<u32>,
}

/// SO_RCVBUF on a connected socket (Linux doubles the value; the window already advertised is not taken
/// back).  `false` = could not be set (the scenario then runs with the default buffer).
#[cfg(all(target_os = "linux", any(target_arch = "x86_64", target_arch = "aarch64")))]
pub fn set_rcvbuf<S: std::os::fd::AsRawFd>(s: &S, bytes: u32) -> bool {
    unsafe extern "C" {
        fn setsockopt(fd: i32, level: i32, name: i32, value: *const core::ffi::c_void, len: u32) -> i32;
    }
    const SOL_SOCKET: i32 = 1;
    const SO_RCVBUF: i32 = 8;
    let v: i32 = bytes.min(i32::MAX as u32) as i32;
    // SAFETY: `fd` is an open socket for the duration of the call, `value` points to 4 readable bytes
    unsafe { setsockopt(s.as_raw_fd(), SOL_SOCKET, SO_RCVBUF, (&raw const v).cast(), 4) == 0 }
}
#[cfg(not(all(target_os = "linux", any(target_arch = "x86_64", target_arch = "aarch64"))))]
pub fn set_rcvbuf<S>(_s: &S, _bytes: u32) -> bool {
    false
}

/// A message of `Role::Hold` that the peer did not have within `prompt()` although the connection
/// was open and idle.
#[derive(Clone, Debug)]
pub struct Unconfirmed {
    pub msg: usize,
    pub offset: usize,
    pub len: usize,
    pub waited_ms: u64,
    /// what the peer had received of the whole direction when the wait ended
    pub peer_had: usize,
    /// the peer had stopped reading (end-of-stream / error / hang on its side)
    pub peer_ended: bool,
}

#[derive(Clone, Debug, Default)]
pub struct SideObs {
    pub received: Vec<u8>,
    pub saw_eof: bool,
    pub read_err: Option<String>,
    pub write_err: Option<String>,
    pub sent: usize,
    pub shutdown_ok: bool,
    /// which step exceeded STEP
    pub hang: Option<String>,
    /// for `after_peer_eof`: bytes were written only after end-of-stream had been read
    pub wrote_after_eof: bool,
    pub eof_ms: Option<u64>,
    pub infra: Option<String>,
    /// when end-of-stream was read
    pub eof_at: Option<Instant>,
    /// `Hold`: taken immediately before the half-close (the peer cannot see end-of-stream earlier)
    pub closed_at: Option<Instant>,
    /// `Hold`: per confirmed message, write finished -> peer reports it complete
    pub confirm_ms: Vec<u64>,
    pub unconfirmed: Option<Unconfirmed>,
}

async fn write_chunks<W: AsyncWrite + Unpin>(w: &mut W, data: &[u8], chunk: &Chunk, obs_sent: &mut usize) -> Result<(), String> {
    let mut off = 0;
    let sizes = chunk.sizes(data.len());
    let small = sizes.len() > 64;
    for (i, k) in sizes.iter().enumerate() {
        match tokio::time::timeout(step(), w.write_all(&data[off..off + k])).await {
            Err(_) => return Err(format!("HANG write at offset {off}")),
            Ok(Err(e)) => return Err(format!("write at offset {off}: {e}")),
            Ok(Ok(())) => {}
        }
        off += k;
        *obs_sent = off;
        // let the chunk leave on its own: flush, and give the other tasks a turn
        let _ = w.flush().await;
        if !small || i % 8 == 0 {
            tokio::task::yield_now().await;
        }
        if sizes.len() <= 16 && sizes.len() > 1 {
            tokio::time::sleep(Duration::from_millis(2)).await;
        }
    }
    Ok(())
}

/// Read to end-of-stream; with a gate, report the running total after every read and the end of reading.
async fn read_to_eof<R: AsyncRead + Unpin>(r: &mut R, obs: &mut SideObs, t0: Instant, gate: Option<&Gate>) {
    read_to_eof_paced(r, obs, t0, gate, 0).await;
}

/// `pace_ms` > 0: a slow reader (at most 32 KiB per read, a pause after every read).
async fn read_to_eof_paced<R: AsyncRead + Unpin>(r: &mut R, obs: &mut SideObs, t0: Instant, gate: Option<&Gate>, pace_ms: u64) {
    let mut buf = vec![0u8; if pace_ms > 0 { 32 * 1024 } else { 64 * 1024 }];
    loop {
        match tokio::time::timeout(step(), r.read(&mut buf)).await {
            Err(_) => {
                obs.hang = Some(format!("read after {} bytes (no data, no end-of-stream)", obs.received.len()));
                break;
            }
            Ok(Err(e)) => {
                obs.read_err = Some(e.to_string());
                break;
            }
            Ok(Ok(0)) => {
                obs.saw_eof = true;
                obs.eof_at = Some(Instant::now());
                obs.eof_ms = Some(t0.elapsed().as_millis() as u64);
                break;
            }
            Ok(Ok(n)) => {
                obs.received.extend_from_slice(&buf[..n]);
                if let Some(g) = gate {
                    g.report(obs.received.len(), false);
                }
                if pace_ms > 0 {
                    tokio::time::sleep(Duration::from_millis(pace_ms)).await;
                }
            }
        }
    }
    if let Some(g) = gate {
        g.report(obs.received.len(), true);
    }
}

/// Play `sc` on `stream`; never blocks for longer than a few STEPs.
pub async fn run_side(stream: BoxStream, sc: &Script) -> SideObs {
    let t0 = Instant::now();
    let mut obs = SideObs::default();
    match &sc.role {
        Role::Normal { after_peer_eof, shutdown } => {
            let (mut r, mut w) = tokio::io::split(stream);
            if *after_peer_eof {
                if sc.read_delay_ms > 0 {
                    tokio::time::sleep(Duration::from_millis(sc.read_delay_ms)).await;
                }
                read_to_eof(&mut r, &mut obs, t0, None).await;
                obs.wrote_after_eof = obs.saw_eof;
                // the other direction must still work after the peer's half-close
                let mut sent = 0;
                match write_chunks(&mut w, &sc.send, &sc.chunk, &mut sent).await {
                    Ok(()) => {}
                    Err(e) if e.starts_with("HANG") => obs.hang = obs.hang.or(Some(e)),
                    Err(e) => obs.write_err = Some(e),
                }
                obs.sent = sent;
                if *shutdown {
                    obs.shutdown_ok = matches!(tokio::time::timeout(step(), w.shutdown()).await, Ok(Ok(())));
                }
            } else {
                let mut robs = SideObs::default();
                let wfut = async {
                    let mut sent = 0;
                    let res = write_chunks(&mut w, &sc.send, &sc.chunk, &mut sent).await;
                    let mut sd = false;
                    if res.is_ok() && *shutdown {
                        sd = matches!(tokio::time::timeout(step(), w.shutdown()).await, Ok(Ok(())));
                    }
                    (res, sent, sd, w)
                };
                let rfut = async {
                    if sc.read_delay_ms > 0 {
                        tokio::time::sleep(Duration::from_millis(sc.read_delay_ms)).await;
                    }
                    read_to_eof(&mut r, &mut robs, t0, sc.gate.as_deref()).await;
                };
                let ((res, sent, sd, _w), ()) = tokio::join!(wfut, rfut);
                obs = robs;
                obs.sent = sent;
                obs.shutdown_ok = sd;
                match res {
                    Ok(()) => {}
                    Err(e) if e.starts_with("HANG") => obs.hang = obs.hang.or(Some(e)),
                    Err(e) => obs.write_err = Some(e),
                }
            }
        }
        Role::Echo => {
            let (mut r, mut w) = tokio::io::split(stream);
            if sc.read_delay_ms > 0 {
                tokio::time::sleep(Duration::from_millis(sc.read_delay_ms)).await;
            }
            let mut buf = vec![0u8; 64 * 1024];
            loop {
                match tokio::time::timeout(step(), r.read(&mut buf)).await {
                    Err(_) => {
                        obs.hang = Some(format!("echo read after {} bytes", obs.received.len()));
                        break;
                    }
                    Ok(Err(e)) => {
                        obs.read_err = Some(e.to_string());
                        break;
                    }
                    Ok(Ok(0)) => {
                        obs.saw_eof = true;
                        obs.eof_ms = Some(t0.elapsed().as_millis() as u64);
                        break;
                    }
                    Ok(Ok(n)) => {
                        obs.received.extend_from_slice(&buf[..n]);
                        match tokio::time::timeout(step(), w.write_all(&buf[..n])).await {
                            Err(_) => {
                                obs.hang = Some(format!("echo write after {} bytes", obs.sent));
                                break;
                            }
                            Ok(Err(e)) => {
                                obs.write_err = Some(e.to_string());
                                break;
                            }
                            Ok(Ok(())) => obs.sent += n,
                        }
                    }
                }
            }
            obs.shutdown_ok = matches!(tokio::time::timeout(step(), w.shutdown()).await, Ok(Ok(())));
        }
        Role::CloseAfter { n } => {
            let mut stream = stream;
            let mut buf = vec![0u8; *n];
            let mut got = 0;
            while got < *n {
                match tokio::time::timeout(step(), stream.read(&mut buf[got..])).await {
                    Err(_) => {
                        obs.hang = Some(format!("read {got} of {n} bytes"));
                        break;
                    }
                    Ok(Err(e)) => {
                        obs.read_err = Some(e.to_string());
                        break;
                    }
                    Ok(Ok(0)) => {
                        obs.saw_eof = true;
                        break;
                    }
                    Ok(Ok(k)) => got += k,
                }
            }
            obs.received = buf[..got].to_vec();
            let mut sent = 0;
            if let Err(e) = write_chunks(&mut stream, &sc.send, &sc.chunk, &mut sent).await {
                if e.starts_with("HANG") {
                    obs.hang = obs.hang.or(Some(e));
                } else {
                    obs.write_err = Some(e);
                }
            }
            obs.sent = sent;
            drop(stream);
        }
        Role::DropAfterSend => {
            let mut stream = stream;
            let mut sent = 0;
            if let Err(e) = write_chunks(&mut stream, &sc.send, &sc.chunk, &mut sent).await {
                if e.starts_with("HANG") {
                    obs.hang = Some(e);
                } else {
                    obs.write_err = Some(e);
                }
            }
            obs.sent = sent;
            drop(stream);
        }
        Role::Hold => {
            let gate = sc.gate.clone().expect("Role::Hold needs a gate");
            let mut confirmed = gate.subscribe();
            let pause = Duration::from_millis(sc.read_delay_ms);
            let (mut r, mut w) = tokio::io::split(stream);
            // the peer's payload and its half-close
            read_to_eof(&mut r, &mut obs, t0, None).await;
            obs.wrote_after_eof = obs.saw_eof;
            let mut off = 0;
            // without the peer's end-of-stream the premise of the dialogue is not established: close
            let sizes = if obs.saw_eof { sc.chunk.sizes(sc.send.len()) } else { vec![] };
            for (i, k) in sizes.iter().enumerate() {
                if !pause.is_zero() {
                    tokio::time::sleep(pause).await;
                }
                match tokio::time::timeout(step(), w.write_all(&sc.send[off..off + k])).await {
                    Err(_) => {
                        obs.hang = Some(format!("HANG write at offset {off}"));
                        break;
                    }
                    Ok(Err(e)) => {
                        obs.write_err = Some(format!("write at offset {off}: {e}"));
                        break;
                    }
                    Ok(Ok(())) => {}
                }
                let _ = w.flush().await;
                let written = Instant::now();
                let end = off + k;
                obs.sent = end;
                // nothing more is written and nothing is closed until the peer has this message
                let got = match tokio::time::timeout(prompt(), confirmed.wait_for(|g| g.received >= end || g.ended)).await {
                    Ok(Ok(g)) => Some(*g),
                    _ => None,
                };
                let state = got.unwrap_or_else(|| *confirmed.borrow());
                if state.received >= end {
                    obs.confirm_ms.push(written.elapsed().as_millis() as u64);
                } else {
                    obs.unconfirmed = Some(Unconfirmed {
                        msg: i,
                        offset: off,
                        len: *k,
                        waited_ms: written.elapsed().as_millis() as u64,
                        peer_had: state.received,
                        peer_ended: state.ended,
                    });
                    break;
                }
                off = end;
            }
            if !pause.is_zero() {
                tokio::time::sleep(pause).await;
            }
            obs.closed_at = Some(Instant::now());
            obs.shutdown_ok = matches!(tokio::time::timeout(step(), w.shutdown()).await, Ok(Ok(())));
        }
        Role::Late { pace_ms } => {
            let (mut r, mut w) = tokio::io::split(stream);
            let mut sent = 0;
            match write_chunks(&mut w, &sc.send, &sc.chunk, &mut sent).await {
                Ok(()) => {}
                Err(e) if e.starts_with("HANG") => obs.hang = Some(e),
                Err(e) => obs.write_err = Some(e),
            }
            obs.sent = sent;
            // nothing more to say: half-close at once, long before the first read
            obs.closed_at = Some(Instant::now());
            obs.shutdown_ok = matches!(tokio::time::timeout(step(), w.shutdown()).await, Ok(Ok(())));
            if sc.read_delay_ms > 0 {
                tokio::time::sleep(Duration::from_millis(sc.read_delay_ms)).await;
            }
            let mut robs = SideObs::default();
            read_to_eof_paced(&mut r, &mut robs, t0, None, *pace_ms).await;
            obs.received = robs.received;
            obs.saw_eof = robs.saw_eof;
            obs.eof_at = robs.eof_at;
            obs.eof_ms = robs.eof_ms;
            obs.read_err = robs.read_err;
            obs.hang = obs.hang.or(robs.hang);
            drop(w);
        }
    }
    obs
}

/// Deterministic payload: position-dependent, so that reordering / duplication / loss shows.
pub fn payload(seed: u64, len: usize) -> Vec<u8> {
    let mut r = pvhf::Rng::new(seed ^ 0x5EED_C01);
    let mut v = Vec::with_capacity(len);
    while v.len() + 8 <= len {
        v.extend_from_slice(&r.next().to_le_bytes());
    }
    while v.len() < len {
        v.push(r.next() as u8);
    }
    v
}

/// Where two byte strings first differ, for messages.
pub fn diff(got: &[u8], want: &[u8]) -> String {
    let n = got.iter().zip(want.iter()).take_while(|(a, b)| a == b).count();
    if got.len() == want.len() && n == got.len() {
        return "equal".into();
    }
    if n == got.len() && got.len() < want.len() {
        return format!("only the first {} of {} bytes arrived (a proper prefix)", got.len(), want.len());
    }
    if n == want.len() {
        return format!("{} bytes arrived, {} were sent ({} extra)", got.len(), want.len(), got.len() - want.len());
    }
    format!("first difference at offset {n}: got {:02x}, sent {:02x} (got {} bytes, sent {})", got[n], want[n], got.len(), want.len())
}
