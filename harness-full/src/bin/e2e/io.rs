//! Scripted endpoints: the behaviour of one side (local client or target) of one TCP connection.

use std::time::{Duration, Instant};
use tokio::io::{AsyncRead, AsyncReadExt, AsyncWrite, AsyncWriteExt};

pub trait Rw: AsyncRead + AsyncWrite + Unpin + Send {}
impl<T: AsyncRead + AsyncWrite + Unpin + Send> Rw for T {}
pub type BoxStream = Box<dyn Rw>;

/// Every single read / write / connect is bounded by this; a step that takes longer is a hang.
pub static STEP_MS: std::sync::atomic::AtomicU64 = std::sync::atomic::AtomicU64::new(20_000);
#[allow(non_snake_case)]
pub fn step() -> Duration {
    Duration::from_millis(STEP_MS.load(std::sync::atomic::Ordering::Relaxed))
}

#[derive(Clone, Debug, PartialEq, Eq)]
pub enum Chunk {
    Whole,
    Fixed(usize),
    Random(u64, usize),
}

impl Chunk {
    pub fn text(&self) -> String {
        match self {
            Chunk::Whole => "whole".into(),
            Chunk::Fixed(n) => format!("fixed:{n}"),
            Chunk::Random(s, m) => format!("random:{s}:{m}"),
        }
    }
    pub fn parse(s: &str) -> Option<Self> {
        let p: Vec<&str> = s.split(':').collect();
        match p.as_slice() {
            ["whole"] => Some(Chunk::Whole),
            ["fixed", n] => Some(Chunk::Fixed(n.parse().ok().filter(|n| *n > 0)?)),
            ["random", s, m] => Some(Chunk::Random(s.parse().ok()?, m.parse().ok().filter(|n| *n > 0)?)),
            _ => None,
        }
    }
    /// Cut `len` bytes into write sizes.
    pub fn sizes(&self, len: usize) -> Vec<usize> {
        let mut out = vec![];
        let mut left = len;
        match self {
            Chunk::Whole => {
                if len > 0 {
                    out.push(len);
                }
            }
            Chunk::Fixed(n) => {
                while left > 0 {
                    let k = (*n).min(left);
                    out.push(k);
                    left -= k;
                }
            }
            Chunk::Random(seed, max) => {
                let mut r = pvhf::Rng::new(*seed);
                while left > 0 {
                    let k = (r.range(1, *max as u64) as usize).min(left);
                    out.push(k);
                    left -= k;
                }
            }
        }
        out
    }
}

#[derive(Clone, Debug, PartialEq, Eq)]
pub enum Role {
    /// write `send` (at once, or only after the peer's end-of-stream was read), half-close if
    /// `shutdown`, read to end-of-stream, close
    Normal { after_peer_eof: bool, shutdown: bool },
    /// write back whatever is read until end-of-stream, then half-close and close
    Echo,
    /// read exactly `n` bytes, write `send`, close both directions at once
    CloseAfter { n: usize },
    /// write `send`, close both directions at once without reading
    DropAfterSend,
}

#[derive(Clone, Debug)]
pub struct Script {
    pub role: Role,
    pub send: Vec<u8>,
    pub chunk: Chunk,
    /// wait this long before the first read (a slow reader: back-pressure through the tunnel)
    pub read_delay_ms: u64,
}

#[derive(Clone, Debug, Default)]
pub struct SideObs {
    pub received: Vec<u8>,
    pub saw_eof: bool,
    pub read_err: Option<String>,
    pub write_err: Option<String>,
    pub sent: usize,
    pub shutdown_ok: bool,
    /// which step exceeded STEP
    pub hang: Option<String>,
    /// for `after_peer_eof`: bytes were written only after end-of-stream had been read
    pub wrote_after_eof: bool,
    pub eof_ms: Option<u64>,
    pub infra: Option<String>,
}

async fn write_chunks<W: AsyncWrite + Unpin>(w: &mut W, data: &[u8], chunk: &Chunk, obs_sent: &mut usize) -> Result<(), String> {
    let mut off = 0;
    let sizes = chunk.sizes(data.len());
    let small = sizes.len() > 64;
    for (i, k) in sizes.iter().enumerate() {
        match tokio::time::timeout(step(), w.write_all(&data[off..off + k])).await {
            Err(_) => return Err(format!("HANG write at offset {off}")),
            Ok(Err(e)) => return Err(format!("write at offset {off}: {e}")),
            Ok(Ok(())) => {}
        }
        off += k;
        *obs_sent = off;
        // let the chunk leave on its own: flush, and give the other tasks a turn
        let _ = w.flush().await;
        if !small || i % 8 == 0 {
            tokio::task::yield_now().await;
        }
        if sizes.len() <= 16 && sizes.len() > 1 {
            tokio::time::sleep(Duration::from_millis(2)).await;
        }
    }
    Ok(())
}

async fn read_to_eof<R: AsyncRead + Unpin>(r: &mut R, obs: &mut SideObs, t0: Instant) {
    let mut buf = vec![0u8; 64 * 1024];
    loop {
        match tokio::time::timeout(step(), r.read(&mut buf)).await {
            Err(_) => {
                obs.hang = Some(format!("read after {} bytes (no data, no end-of-stream)", obs.received.len()));
                return;
            }
            Ok(Err(e)) => {
                obs.read_err = Some(e.to_string());
                return;
            }
            Ok(Ok(0)) => {
                obs.saw_eof = true;
                obs.eof_ms = Some(t0.elapsed().as_millis() as u64);
                return;
            }
            Ok(Ok(n)) => obs.received.extend_from_slice(&buf[..n]),
        }
    }
}

/// Play `sc` on `stream`; never blocks for longer than a few STEPs.
pub async fn run_side(stream: BoxStream, sc: &Script) -> SideObs {
    let t0 = Instant::now();
    let mut obs = SideObs::default();
    match &sc.role {
        Role::Normal { after_peer_eof, shutdown } => {
            let (mut r, mut w) = tokio::io::split(stream);
            if *after_peer_eof {
                if sc.read_delay_ms > 0 {
                    tokio::time::sleep(Duration::from_millis(sc.read_delay_ms)).await;
                }
                read_to_eof(&mut r, &mut obs, t0).await;
                obs.wrote_after_eof = obs.saw_eof;
                // the other direction must still work after the peer's half-close
                let mut sent = 0;
                match write_chunks(&mut w, &sc.send, &sc.chunk, &mut sent).await {
                    Ok(()) => {}
                    Err(e) if e.starts_with("HANG") => obs.hang = obs.hang.or(Some(e)),
                    Err(e) => obs.write_err = Some(e),
                }
                obs.sent = sent;
                if *shutdown {
                    obs.shutdown_ok = matches!(tokio::time::timeout(step(), w.shutdown()).await, Ok(Ok(())));
                }
            } else {
                let mut robs = SideObs::default();
                let wfut = async {
                    let mut sent = 0;
                    let res = write_chunks(&mut w, &sc.send, &sc.chunk, &mut sent).await;
                    let mut sd = false;
                    if res.is_ok() && *shutdown {
                        sd = matches!(tokio::time::timeout(step(), w.shutdown()).await, Ok(Ok(())));
                    }
                    (res, sent, sd, w)
                };
                let rfut = async {
                    if sc.read_delay_ms > 0 {
                        tokio::time::sleep(Duration::from_millis(sc.read_delay_ms)).await;
                    }
                    read_to_eof(&mut r, &mut robs, t0).await;
                };
                let ((res, sent, sd, _w), ()) = tokio::join!(wfut, rfut);
                obs = robs;
                obs.sent = sent;
                obs.shutdown_ok = sd;
                match res {
                    Ok(()) => {}
                    Err(e) if e.starts_with("HANG") => obs.hang = obs.hang.or(Some(e)),
                    Err(e) => obs.write_err = Some(e),
                }
            }
        }
        Role::Echo => {
            let (mut r, mut w) = tokio::io::split(stream);
            if sc.read_delay_ms > 0 {
                tokio::time::sleep(Duration::from_millis(sc.read_delay_ms)).await;
            }
            let mut buf = vec![0u8; 64 * 1024];
            loop {
                match tokio::time::timeout(step(), r.read(&mut buf)).await {
                    Err(_) => {
                        obs.hang = Some(format!("echo read after {} bytes", obs.received.len()));
                        break;
                    }
                    Ok(Err(e)) => {
                        obs.read_err = Some(e.to_string());
                        break;
                    }
                    Ok(Ok(0)) => {
                        obs.saw_eof = true;
                        obs.eof_ms = Some(t0.elapsed().as_millis() as u64);
                        break;
                    }
                    Ok(Ok(n)) => {
                        obs.received.extend_from_slice(&buf[..n]);
                        match tokio::time::timeout(step(), w.write_all(&buf[..n])).await {
                            Err(_) => {
                                obs.hang = Some(format!("echo write after {} bytes", obs.sent));
                                break;
                            }
                            Ok(Err(e)) => {
                                obs.write_err = Some(e.to_string());
                                break;
                            }
                            Ok(Ok(())) => obs.sent += n,
                        }
                    }
                }
            }
            obs.shutdown_ok = matches!(tokio::time::timeout(step(), w.shutdown()).await, Ok(Ok(())));
        }
        Role::CloseAfter { n } => {
            let mut stream = stream;
            let mut buf = vec![0u8; *n];
            let mut got = 0;
            while got < *n {
                match tokio::time::timeout(step(), stream.read(&mut buf[got..])).await {
                    Err(_) => {
                        obs.hang = Some(format!("read {got} of {n} bytes"));
                        break;
                    }
                    Ok(Err(e)) => {
                        obs.read_err = Some(e.to_string());
                        break;
                    }
                    Ok(Ok(0)) => {
                        obs.saw_eof = true;
                        break;
                    }
                    Ok(Ok(k)) => got += k,
                }
            }
            obs.received = buf[..got].to_vec();
            let mut sent = 0;
            if let Err(e) = write_chunks(&mut stream, &sc.send, &sc.chunk, &mut sent).await {
                if e.starts_with("HANG") {
                    obs.hang = obs.hang.or(Some(e));
                } else {
                    obs.write_err = Some(e);
                }
            }
            obs.sent = sent;
            drop(stream);
        }
        Role::DropAfterSend => {
            let mut stream = stream;
            let mut sent = 0;
            if let Err(e) = write_chunks(&mut stream, &sc.send, &sc.chunk, &mut sent).await {
                if e.starts_with("HANG") {
                    obs.hang = Some(e);
                } else {
                    obs.write_err = Some(e);
                }
            }
            obs.sent = sent;
            drop(stream);
        }
    }
    obs
}

/// Deterministic payload: position-dependent, so that reordering / duplication / loss shows.
pub fn payload(seed: u64, len: usize) -> Vec<u8> {
    let mut r = pvhf::Rng::new(seed ^ 0x5EED_C01);
    let mut v = Vec::with_capacity(len);
    while v.len() + 8 <= len {
        v.extend_from_slice(&r.next().to_le_bytes());
    }
    while v.len() < len {
        v.push(r.next() as u8);
    }
    v
}

/// Where two byte strings first differ, for messages.
pub fn diff(got: &[u8], want: &[u8]) -> String {
    let n = got.iter().zip(want.iter()).take_while(|(a, b)| a == b).count();
    if got.len() == want.len() && n == got.len() {
        return "equal".into();
    }
    if n == got.len() && got.len() < want.len() {
        return format!("only the first {} of {} bytes arrived (a proper prefix)", got.len(), want.len());
    }
    if n == want.len() {
        return format!("{} bytes arrived, {} were sent ({} extra)", got.len(), want.len(), got.len() - want.len());
    }
    format!("first difference at offset {n}: got {:02x}, sent {:02x} (got {} bytes, sent {})", got[n], want[n], got.len(), want.len())
}
