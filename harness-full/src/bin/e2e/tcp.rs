//! TCP scenarios: one local connection through one entry point, scripted on both ends.

use crate::io::{diff, payload, prompt, run_side, step, BoxStream, Chunk, Gate, Role, Script, SideObs};
use crate::world::{TargetJob, World};
use std::sync::Arc;
use std::sync::atomic::Ordering;
use std::time::Duration;
use tokio::io::{AsyncReadExt, AsyncWriteExt};
use tokio::net::{TcpStream, UnixStream};
use tokio::sync::oneshot;

#[derive(Clone, Copy, Debug, PartialEq, Eq)]
pub enum Entry {
    Tcp,
    Uds,
    Socks4,
    Socks4a,
    Socks5V4,
    Socks5V6,
    Socks5Dom,
    HttpV4,
    HttpV6,
    HttpDom,
}

pub const ENTRIES: [Entry; 10] = [
    Entry::Tcp, Entry::Uds, Entry::Socks4, Entry::Socks4a, Entry::Socks5V4, Entry::Socks5V6, Entry::Socks5Dom,
    Entry::HttpV4, Entry::HttpV6, Entry::HttpDom,
];

impl Entry {
    pub fn text(self) -> &'static str {
        match self {
            Entry::Tcp => "tcp-remote",
            Entry::Uds => "unix-socket",
            Entry::Socks4 => "socks4",
            Entry::Socks4a => "socks4a",
            Entry::Socks5V4 => "socks5-v4",
            Entry::Socks5V6 => "socks5-v6",
            Entry::Socks5Dom => "socks5-domain",
            Entry::HttpV4 => "http-connect-v4",
            Entry::HttpV6 => "http-connect-v6",
            Entry::HttpDom => "http-connect-domain",
        }
    }
    pub fn parse(s: &str) -> Option<Self> {
        ENTRIES.iter().copied().find(|e| e.text() == s)
    }
    fn v6_target(self) -> bool {
        matches!(self, Entry::Socks5V6 | Entry::HttpV6)
    }
    pub fn is_socks5(self) -> bool {
        matches!(self, Entry::Socks5V4 | Entry::Socks5V6 | Entry::Socks5Dom)
    }
    /// the entry point kinds that begin with a handshake of the local client (everything but the fixed remotes)
    pub fn has_handshake(self) -> bool {
        !matches!(self, Entry::Tcp | Entry::Uds)
    }
}

#[derive(Clone, Copy, Debug, PartialEq, Eq)]
pub enum Mode {
    /// target echoes; client sends, half-closes, reads the echo to end-of-stream
    Echo,
    /// client sends and half-closes; target reads to end-of-stream, only then answers and closes
    ClientFirst,
    /// target sends and half-closes; client reads to end-of-stream, only then answers and closes
    TargetFirst,
    /// both send at once, both half-close, both read to end-of-stream
    Duplex,
    /// client sends and keeps its write side open; target reads it all, answers, closes completely
    TargetCloses,
    /// target sends and closes completely at once; client only reads
    TargetDrops,
    /// client sends and closes completely at once; target reads to end-of-stream
    ClientDrops,
    /// nothing listens on the target port
    Refuse,
    /// client sends `up` and half-closes; target reads to end-of-stream, then sends `down` one
    /// message (= one chunk of `downc`) at a time and KEEPS THE CONNECTION OPEN: each message must be
    /// complete at the client within `prompt()` before the next is written; after the last one
    /// the target pauses `slow`, closes, and the client must see end-of-stream (not earlier)
    ClientFirstHold,
    /// the mirror image: target sends `down` and half-closes; client reads to end-of-stream, then
    /// sends `up` message by message (`upc`), each awaited at the target, pauses, closes
    TargetFirstHold,
    /// a target that has finished sending and reads LATE: it accepts, sends `down` (a short reply or
    /// nothing), half-closes at once, makes its receive buffer small (`rcvbuf`), does not read for `slow`
    /// ms, then reads (`pace` > 0: slowly) to end-of-stream.  The client reads the reply to end-of-stream,
    /// then writes `up`, half-closes and closes.  A direct connection delivers every byte of `up` and then
    /// end-of-stream to the target, whenever it gets round to reading.
    LateTarget,
    /// the mirror image: the local client sends `up` (short), half-closes at once and reads late; the
    /// target reads to end-of-stream, then writes `down`, half-closes and closes
    LateClient,
}

/// the close orders of the entry x mode matrix of the fixed pass
pub const MODES: [Mode; 8] = [
    Mode::Echo, Mode::ClientFirst, Mode::TargetFirst, Mode::Duplex, Mode::TargetCloses, Mode::TargetDrops,
    Mode::ClientDrops, Mode::Refuse,
];

/// dialogues after a half-close (their own matrix in the fixed pass)
pub const HOLD_MODES: [Mode; 2] = [Mode::ClientFirstHold, Mode::TargetFirstHold];

/// late-reading peers (their own family in the fixed pass; not drawn by the random scenarios)
pub const LATE_MODES: [Mode; 2] = [Mode::LateTarget, Mode::LateClient];

pub const ALL_MODES: [Mode; 10] = [
    Mode::Echo, Mode::ClientFirst, Mode::TargetFirst, Mode::Duplex, Mode::TargetCloses, Mode::TargetDrops,
    Mode::ClientDrops, Mode::Refuse, Mode::ClientFirstHold, Mode::TargetFirstHold,
];

impl Mode {
    pub fn text(self) -> &'static str {
        match self {
            Mode::Echo => "echo",
            Mode::ClientFirst => "client-half-closes-first",
            Mode::TargetFirst => "target-half-closes-first",
            Mode::Duplex => "duplex",
            Mode::TargetCloses => "target-closes",
            Mode::TargetDrops => "target-sends-and-closes",
            Mode::ClientDrops => "client-sends-and-closes",
            Mode::Refuse => "refused",
            Mode::ClientFirstHold => "client-half-closes-target-holds",
            Mode::TargetFirstHold => "target-half-closes-client-holds",
            Mode::LateTarget => "late-target",
            Mode::LateClient => "late-client",
        }
    }
    pub fn parse(s: &str) -> Option<Self> {
        ALL_MODES.iter().chain(LATE_MODES.iter()).copied().find(|e| e.text() == s)
    }
    pub fn is_late(self) -> bool {
        LATE_MODES.contains(&self)
    }
    pub fn is_hold(self) -> bool {
        HOLD_MODES.contains(&self)
    }
}

#[derive(Clone, Debug, PartialEq, Eq)]
pub struct TcpScn {
    pub entry: Entry,
    pub mode: Mode,
    pub up: usize,
    pub down: usize,
    pub upc: Chunk,
    pub downc: Chunk,
    /// the receiver of the larger payload starts reading this late; in the hold modes: the pause of
    /// the side that keeps the connection open before each of its messages and before its close
    pub slow_ms: u64,
    pub seed: u64,
    /// late modes: SO_RCVBUF of the late reader's socket (0 = the system's default)
    pub rcvbuf: usize,
    /// late modes: the late reader's pause after every read of at most 32 KiB (0 = reads at full speed)
    pub pace_ms: u64,
    /// optimistic data: the local client writes the first `early` bytes of its upload (all of it when the upload
    /// is shorter) IN THE SAME WRITE as the last message of its handshake (SOCKS4/4a: the request, SOCKS5: the
    /// request, HTTP: the CONNECT header), i.e. before it has read the proxy's reply; then it reads the replies
    /// and goes on with the rest of its script (which sends only what is left).  0 = the client waits for the
    /// reply before it sends anything.  On a fixed remote (no handshake) the bytes are simply written first.
    pub early: usize,
    /// SOCKS5 only: the greeting, the request (and the early bytes) go out in ONE write, the method selection
    /// and the reply are read afterwards; `false` = the greeting alone, method selection awaited, then the request
    pub hello_joined: bool,
    /// split handshake: the local client writes its handshake in PIECES, cut at these byte offsets (ascending; they
    /// count over the concatenation of the client's handshake messages for the entry kind, see `handshake_msgs`:
    /// SOCKS4/4a: the request; SOCKS5: greeting ++ request; HTTP: the CONNECT header; early bytes, when there are
    /// any, follow the last message and count on).  Every piece is one `write_all` + `flush` on a socket with
    /// `TCP_NODELAY`, followed by a pause of `SPLIT_PAUSE_MS`, so that the proxy's read returns with that piece
    /// alone.  A cut on a message boundary where the client has to wait for the proxy's answer first (SOCKS5:
    /// greeting | request, unless `hello=joined`) is the ordinary "write, await the answer, write"; an offset outside
    /// the handshake cuts nothing.  Empty = every message in one write (the behaviour of every other family).
    pub split: Vec<usize>,
}

/// The pause between two pieces of a split handshake: long enough for the proxy's task to have been woken, to have
/// read the piece and to be waiting for more (on loopback with `TCP_NODELAY` that takes well under a millisecond;
/// the rest is margin for a loaded machine), short enough for byte-by-byte delivery of an HTTP CONNECT header.
pub const SPLIT_PAUSE_MS: u64 = 30;

impl TcpScn {
    pub fn line(&self) -> String {
        let mut l = format!(
            "tcp entry={} mode={} up={} down={} upc={} downc={} slow={} seed={}",
            self.entry.text(), self.mode.text(), self.up, self.down, self.upc.text(), self.downc.text(), self.slow_ms, self.seed
        );
        if self.mode.is_late() {
            l.push_str(&format!(" rcvbuf={} pace={}", self.rcvbuf, self.pace_ms));
        }
        if self.early > 0 {
            l.push_str(&format!(" early={}", self.early));
        }
        if self.hello_joined {
            l.push_str(" hello=joined");
        }
        if !self.split.is_empty() {
            l.push_str(&format!(" split={}", self.split.iter().map(usize::to_string).collect::<Vec<_>>().join(",")));
        }
        l
    }
    /// the split-handshake family: the handshake leaves the local client in more than one piece
    pub fn is_split(&self) -> bool {
        !self.split.is_empty()
    }
    /// the cuts that really cut something: (offset, where it falls), see `cut_label`
    pub fn split_cuts(&self) -> Vec<(usize, String)> {
        let joined = self.hello_joined && self.entry.is_socks5();
        let early = if self.early > 0 { self.early_bytes() } else { 0 };
        self.split.iter().filter_map(|k| cut_label(self.entry, joined, early, *k).map(|l| (*k, l))).collect()
    }
    /// the optimistic-data family: the client does not wait for (all of) the proxy's replies before it goes on
    /// (and writes each of its messages in one piece: otherwise the scenario belongs to the split-handshake family)
    pub fn is_early(&self) -> bool {
        (self.early > 0 || self.hello_joined) && !self.is_split()
    }
    /// how many bytes of the upload travel with the handshake
    pub fn early_bytes(&self) -> usize {
        let (c, _) = self.scripts();
        self.early.min(c.send.len())
    }
    pub fn parse(line: &str) -> Option<Self> {
        let mut t = line.split_whitespace();
        if t.next()? != "tcp" {
            return None;
        }
        let mut s = TcpScn { entry: Entry::Tcp, mode: Mode::Echo, up: 0, down: 0, upc: Chunk::Whole, downc: Chunk::Whole, slow_ms: 0, seed: 0, rcvbuf: 0, pace_ms: 0, early: 0, hello_joined: false, split: vec![] };
        for kv in t {
            let (k, v) = kv.split_once('=')?;
            match k {
                "entry" => s.entry = Entry::parse(v)?,
                "mode" => s.mode = Mode::parse(v)?,
                "up" => s.up = v.parse().ok()?,
                "down" => s.down = v.parse().ok()?,
                "upc" => s.upc = Chunk::parse(v)?,
                "downc" => s.downc = Chunk::parse(v)?,
                "slow" => s.slow_ms = v.parse().ok()?,
                "seed" => s.seed = v.parse().ok()?,
                "rcvbuf" => s.rcvbuf = v.parse().ok()?,
                "pace" => s.pace_ms = v.parse().ok()?,
                "early" => s.early = v.parse().ok()?,
                "hello" => {
                    s.hello_joined = match v {
                        "joined" => true,
                        "alone" => false,
                        _ => return None,
                    }
                }
                "split" => {
                    // `none`, or offsets > 0 in strictly ascending order
                    if v != "none" {
                        s.split = v.split(',').map(|k| k.parse().ok()).collect::<Option<Vec<usize>>>()?;
                        if s.split.first() == Some(&0) || s.split.windows(2).any(|p| p[0] >= p[1]) {
                            return None;
                        }
                    }
                }
                _ => return None,
            }
        }
        Some(s)
    }
    fn up_bytes(&self) -> Vec<u8> {
        payload(self.seed.wrapping_mul(2), self.up)
    }
    fn down_bytes(&self) -> Vec<u8> {
        payload(self.seed.wrapping_mul(2) + 1, self.down)
    }
    /// (client script, target script); the target script is unused for `Refuse`.
    fn scripts(&self) -> (Script, Script) {
        let up = self.up_bytes();
        let down = self.down_bytes();
        let (cslow, tslow) = if self.up >= self.down { (0, self.slow_ms) } else { (self.slow_ms, 0) };
        let c = |role| Script { role, send: up.clone(), chunk: self.upc.clone(), read_delay_ms: cslow, gate: None, rcvbuf: None };
        let t = |role| Script { role, send: down.clone(), chunk: self.downc.clone(), read_delay_ms: tslow, gate: None, rcvbuf: None };
        let n = |after, sd| Role::Normal { after_peer_eof: after, shutdown: sd };
        let gate = Some(Arc::new(Gate::new()));
        match self.mode {
            Mode::ClientFirstHold => (
                Script { read_delay_ms: 0, gate: gate.clone(), ..c(n(false, true)) },
                Script { read_delay_ms: self.slow_ms, gate, ..t(Role::Hold) },
            ),
            Mode::TargetFirstHold => (
                Script { read_delay_ms: self.slow_ms, gate: gate.clone(), ..c(Role::Hold) },
                Script { read_delay_ms: 0, gate, ..t(n(false, true)) },
            ),
            Mode::Echo => (c(n(false, true)), Script { send: vec![], ..t(Role::Echo) }),
            Mode::ClientFirst => (c(n(false, true)), t(n(true, true))),
            Mode::TargetFirst => (c(n(true, true)), t(n(false, true))),
            Mode::Duplex => (c(n(false, true)), t(n(false, true))),
            Mode::TargetCloses => (c(n(false, false)), t(Role::CloseAfter { n: self.up })),
            Mode::TargetDrops => (Script { send: vec![], ..c(n(true, false)) }, t(Role::DropAfterSend)),
            Mode::ClientDrops => (c(Role::DropAfterSend), Script { send: vec![], ..t(n(true, false)) }),
            Mode::Refuse => (Script { send: vec![], ..c(n(true, false)) }, t(Role::Echo)),
            Mode::LateTarget => (
                Script { read_delay_ms: 0, ..c(n(true, true)) },
                Script { read_delay_ms: self.slow_ms, rcvbuf: self.rcvbuf_opt(), ..t(Role::Late { pace_ms: self.pace_ms }) },
            ),
            Mode::LateClient => (
                Script { read_delay_ms: self.slow_ms, rcvbuf: self.rcvbuf_opt(), ..c(Role::Late { pace_ms: self.pace_ms }) },
                Script { read_delay_ms: 0, ..t(n(true, true)) },
            ),
        }
    }
    fn rcvbuf_opt(&self) -> Option<u32> {
        (self.rcvbuf > 0).then(|| self.rcvbuf.min(u32::MAX as usize) as u32)
    }
    /// late modes: how long the late reader may need on a direct connection before its first `step()` can
    /// even start running out (the delay plus the pauses of a slow reader, generously)
    pub fn late_allowance(&self) -> Duration {
        if !self.mode.is_late() {
            return Duration::ZERO;
        }
        let reads = (self.up.max(self.down) / 2048 + 2) as u64; // a small receive buffer makes the reads small
        Duration::from_millis(self.slow_ms + 2 * reads * self.pace_ms)
    }
}

#[derive(Clone, Debug, Default)]
pub struct ConnObs {
    pub client: SideObs,
    pub target: Option<SideObs>,
    /// the proxy handshake (SOCKS reply / HTTP status), when there is one
    pub handshake: String,
    pub handshake_fail: Option<String>,
    pub target_connected: bool,
    pub ms: u64,
}

async fn read_exact_t<S: AsyncReadExt + Unpin>(s: &mut S, n: usize, what: &str) -> Result<Vec<u8>, String> {
    let mut buf = vec![0u8; n];
    match tokio::time::timeout(step(), s.read_exact(&mut buf)).await {
        Err(_) => Err(format!("HANG waiting for {what}")),
        Ok(Err(e)) => Err(format!("{what}: {e}")),
        Ok(Ok(_)) => Ok(buf),
    }
}

/// The conforming-client side of the entry point's handshake. `Ok(text)` = the tunnel is said to be
/// open; `Err` = the proxy refused / closed / hung.
async fn w(s: &mut BoxStream, b: Vec<u8>) -> Result<(), String> {
    match tokio::time::timeout(step(), s.write_all(&b)).await {
        Err(_) => Err("HANG writing the request".to_string()),
        Ok(Err(e)) => Err(format!("writing the request: {e}")),
        Ok(Ok(())) => Ok(()),
    }
}

/// What a conforming client sends in the entry point's handshake, message by message (SOCKS5: greeting, request;
/// the fixed remotes: nothing).
pub fn handshake_msgs(entry: Entry, ip4: [u8; 4], port: u16) -> Vec<Vec<u8>> {
    match entry {
        Entry::Tcp | Entry::Uds => vec![],
        Entry::Socks4 | Entry::Socks4a => {
            let mut req = vec![4u8, 1];
            req.extend_from_slice(&port.to_be_bytes());
            if entry == Entry::Socks4 {
                req.extend_from_slice(&ip4);
                req.extend_from_slice(b"verif\0");
            } else {
                req.extend_from_slice(&[0, 0, 0, 7]);
                req.extend_from_slice(b"verif\0");
                req.extend_from_slice(b"localhost\0");
            }
            vec![req]
        }
        Entry::Socks5V4 | Entry::Socks5V6 | Entry::Socks5Dom => {
            let mut req = vec![5u8, 1, 0];
            match entry {
                Entry::Socks5V4 => {
                    req.push(1);
                    req.extend_from_slice(&ip4);
                }
                Entry::Socks5V6 => {
                    req.push(4);
                    req.extend_from_slice(&std::net::Ipv6Addr::LOCALHOST.octets());
                }
                _ => {
                    req.push(3);
                    req.push(9);
                    req.extend_from_slice(b"localhost");
                }
            }
            req.extend_from_slice(&port.to_be_bytes());
            vec![vec![5, 1, 0], req]
        }
        Entry::HttpV4 | Entry::HttpV6 | Entry::HttpDom => {
            let host = match entry {
                Entry::HttpV4 => format!("{}.{}.{}.{}:{port}", ip4[0], ip4[1], ip4[2], ip4[3]),
                Entry::HttpV6 => format!("[::1]:{port}"),
                _ => format!("localhost:{port}"),
            };
            vec![format!("CONNECT {host} HTTP/1.1\r\nHost: {host}\r\n\r\n").into_bytes()]
        }
    }
}

/// The length of the client's write that carries the early bytes, without them (what shares the proxy's
/// negotiation buffer with the payload).
pub fn last_handshake_write_len(entry: Entry, joined: bool) -> usize {
    let m = handshake_msgs(entry, [127, 0, 0, 1], 40_000);
    if joined { m.iter().map(Vec::len).sum() } else { m.last().map_or(0, Vec::len) }
}

/// The fields of the client's handshake in the order in which they are sent: (name, length), message by message
/// (same messages as `handshake_msgs`; the lengths add up to the lengths of those messages).
pub fn handshake_fields(entry: Entry, port: u16) -> Vec<Vec<(&'static str, usize)>> {
    let host_len = |e: Entry| match e {
        Entry::HttpV4 => format!("127.0.0.1:{port}").len(),
        Entry::HttpV6 => format!("[::1]:{port}").len(),
        _ => format!("localhost:{port}").len(),
    };
    match entry {
        Entry::Tcp | Entry::Uds => vec![],
        Entry::Socks4 => vec![vec![("vn", 1), ("cd", 1), ("dstport", 2), ("dstip", 4), ("userid", 5), ("userid-nul", 1)]],
        Entry::Socks4a => vec![vec![("vn", 1), ("cd", 1), ("dstport", 2), ("dstip", 4), ("userid", 5), ("userid-nul", 1), ("hostname", 9), ("hostname-nul", 1)]],
        Entry::Socks5V4 | Entry::Socks5V6 | Entry::Socks5Dom => {
            let mut req = vec![("ver", 1), ("cmd", 1), ("rsv", 1), ("atyp", 1)];
            match entry {
                Entry::Socks5V4 => req.push(("addr", 4)),
                Entry::Socks5V6 => req.push(("addr", 16)),
                _ => req.extend([("domain-len", 1), ("addr", 9)]),
            }
            req.push(("port", 2));
            vec![vec![("greeting-ver", 1), ("greeting-nmethods", 1), ("greeting-methods", 1)], req]
        }
        Entry::HttpV4 | Entry::HttpV6 | Entry::HttpDom => {
            let h = host_len(entry);
            // CONNECT host HTTP/1.1 CRLF Host: host CRLF CRLF
            vec![vec![("method", 7), ("sp", 1), ("target", h), ("sp", 1), ("version", 8), ("crlf", 2), ("header-name", 5), ("header-value", 1 + h), ("crlfcrlf", 4)]]
        }
    }
}

/// The length of the client's whole handshake (all messages).  Offsets of cuts are computed for a target port of
/// five digits, which is what the world's targets get (ephemeral ports, 32768 and up); with a shorter port the
/// offsets behind the port of an HTTP CONNECT request move to the left by a byte or two per occurrence.
pub fn handshake_len(entry: Entry) -> usize {
    handshake_fields(entry, 40_000).iter().flatten().map(|(_, n)| n).sum()
}

/// Every offset at which a cut really cuts the handshake of this entry kind, with where it falls.
pub fn cut_positions(entry: Entry, joined: bool) -> Vec<(usize, String)> {
    (1..handshake_len(entry)).filter_map(|k| cut_label(entry, joined, 0, k).map(|l| (k, l))).collect()
}

/// Where a cut at offset `k` of the client's handshake (pieces `..k` and `k..`) falls: `inside-<field>` or
/// `<field>|<next field>`.  `None` when nothing is cut there: offset 0, an offset at or past the end, and the
/// boundary between two messages of which the second is sent only after the proxy's answer to the first (SOCKS5
/// greeting | request when they are not `joined`).  `early` payload bytes follow the last message.
pub fn cut_label(entry: Entry, joined: bool, early: usize, k: usize) -> Option<String> {
    let msgs = handshake_fields(entry, 40_000);
    let mut at = 0usize;
    let mut prev: Option<&'static str> = None;
    for (mi, m) in msgs.iter().enumerate() {
        for (fi, (name, len)) in m.iter().enumerate() {
            if k == at {
                // a field boundary
                let first_of_later_msg = fi == 0 && mi > 0;
                return match prev {
                    None => None,
                    Some(_) if first_of_later_msg && !joined => None,
                    Some(p) => Some(format!("{p}|{name}")),
                };
            }
            if k < at + len {
                return Some(format!("inside-{name}"));
            }
            at += len;
            prev = Some(name);
        }
    }
    match (prev, k - at) {
        (Some(p), 0) if early > 0 => Some(format!("{p}|payload")),
        (_, d) if d > 0 && d < early => Some("inside-payload".to_string()),
        _ => None,
    }
}

/// Write one handshake message whose first byte has offset `base` in the concatenation of the client's handshake
/// messages: in one write when no cut of `split` falls strictly inside it, otherwise piece by piece, every piece
/// flushed and followed by a pause (none after the last piece of the message: what follows is either the wait for
/// the proxy's answer or the rest of the scenario).
async fn w_split(s: &mut BoxStream, b: Vec<u8>, base: usize, split: &[usize]) -> Result<(), String> {
    let mut from = 0usize;
    for cut in split.iter().filter(|k| **k > base && **k < base + b.len()).map(|k| k - base) {
        w(s, b[from..cut].to_vec()).await?;
        match tokio::time::timeout(step(), s.flush()).await {
            Err(_) => return Err("HANG flushing a piece of the request".to_string()),
            Ok(Err(e)) => return Err(format!("flushing a piece of the request: {e}")),
            Ok(Ok(())) => {}
        }
        tokio::time::sleep(Duration::from_millis(SPLIT_PAUSE_MS)).await;
        from = cut;
    }
    w(s, b[from..].to_vec()).await
}

/// `early`: payload bytes that go out in the same write as the last handshake message, before any reply to it
/// has been read; `joined` (SOCKS5): greeting and request in one write as well; `split`: the offsets at which
/// the handshake is cut into pieces that are written one by one (`TcpScn::split`).
pub async fn handshake(entry: Entry, s: &mut BoxStream, ip4: [u8; 4], port: u16, early: &[u8], joined: bool, split: &[usize]) -> Result<String, String> {
    let mut msgs = handshake_msgs(entry, ip4, port);
    if joined && msgs.len() > 1 {
        msgs = vec![msgs.concat()];
    }
    match msgs.last_mut() {
        Some(last) => last.extend_from_slice(early),
        None if !early.is_empty() => msgs.push(early.to_vec()),
        None => {}
    }
    // offset of each message in the concatenation
    let mut bases = vec![];
    let mut at = 0usize;
    for m in &msgs {
        bases.push(at);
        at += m.len();
    }
    let mut msgs = msgs.into_iter().zip(bases);
    // the next message, piece by piece
    macro_rules! send_next {
        () => {
            if let Some((m, base)) = msgs.next() {
                w_split(s, m, base, split).await?;
            }
        };
    }
    match entry {
        Entry::Tcp | Entry::Uds => {
            for (m, base) in msgs {
                w_split(s, m, base, split).await?;
            }
            Ok(String::new())
        }
        Entry::Socks4 | Entry::Socks4a => {
            send_next!();
            let rep = read_exact_t(s, 8, "the SOCKS4 reply").await?;
            if rep[0] != 0 || rep[1] != 90 {
                return Err(format!("SOCKS4 reply {}", pvhf::hex(&rep)));
            }
            Ok(format!("socks4 reply {}", pvhf::hex(&rep)))
        }
        Entry::Socks5V4 | Entry::Socks5V6 | Entry::Socks5Dom => {
            // either the greeting alone, or greeting + request (+ early bytes) in one write
            send_next!();
            let m = read_exact_t(s, 2, "the SOCKS5 method selection").await?;
            if m != [5, 0] {
                return Err(format!("SOCKS5 method selection {}", pvhf::hex(&m)));
            }
            send_next!();
            let head = read_exact_t(s, 4, "the SOCKS5 reply").await?;
            let alen = match head[3] {
                1 => 4,
                4 => 16,
                3 => read_exact_t(s, 1, "the SOCKS5 reply (domain length)").await?[0] as usize,
                t => return Err(format!("SOCKS5 reply with address type {t}")),
            };
            let rest = read_exact_t(s, alen + 2, "the SOCKS5 reply (address)").await?;
            if head[0] != 5 || head[1] != 0 {
                return Err(format!("SOCKS5 reply {}{}", pvhf::hex(&head), pvhf::hex(&rest)));
            }
            Ok(format!("socks5 reply {}{}", pvhf::hex(&head), pvhf::hex(&rest)))
        }
        Entry::HttpV4 | Entry::HttpV6 | Entry::HttpDom => {
            send_next!();
            let mut head = vec![];
            while !head.ends_with(b"\r\n\r\n") {
                if head.len() > 4096 {
                    return Err("HTTP response header longer than 4096 bytes".into());
                }
                head.extend(read_exact_t(s, 1, "the HTTP CONNECT response").await?);
            }
            let text = String::from_utf8_lossy(&head).to_string();
            let status = text.split_whitespace().nth(1).unwrap_or("");
            if !status.starts_with('2') {
                return Err(format!("HTTP CONNECT answered `{}`", text.lines().next().unwrap_or("")));
            }
            Ok(format!("http `{}`", text.lines().next().unwrap_or("")))
        }
    }
}

/// Run one connection on target slot `slot` of the world.
pub async fn run_conn(w: Arc<World>, slot: usize, sc: TcpScn) -> ConnObs {
    let t0 = std::time::Instant::now();
    let mut obs = ConnObs::default();
    let (mut cscript, tscript) = sc.scripts();
    // optimistic data: these bytes leave with the handshake, the script sends only what is left
    let n_early = sc.early.min(cscript.send.len());
    let early: Vec<u8> = cscript.send.drain(..n_early).collect();
    let refuse = sc.mode == Mode::Refuse;
    let mut rx = None;
    if !refuse {
        let (tx, r) = oneshot::channel();
        w.slots[slot].queue.lock().unwrap().push_back(TargetJob { script: tscript, done: tx });
        rx = Some(r);
    }
    let target_port = if refuse { w.closed_port } else if sc.entry.v6_target() { w.slots[slot].v6.port() } else { w.slots[slot].v4.port() };
    // connect to the entry point
    let conn: Result<BoxStream, String> = async {
        match sc.entry {
            Entry::Uds => {
                let p = if refuse { &w.refuse_uds_path } else { &w.uds_paths[slot] };
                match tokio::time::timeout(step(), UnixStream::connect(p)).await {
                    Err(_) => Err("HANG connecting to the unix socket".into()),
                    Ok(Err(e)) => Err(format!("connect unix socket: {e}")),
                    Ok(Ok(s)) => Ok(Box::new(s) as BoxStream),
                }
            }
            _ => {
                let (host, port) = match sc.entry {
                    Entry::Tcp => (w.tcp_hosts[slot], if refuse { w.refuse_tcp_port } else { w.tcp_ports[slot] }),
                    Entry::Socks4 | Entry::Socks4a | Entry::Socks5V4 | Entry::Socks5V6 | Entry::Socks5Dom => (w.socks_host, w.socks_port),
                    _ => (w.http_host, w.http_port),
                };
                match tokio::time::timeout(step(), TcpStream::connect((host, port))).await {
                    Err(_) => Err("HANG connecting to the entry point".into()),
                    Ok(Err(e)) => Err(format!("connect entry point: {e}")),
                    Ok(Ok(s)) => {
                        let _ = s.set_nodelay(true);
                        if let Some(n) = cscript.rcvbuf {
                            let _ = crate::io::set_rcvbuf(&s, n);
                        }
                        Ok(Box::new(s) as BoxStream)
                    }
                }
            }
        }
    }
    .await;
    let mut stream = match conn {
        Ok(s) => s,
        Err(e) => {
            obs.client.infra = Some(e);
            if let Some(_r) = rx {
                w.slots[slot].queue.lock().unwrap().clear();
            }
            return obs;
        }
    };
    match handshake(sc.entry, &mut stream, [127, 0, 0, 1], target_port, &early, sc.hello_joined && sc.entry.is_socks5(), &sc.split).await {
        Ok(t) => obs.handshake = t,
        Err(e) => {
            obs.handshake_fail = Some(e);
            if refuse {
                // a refusal reported in the handshake, then closed: fine
                obs.ms = t0.elapsed().as_millis() as u64;
                return obs;
            }
            // the target job may or may not have been taken
            let taken = tokio::time::timeout(Duration::from_millis(300), rx.take().unwrap()).await;
            if let Ok(Ok(t)) = taken {
                obs.target = Some(t);
                obs.target_connected = true;
            } else {
                w.slots[slot].queue.lock().unwrap().clear();
            }
            obs.ms = t0.elapsed().as_millis() as u64;
            return obs;
        }
    }
    obs.client = run_side(stream, &cscript).await;
    obs.client.sent += n_early;
    if let Some(r) = rx {
        match tokio::time::timeout(step() + Duration::from_secs(2) + sc.late_allowance(), r).await {
            Ok(Ok(t)) => {
                obs.target = Some(t);
                obs.target_connected = true;
            }
            _ => {
                // never accepted (or the target side hangs): take the job back if it is still queued
                let mut q = w.slots[slot].queue.lock().unwrap();
                obs.target_connected = q.is_empty();
                q.clear();
            }
        }
    }
    obs.ms = t0.elapsed().as_millis() as u64;
    let _ = w.unexpected_target_conns.load(Ordering::SeqCst);
    obs
}

/// The property statement on one connection: (key suffix, description) per violation.
pub fn check_conn(sc: &TcpScn, o: &ConnObs) -> Vec<(String, String)> {
    let mut bad: Vec<(String, String)> = vec![];
    macro_rules! push {
        ($k:expr, $d:expr $(,)?) => {
            bad.push(($k.to_string(), $d))
        };
    }
    if let Some(e) = &o.client.infra {
        push!("entry-point-unreachable", format!("the local client could not connect to the entry point: {e}"));
        return bad;
    }
    let up = sc.up_bytes();
    let down = sc.down_bytes();
    if sc.mode == Mode::Refuse {
        if o.handshake_fail.as_deref().is_some_and(|e| e.starts_with("HANG")) {
            push!("refused-left-hanging", format!("target refuses; the entry point's handshake hangs: {}", o.handshake_fail.clone().unwrap()));
        } else if o.handshake_fail.is_none() {
            // the tunnel was announced open: the local connection must now be closed, not left hanging
            if let Some(h) = &o.client.hang {
                push!("refused-left-hanging", format!("target refuses the connection, but the local connection is neither closed nor reset within {} s ({h})", step().as_secs()));
            } else if !o.client.received.is_empty() {
                push!("refused-got-data", format!("target refuses, yet the local client received {} bytes", o.client.received.len()));
            }
        }
        return bad;
    }
    if let Some(e) = &o.handshake_fail {
        push!("handshake-failed", format!("the entry point did not open the tunnel to a listening target: {e}"));
        return bad;
    }
    let Some(t) = &o.target else {
        push!(
            "target-never-finished",
            if o.target_connected {
                format!("the target's side of the connection did not finish within {} s (client side: hang={:?} eof={} received={})", step().as_secs(), o.client.hang, o.client.saw_eof, o.client.received.len())
            } else {
                "no connection ever reached the target".to_string()
            },
        );
        return bad;
    };
    if sc.mode == Mode::LateTarget {
        return check_late(&o.client, t, "client", "target", "upload", &down, &up);
    }
    if sc.mode == Mode::LateClient {
        return check_late(t, &o.client, "target", "client", "download", &up, &down);
    }
    if sc.mode.is_hold() {
        return if sc.mode == Mode::ClientFirstHold {
            check_hold(&o.client, t, "client", "target", &up, &down)
        } else {
            check_hold(t, &o.client, "target", "client", &down, &up)
        };
    }
    // what each side must have received
    let (want_at_target, target_reads_all): (&[u8], bool) = match sc.mode {
        Mode::TargetDrops => (&[], false),
        _ => (&up, true),
    };
    let want_at_client: &[u8] = match sc.mode {
        Mode::Echo => &up,
        Mode::ClientDrops => &[],
        _ => &down,
    };
    if target_reads_all && t.received != want_at_target {
        let k = if want_at_target.starts_with(&t.received) { "client-to-target-incomplete" } else { "client-to-target-corrupt" };
        push!(k, format!("client -> target: {}{}", diff(&t.received, want_at_target), t.hang.as_ref().map(|h| format!("; target: HANG {h}")).unwrap_or_default()));
    }
    if sc.mode != Mode::ClientDrops && o.client.received != want_at_client {
        let k = if want_at_client.starts_with(&o.client.received) { "target-to-client-incomplete" } else { "target-to-client-corrupt" };
        push!(k, format!("target -> client: {}{}", diff(&o.client.received, want_at_client), o.client.hang.as_ref().map(|h| format!("; client: HANG {h}")).unwrap_or_default()));
    }
    // end-of-stream propagation
    let client_must_see_eof = sc.mode != Mode::ClientDrops;
    let target_must_see_eof = matches!(sc.mode, Mode::Echo | Mode::ClientFirst | Mode::TargetFirst | Mode::Duplex | Mode::ClientDrops);
    if client_must_see_eof && !o.client.saw_eof && bad.is_empty() {
        let how = match (&o.client.hang, &o.client.read_err) {
            (Some(h), _) => format!("left hanging: {h}"),
            (_, Some(e)) => format!("read error instead: {e}"),
            _ => "no end-of-stream".into(),
        };
        // a reset after all data is still "closed, not hanging" for the complete-close modes
        let closed_anyway = o.client.read_err.is_some() && matches!(sc.mode, Mode::TargetCloses | Mode::TargetDrops);
        if !closed_anyway {
            push!("client-no-eof", format!("the target finished/closed its sending direction, the local client got all data but no end-of-stream ({how})"));
        }
    }
    if target_must_see_eof && !t.saw_eof && bad.is_empty() {
        let how = match (&t.hang, &t.read_err) {
            (Some(h), _) => format!("left hanging: {h}"),
            (_, Some(e)) => format!("read error instead: {e}"),
            _ => "no end-of-stream".into(),
        };
        let closed_anyway = t.read_err.is_some() && sc.mode == Mode::ClientDrops;
        if !closed_anyway {
            push!("target-no-eof", format!("the local client finished/closed its sending direction, the target got all data but no end-of-stream ({how})"));
        }
    }
    // the other direction keeps working after a half-close
    match sc.mode {
        Mode::ClientFirst if bad.is_empty() => {
            if !t.wrote_after_eof || t.sent != down.len() || t.write_err.is_some() {
                push!("reverse-direction-broken-after-half-close", format!("after the client's half-close the target could write only {} of {} bytes ({:?})", t.sent, down.len(), t.write_err));
            }
        }
        Mode::TargetFirst if bad.is_empty() => {
            if !o.client.wrote_after_eof || o.client.sent != up.len() || o.client.write_err.is_some() {
                push!("reverse-direction-broken-after-half-close", format!("after the target's half-close the client could write only {} of {} bytes ({:?})", o.client.sent, up.len(), o.client.write_err));
            }
        }
        _ => {}
    }
    bad
}

/// The late modes. `late` = the end that sent `late_sent` (short), half-closed at once and started reading late;
/// `writer` = the end that read that to end-of-stream, then wrote `bulk`, half-closed and closed.  On a direct
/// connection: the writer reads `late_sent` and a clean end-of-stream, can write all of `bulk`, and the late end
/// reads exactly `bulk` followed by a clean end-of-stream, never an error.
fn check_late(writer: &SideObs, late: &SideObs, writer_name: &str, late_name: &str, what: &str, late_sent: &[u8], bulk: &[u8]) -> Vec<(String, String)> {
    let mut bad: Vec<(String, String)> = vec![];
    let how = |s: &SideObs| match (&s.hang, &s.read_err) {
        (Some(h), _) => format!("left hanging: {h}"),
        (_, Some(e)) => format!("read error instead: {e}"),
        _ => "no end-of-stream".to_string(),
    };
    // the premise: the short message and the half-close of the late end reach the writer
    if writer.received != late_sent {
        let k = if late_sent.starts_with(&writer.received) { "incomplete" } else { "corrupt" };
        bad.push((
            format!("{late_name}-to-{writer_name}-{k}"),
            format!("{late_name} -> {writer_name}: {}{}", diff(&writer.received, late_sent), writer.hang.as_ref().map(|h| format!("; {writer_name}: HANG {h}")).unwrap_or_default()),
        ));
        return bad;
    }
    if !writer.saw_eof {
        bad.push((
            format!("{writer_name}-no-eof"),
            format!("the {late_name} sent {} bytes and half-closed at once; the {writer_name} got the data but no end-of-stream ({})", late_sent.len(), how(writer)),
        ));
        return bad;
    }
    // the other direction keeps working
    if writer.sent != bulk.len() || writer.write_err.is_some() {
        bad.push((
            "reverse-direction-broken-after-half-close".into(),
            format!(
                "after the {late_name}'s half-close the {writer_name} could write only {} of {} bytes ({:?} {:?}) while the {late_name} had not begun to read",
                writer.sent, bulk.len(), writer.write_err, writer.hang
            ),
        ));
        return bad;
    }
    // the judgement proper, at the late reader
    let got = late.received.len();
    if let Some(e) = &late.read_err {
        bad.push((
            "reset-instead-of-eof".into(),
            format!(
                "the {writer_name} wrote {} bytes, half-closed and closed; the {late_name} (which had half-closed first and read late) read {got} of them{} and then got a read error instead of end-of-stream: {e}",
                bulk.len(),
                if late.received == bulk { "" } else if bulk.starts_with(&late.received) { " (a proper prefix: the tail is lost)" } else { " (not what was sent)" },
            ),
        ));
        return bad;
    }
    if late.received != bulk {
        let k = if bulk.starts_with(&late.received) && late.saw_eof {
            format!("{what}-truncated")
        } else if bulk.starts_with(&late.received) {
            "hang".to_string()
        } else {
            format!("{what}-corrupt")
        };
        bad.push((
            k,
            format!(
                "{writer_name} -> {late_name} (the {late_name} had half-closed first and read late): {}; end-of-stream={}{}",
                diff(&late.received, bulk), late.saw_eof, late.hang.as_ref().map(|h| format!("; {late_name}: HANG {h}")).unwrap_or_default()
            ),
        ));
        return bad;
    }
    if !late.saw_eof {
        bad.push((
            "hang".into(),
            format!("the {writer_name} wrote {} bytes, half-closed and closed; the {late_name} got all data but no end-of-stream ({})", bulk.len(), how(late)),
        ));
    }
    bad
}

/// The hold modes. `first` = the end that sends `first_sent` and half-closes first, `holder` = the
/// end that then sends `holder_sent` message by message and keeps the connection open. On a direct
/// connection: the holder reads `first_sent` and end-of-stream; every message of the holder is at
/// `first` at once, while the holder does nothing but wait; `first` reads end-of-stream after the
/// holder has closed, not before.
fn check_hold(first: &SideObs, holder: &SideObs, first_name: &str, holder_name: &str, first_sent: &[u8], holder_sent: &[u8]) -> Vec<(String, String)> {
    let mut bad: Vec<(String, String)> = vec![];
    let how = |s: &SideObs| match (&s.hang, &s.read_err) {
        (Some(h), _) => format!("left hanging: {h}"),
        (_, Some(e)) => format!("read error instead: {e}"),
        _ => "no end-of-stream".to_string(),
    };
    if holder.received != first_sent {
        let k = if first_sent.starts_with(&holder.received) { "incomplete" } else { "corrupt" };
        bad.push((
            format!("{first_name}-to-{holder_name}-{k}"),
            format!("{first_name} -> {holder_name}: {}{}", diff(&holder.received, first_sent), holder.hang.as_ref().map(|h| format!("; {holder_name}: HANG {h}")).unwrap_or_default()),
        ));
        return bad;
    }
    if !holder.saw_eof {
        bad.push((
            format!("{holder_name}-no-eof"),
            format!("the {first_name} finished its sending direction, the {holder_name} got all data but no end-of-stream ({})", how(holder)),
        ));
        return bad;
    }
    if let Some(u) = &holder.unconfirmed {
        let end = u.offset + u.len;
        let tail = format!(
            "in the end (after the {holder_name} had given up and closed) the {first_name} had {} of the {} bytes written, end-of-stream={}",
            first.received.len(), holder.sent, first.saw_eof
        );
        if u.peer_ended && first.saw_eof {
            bad.push((
                "eof-before-peer-closed".into(),
                format!(
                    "after the {first_name}'s half-close the {holder_name} wrote message {} ({} bytes) and kept the connection open; the {first_name} read end-of-stream after {} of {end} bytes although the {holder_name} had not closed; {tail}",
                    u.msg, u.len, u.peer_had
                ),
            ));
        } else if u.peer_ended {
            bad.push((
                "reverse-direction-broken-after-half-close".into(),
                format!(
                    "after the {first_name}'s half-close the {holder_name} wrote message {} ({} bytes) and kept the connection open; the {first_name}'s reading ended after {} of {end} bytes ({}); {tail}",
                    u.msg, u.len, u.peer_had, how(first)
                ),
            ));
        } else {
            bad.push((
                "withheld-after-half-close".into(),
                format!(
                    "after the {first_name}'s half-close the {holder_name} wrote message {} ({} bytes at offset {} of its direction) and kept the connection open and idle; {} ms later (bound {} ms) the {first_name} had received {} of the {end} bytes written so far (a direct connection delivers them at once); {tail}",
                    u.msg, u.len, u.offset, u.waited_ms, prompt().as_millis(), u.peer_had
                ),
            ));
        }
        return bad;
    }
    if holder.sent != holder_sent.len() || holder.write_err.is_some() || holder.hang.is_some() {
        bad.push((
            "reverse-direction-broken-after-half-close".into(),
            format!("after the {first_name}'s half-close the {holder_name} could write only {} of {} bytes ({:?} {:?})", holder.sent, holder_sent.len(), holder.write_err, holder.hang),
        ));
        return bad;
    }
    if first.received != holder_sent {
        let k = if holder_sent.starts_with(&first.received) { "incomplete" } else { "corrupt" };
        bad.push((
            format!("{holder_name}-to-{first_name}-{k}"),
            format!("{holder_name} -> {first_name}: {}{}", diff(&first.received, holder_sent), first.hang.as_ref().map(|h| format!("; {first_name}: HANG {h}")).unwrap_or_default()),
        ));
        return bad;
    }
    if !first.saw_eof {
        bad.push((
            format!("{first_name}-no-eof"),
            format!("the {holder_name} closed, the {first_name} got all data but no end-of-stream ({})", how(first)),
        ));
        return bad;
    }
    if let (Some(eof), Some(closed)) = (first.eof_at, holder.closed_at) {
        if eof < closed {
            bad.push((
                "eof-before-peer-closed".into(),
                format!("the {first_name} read end-of-stream {} ms before the {holder_name} closed its sending direction", (closed - eof).as_millis()),
            ));
        }
    }
    bad
}
