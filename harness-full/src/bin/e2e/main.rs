//! C01 — end-to-end transparency: the real `client_main_inner` and the real server (`run_listener`
//! + `State`) on loopback, scripted local clients and scripted targets.
//!
//! * tcp: one local connection per scenario through one entry point kind (fixed TCP remote, Unix
//!   socket, SOCKS4, SOCKS4a, SOCKS5 CONNECT to IPv4 / IPv6 / domain, HTTP CONNECT to IPv4 / IPv6 /
//!   domain), 1-4 of them concurrently; payload sizes, chunkings, close orders, refusal, dialogues
//!   after a half-close (one end half-closes, the other then sends short messages one at a time and
//!   keeps the connection open: each must arrive while nothing else happens).  Oracle =
//!   the property statement (a direct connection): exact bytes both ways, end-of-stream propagated
//!   per direction while the other direction keeps working, close/refusal ends the local connection.
//!   Late-reading peers (`mode=late-target`, `mode=late-client`): one end says what it has to say (a short
//!   reply or nothing), half-closes AT ONCE, makes its receive buffer small and does not read for a while
//!   (0.3 .. 2.5 s), then reads slowly or at full speed; the other end reads that to end-of-stream, writes
//!   64 KiB .. 3 MiB, half-closes and closes.  The late reader must get every byte and then a clean
//!   end-of-stream, never a reset (a direct connection keeps delivering after the writer's close).
//!   Optimistic data (`early=<n>`, `hello=joined`): the local client writes the first n bytes of its upload in the
//!   same write as the last message of its handshake (SOCKS4/4a request, SOCKS5 request or greeting + request,
//!   HTTP CONNECT header), reads the proxy's replies only then and goes on with the rest; n = 1 .. 70 000, also
//!   exactly what fills a 512-byte / 8 KiB parse buffer together with the request; the upload shorter than, equal
//!   to, longer than n.  Same rules: every byte at the target, in order, exactly once.
//!   Split handshake (`split=<k>[,<k2>..]`): the local client writes its handshake in pieces cut at the given offsets
//!   (inside the SOCKS4 user id / host name, inside the SOCKS5 greeting / request header / address / port, inside the
//!   HTTP request line / header / final CRLFCRLF, one byte per write), each piece flushed and followed by a short
//!   pause so that the proxy reads it alone.  Same rules: the tunnel opens, every byte arrives in order.
//! * udp: 1-4 local UDP clients x tagged echo targets through the UDP remotes or SOCKS5 UDP
//!   associations; every reply at exactly the originating socket, from the address it sent to,
//!   payload unmodified, (SOCKS5) behind a well-formed RFC 1928 header.
//!   One-way streams (`oneway=`): a client only SENDS, a datagram every few seconds, for longer than two
//!   periods of the client's prune task while the target is silent; then the target answers the last
//!   datagram and one more exchange follows: the answer must arrive like any other reply.
//!   Junk on the relay socket (`junk=`): a datagram that is not a well-formed RFC 1928 request is sent to the
//!   relay address of a SOCKS5 association (by its own client or by another local socket); the next
//!   ordinary exchange of every client must work (RFC 1928 section 7: the relay drops such datagrams).
//!   Long flows (`rounds=`): the exchanges are repeated on the same sockets without a pause until one flow has
//!   carried more than 64 KiB of replies (once, three times); every reply must arrive whole.
//!   Several local sockets on one association (`assoc=shared order=`): ONE UDP ASSOCIATE (one control connection,
//!   one relay address) used by 2-4 local sockets of the same host (different source ports) at the same time,
//!   one after the other, or with one socket closed and a new one taking over while the control connection
//!   stays open; every socket must get exactly its own replies.
//! * multi: several remotes on ONE client (multi.rs): 1-4 remotes drawn from fixed TCP remote, fixed UDP remote,
//!   SOCKS, HTTP proxy, Unix socket, in a given order, on 127.0.0.1 / [::1] / 0.0.0.0, on port numbers of their
//!   own or SHARED where the operating system allows it (a TCP listener and a UDP socket on one local address,
//!   any two sockets on one port number of two local hosts); every remote is exercised with a tcp / udp
//!   scenario as above, one after the other or all at the same time; an entry point that the running client
//!   never opens is a violation with a key of its own (`multi-remote:<kind>:entry-point-never-opened`).
//! * many: many connections open at once (many.rs): through ONE client and ONE entry point (fixed TCP remote, SOCKS5
//!   CONNECT, HTTP CONNECT, Unix socket) 17 .. 300 local connections are opened and all kept open; the target must
//!   accept as many; every connection, the last-opened like the first, then carries two short tokens of its own to the
//!   target and back (one connection after the other in a random order, then all at once); then half are closed by
//!   the local client and half by the target, every close seen at the other end (`many-open:<entry>:connection-not-served`,
//!   `:wrong-bytes`, `:close-not-propagated`).
//! * maps: the client's two UDP maps against the Lean model under the paused clock (maps.rs).
//!
//! Every wait is bounded; a hang is a failure.  A failing scenario is run again on its own in a
//! fresh world before it is reported (real time, shared machine); what could not be reproduced is
//! listed in the notes.

mod io;
mod many;
mod maps;
mod multi;
mod tcp;
mod udp;
mod world;

use io::Chunk;
use many::{ManyOutcome, ManyScn};
use multi::{MultiOutcome, MultiScn};
use pvhf::{Args, Driver, FailKind, Report, Rng, Tier, Value, fnv, json};
use std::sync::Arc;
use std::time::{Duration, Instant};
use tcp::{check_conn, run_conn, ConnObs, Entry, Mode, TcpScn, ALL_MODES, ENTRIES, MODES};

const KIB: usize = 1024;
use udp::{run_udp, Junk, JunkKind, OneWay, SharedOrder, UdpOutcome, UdpScn, JUNK_KINDS};
use world::{World, SLOTS};

#[derive(Clone, Debug)]
enum Scn {
    /// 1-4 concurrent connections, connection j on target slot j
    Tcp(Vec<TcpScn>),
    Udp(UdpScn),
    /// one client with a set of remotes of its own, every remote exercised (a world of its own)
    Multi(MultiScn),
    /// one client, one entry point, many connections held open at the same time (a world of its own)
    Many(ManyScn),
}

impl Scn {
    /// brings its own client: a world (and a job) of its own
    fn own_world(&self) -> bool {
        matches!(self, Scn::Multi(_) | Scn::Many(_))
    }
    fn line(&self) -> String {
        match self {
            Scn::Tcp(v) => v.iter().map(TcpScn::line).collect::<Vec<_>>().join(" | "),
            Scn::Udp(u) => u.line(),
            Scn::Multi(m) => m.line(),
            Scn::Many(m) => m.line(),
        }
    }
    fn parse(line: &str) -> Option<Self> {
        let line = line.trim();
        if line.starts_with("many") {
            return ManyScn::parse(line).map(Scn::Many);
        }
        if line.starts_with("multi") {
            return MultiScn::parse(line).map(Scn::Multi);
        }
        if line.starts_with("udp") {
            return UdpScn::parse(line).map(Scn::Udp);
        }
        let v: Option<Vec<TcpScn>> = line.split('|').map(|p| TcpScn::parse(p.trim())).collect();
        v.filter(|v| !v.is_empty() && v.len() <= SLOTS).map(Scn::Tcp)
    }
}

#[derive(Debug)]
enum Outcome {
    Tcp(Vec<ConnObs>, usize),
    Udp(UdpOutcome),
    Multi(MultiOutcome),
    Many(ManyOutcome),
    Infra(String),
}

/// How the local client of a split-handshake scenario delivered its handshake, in words.
fn split_how(s: &TcpScn) -> String {
    let cuts = s.split_cuts();
    let joined = s.hello_joined && s.entry.is_socks5();
    let n = tcp::handshake_len(s.entry);
    let what = match s.entry {
        Entry::Socks4 | Entry::Socks4a => "SOCKS4 request",
        e if e.is_socks5() && joined => "SOCKS5 greeting and request (sent without waiting for the method selection in between)",
        e if e.is_socks5() => "SOCKS5 greeting and request (the method selection awaited in between)",
        _ => "HTTP CONNECT request header",
    };
    let places = if cuts.len() > 6 && cuts.len() + 1 >= n - usize::from(s.entry.is_socks5() && !joined) {
        "one byte per write".to_string()
    } else {
        format!("cut {}", cuts.iter().map(|(k, l)| format!("after {k} byte(s) ({l})")).collect::<Vec<_>>().join(", "))
    };
    format!(
        "the local client wrote its {what}, {n} bytes, in {} pieces ({places}), each piece flushed on a TCP_NODELAY socket and followed by a pause of {} ms; a direct connection does not care how its bytes are cut into segments",
        cuts.len() + 1,
        tcp::SPLIT_PAUSE_MS
    )
}

/// (canonical key, description) per violation
fn judge(sc: &Scn, out: &Outcome) -> Vec<(String, String)> {
    match (sc, out) {
        (Scn::Tcp(v), Outcome::Tcp(obs, unexpected)) => {
            let mut bad = vec![];
            for (s, o) in v.iter().zip(obs.iter()) {
                for (k, d) in check_conn(s, o) {
                    if s.is_split() {
                        // the split-handshake family has keys of its own; the rules are the same
                        bad.push((format!("tcp:{}:split-handshake:{}:{k}", s.entry.text(), s.mode.text()), format!("{d}; {}  [{}]", split_how(s), s.line())));
                        continue;
                    }
                    if s.is_early() {
                        // the optimistic-data family has keys of its own; the rules are the same
                        let how = format!(
                            "the local client wrote the first {} byte(s) of its upload in the same write as {} and read the proxy's {} only afterwards",
                            s.early_bytes(),
                            if s.hello_joined && s.entry.is_socks5() { "its SOCKS5 greeting and request" } else { "the last message of its handshake" },
                            if s.hello_joined && s.entry.is_socks5() { "method selection and reply" } else { "reply" },
                        );
                        bad.push((format!("tcp:{}:early-data:{}:{k}", s.entry.text(), s.mode.text()), format!("{d}; {how}  [{}]", s.line())));
                        continue;
                    }
                    bad.push((format!("tcp:{}:{}:{k}", s.entry.text(), s.mode.text()), format!("{d}  [{}]", s.line())));
                }
            }
            if *unexpected > 0 {
                bad.push(("tcp:unexpected-target-connection".into(), format!("{unexpected} connection(s) reached a target although no local connection asked for them")));
            }
            bad
        }
        (Scn::Udp(u), Outcome::Udp(o)) => {
            // one SOCKS5 client socket talking to IPv4 and IPv6 targets: its own canonical key
            let mixed = u.socks && u.targets.iter().any(|t| *t == 2) && u.targets.iter().any(|t| *t != 2);
            o.bad
                .iter()
                .map(|(k, d)| {
                    (
                        format!("udp:{}:{}{k}", if u.socks { "socks5" } else { "udp-remote" }, if mixed { "mixed-address-families:" } else { "" }),
                        format!("{d}  [{}]", u.line()),
                    )
                })
                .collect()
        }
        (Scn::Multi(m), Outcome::Multi(o)) => multi::judge_multi(m, o).into_iter().map(|(_, k, d)| (k, format!("{d}  [{}]", m.line()))).collect(),
        (Scn::Many(m), Outcome::Many(o)) => many::judge_many(m, o),
        _ => vec![],
    }
}

async fn run_in_world(w: Arc<World>, sc: &Scn) -> Outcome {
    match sc {
        Scn::Tcp(v) => {
            let before = w.unexpected_target_conns.load(std::sync::atomic::Ordering::SeqCst);
            let mut hs = vec![];
            for (j, s) in v.iter().enumerate() {
                hs.push(tokio::spawn(run_conn(w.clone(), j, s.clone())));
            }
            let mut obs = vec![];
            for h in hs {
                match tokio::time::timeout(io::step() * 6, h).await {
                    Ok(Ok(o)) => obs.push(o),
                    Ok(Err(e)) => return Outcome::Infra(format!("connection task: {e}")),
                    Err(_) => {
                        let mut o = ConnObs::default();
                        o.client.hang = Some("the whole connection scenario exceeded its deadline".into());
                        obs.push(o);
                    }
                }
            }
            // a target connection nobody asked for may still be on its way
            tokio::time::sleep(Duration::from_millis(20)).await;
            let after = w.unexpected_target_conns.load(std::sync::atomic::Ordering::SeqCst);
            Outcome::Tcp(obs, after - before)
        }
        Scn::Udp(u) => {
            let o = run_udp(w, u.clone()).await;
            match o.infra.clone() {
                Some(e) => Outcome::Infra(e),
                None => Outcome::Udp(o),
            }
        }
        Scn::Multi(_) | Scn::Many(_) => Outcome::Infra("a scenario of this family has a world of its own".into()),
    }
}

async fn run_own_world(sc: &Scn) -> Outcome {
    match sc {
        Scn::Multi(m) => run_multi_scn(m).await,
        Scn::Many(m) => {
            let o = many::run_many(m).await;
            match o.infra.clone() {
                Some(e) => Outcome::Infra(e),
                None => Outcome::Many(o),
            }
        }
        _ => Outcome::Infra("not a scenario with a world of its own".into()),
    }
}

async fn run_multi_scn(m: &MultiScn) -> Outcome {
    let o = multi::run_multi(m).await;
    match o.infra.clone() {
        Some(e) => Outcome::Infra(e),
        None => Outcome::Multi(o),
    }
}

/// Run scenarios one after the other in one fresh world on a fresh runtime.
fn run_world(scs: &[Scn], multi_thread: bool) -> Vec<Outcome> {
    let rt = if multi_thread {
        tokio::runtime::Builder::new_multi_thread().worker_threads(3).enable_all().build()
    } else {
        tokio::runtime::Builder::new_current_thread().enable_all().build()
    }
    .expect("runtime");
    let outs = rt.block_on(async {
        // the scenarios of the several-remotes family bring their own client: a world each
        if scs.iter().all(Scn::own_world) {
            let mut outs = vec![];
            for sc in scs {
                outs.push(run_own_world(sc).await);
            }
            return outs;
        }
        let mut last = String::new();
        let mut world = None;
        for _ in 0..4 {
            match World::start().await {
                Ok(w) => {
                    world = Some(w);
                    break;
                }
                Err(e) => last = e,
            }
        }
        let Some(w) = world else {
            return scs.iter().map(|_| Outcome::Infra(format!("world did not start: {last}"))).collect();
        };
        let mut outs = vec![];
        for sc in scs {
            if sc.own_world() {
                outs.push(run_own_world(sc).await);
                continue;
            }
            if let Some(r) = w.client_result.lock().unwrap().clone() {
                outs.push(Outcome::Infra(format!("CLIENT-ENDED client_main_inner returned {r}")));
                continue;
            }
            outs.push(run_in_world(w.clone(), sc).await);
        }
        outs
    });
    rt.shutdown_timeout(Duration::from_millis(200));
    outs
}

// ---------------------------------------------------------------------------------------------
// Generation
// ---------------------------------------------------------------------------------------------

fn chunk_for(r: &mut Rng, len: usize) -> Chunk {
    if len == 0 {
        return Chunk::Whole;
    }
    match r.below(6) {
        0 | 1 => Chunk::Whole,
        2 => Chunk::Fixed(if len <= 2048 { 1 } else { *r.pick(&[1460usize, 8192, 65536]) }),
        3 => Chunk::Fixed(*r.pick(&[7usize, 100, 1460, 8192]).max(&(len / 600).max(1))),
        _ => Chunk::Random(r.next() % 1_000_000, (len / 8).clamp(2, 70_000)),
    }
}

fn sizes(tier: Tier) -> Vec<usize> {
    let mut v = vec![0usize, 1, 2, 100, 511, 512, 513, 8191, 8192, 8193, 65_536, 300_000];
    if tier == Tier::Thorough {
        v.extend([1 << 20, (1 << 20) + 1]);
    }
    v
}

fn random_tcp(r: &mut Rng, tier: Tier, entry: Option<Entry>, mode: Option<Mode>) -> TcpScn {
    let sz = sizes(tier);
    let entry = entry.unwrap_or_else(|| *r.pick(&ENTRIES));
    let mode = mode.unwrap_or_else(|| *r.pick(&ALL_MODES));
    if mode.is_hold() {
        return random_hold(r, tier, entry, mode);
    }
    let mut up = *r.pick(&sz);
    let mut down = *r.pick(&sz);
    // keep the sum moderate except now and then
    if up + down > 700_000 && !r.chance(1, 3) {
        down = *r.pick(&[0usize, 1, 513, 8193]);
    }
    match mode {
        Mode::Echo => down = 0,
        Mode::TargetDrops => up = 0,
        Mode::ClientDrops => down = 0,
        Mode::Refuse => {
            up = 0;
            down = 0;
        }
        _ => {}
    }
    let slow_ms = if r.chance(1, 6) { *r.pick(&[50u64, 300]) } else { 0 };
    TcpScn { entry, mode, up, down, upc: chunk_for(r, up), downc: chunk_for(r, down), slow_ms, seed: r.next() % 1_000_000_000, rcvbuf: 0, pace_ms: 0, early: 0, hello_joined: false, split: vec![] }
}

/// A dialogue after a half-close: the first payload is any size; the direction that stays open carries
/// 1-12 messages of 1 byte .. a few frames each (mostly below the 8 KiB of a default I/O buffer), each
/// awaited before the next.
fn random_hold(r: &mut Rng, tier: Tier, entry: Entry, mode: Mode) -> TcpScn {
    let first = *r.pick(&sizes(tier));
    let msgs = *r.pick(&[1usize, 1, 1, 2, 3, 5, 12]);
    let one = *r.pick(&[1usize, 1, 2, 7, 100, 100, 512, 1460, 3000, 4096, 8191, 8192, 8193, 20_000]);
    let held = one * msgs;
    let heldc = match r.below(3) {
        _ if msgs == 1 => Chunk::Whole,
        0 => Chunk::Random(r.next() % 1_000_000, (2 * one).max(2)),
        _ => Chunk::Fixed(one),
    };
    let firstc = chunk_for(r, first);
    let slow_ms = *r.pick(&[0u64, 0, 0, 20, 120]);
    let seed = r.next() % 1_000_000_000;
    if mode == Mode::ClientFirstHold {
        TcpScn { entry, mode, up: first, down: held, upc: firstc, downc: heldc, slow_ms, seed, rcvbuf: 0, pace_ms: 0, early: 0, hello_joined: false, split: vec![] }
    } else {
        TcpScn { entry, mode, up: held, down: first, upc: heldc, downc: firstc, slow_ms, seed, rcvbuf: 0, pace_ms: 0, early: 0, hello_joined: false, split: vec![] }
    }
}

/// Every entry point kind with (a) the client half-closing first and the target answering with ONE short
/// message (1 byte, 100 bytes, a few KiB) while it keeps the connection open, (b) the mirror image, (c)
/// ping-pong after a half-close in either direction (several short messages, each awaited).
fn half_close_pass(r: &mut Rng, tier: Tier) -> Vec<Scn> {
    let mut all = vec![];
    let firsts = [0usize, 1, 513, 8193, 65_536];
    let pauses = [0u64, 30, 150];
    let few_kib = [3000usize, 8191, 4096, 5000];
    for (i, e) in ENTRIES.iter().enumerate() {
        let mut push = |r: &mut Rng, mode: Mode, first: usize, held: usize, heldc: Chunk, slow_ms: u64| {
            let firstc = chunk_for(r, first);
            let seed = r.next() % 1_000_000_000;
            all.push(if mode == Mode::ClientFirstHold {
                TcpScn { entry: *e, mode, up: first, down: held, upc: firstc, downc: heldc, slow_ms, seed, rcvbuf: 0, pace_ms: 0, early: 0, hello_joined: false, split: vec![] }
            } else {
                TcpScn { entry: *e, mode, up: held, down: first, upc: heldc, downc: firstc, slow_ms, seed, rcvbuf: 0, pace_ms: 0, early: 0, hello_joined: false, split: vec![] }
            });
        };
        // (a) one short answer after the client's half-close
        let mut answers = vec![1usize, 100, few_kib[i % 4]];
        // (b) one short message after the target's half-close
        let mut mirrored = vec![[1usize, 100, 3000, 8191][i % 4]];
        if tier == Tier::Thorough {
            answers.extend([2, 512, 8192, 8193, 20_000]);
            mirrored = vec![1, 2, 100, 512, 3000, 8191, 8192, 8193, 20_000];
        }
        for (j, n) in answers.iter().enumerate() {
            push(r, Mode::ClientFirstHold, firsts[(i + j) % 5], *n, Chunk::Whole, pauses[(i + j) % 3]);
        }
        for (j, n) in mirrored.iter().enumerate() {
            push(r, Mode::TargetFirstHold, firsts[(i + j + 2) % 5], *n, Chunk::Whole, pauses[(i + j + 1) % 3]);
        }
        // (c) ping-pong
        let one = [1usize, 64, 1000, 2500][i % 4];
        push(r, Mode::ClientFirstHold, firsts[(i + 3) % 5], 5 * one, Chunk::Fixed(one), pauses[i % 3]);
        push(r, Mode::TargetFirstHold, firsts[(i + 4) % 5], 4 * one + 1, Chunk::Fixed(one), pauses[(i + 2) % 3]);
        if tier == Tier::Thorough {
            push(r, Mode::ClientFirstHold, 100, 9000, Chunk::Random(i as u64 + 11, 3000), 0);
            push(r, Mode::TargetFirstHold, 100, 9000, Chunk::Random(i as u64 + 12, 3000), 0);
        }
    }
    all.chunks(SLOTS).map(|c| Scn::Tcp(c.to_vec())).collect()
}

/// Late-reading peers, every entry point kind.  `late-target`: the target accepts, sends a short reply (0 .. 300
/// bytes), half-closes at once, shrinks its receive buffer and does not read for `slow` ms; the client reads the
/// reply to end-of-stream, uploads `up` bytes (more than the socket buffers hold), half-closes and closes; the
/// target then reads (`pace` ms after every read of at most 32 KiB) and must get exactly `up` bytes and a clean
/// end-of-stream: the tail of the upload is still in the SERVER's send buffer towards the target when the tunnel
/// has nothing more to do with that connection.  `late-client` is the mirror image (the local client reads late,
/// the target uploads), judged at the client.  Up to four such connections run side by side.
fn late_pass(r: &mut Rng, tier: Tier) -> Vec<Scn> {
    let delays = [300u64, 1000, 2500];
    let bulks = [64 * KIB, 300 * KIB, 1 << 20, 3 << 20];
    let mut all: Vec<TcpScn> = vec![];
    let mut mk = |r: &mut Rng, entry: Entry, mode: Mode, bulk: usize, slow_ms: u64, rcvbuf: usize, pace_ms: u64| {
        let short = *r.pick(&[0usize, 1, 100, 300]);
        let bulkc = match r.below(3) {
            0 => Chunk::Whole,
            1 => Chunk::Fixed(*r.pick(&[8192usize, 65_536])),
            _ => Chunk::Random(r.next() % 1_000_000, (bulk / 8).clamp(2, 70_000)),
        };
        let seed = r.next() % 1_000_000_000;
        all.push(if mode == Mode::LateTarget {
            TcpScn { entry, mode, up: bulk, down: short, upc: bulkc, downc: Chunk::Whole, slow_ms, seed, rcvbuf, pace_ms, early: 0, hello_joined: false, split: vec![] }
        } else {
            TcpScn { entry, mode, up: short, down: bulk, upc: Chunk::Whole, downc: bulkc, slow_ms, seed, rcvbuf, pace_ms, early: 0, hello_joined: false, split: vec![] }
        });
    };
    let start = r.below(ENTRIES.len() as u64) as usize;
    let entry = |k: usize| ENTRIES[(start + k) % ENTRIES.len()];
    match tier {
        Tier::Quick => {
            // six late targets and two late clients over eight entry point kinds (which ones: by the seed), delays of
            // at most 1 s, always a slow reader behind a small receive buffer
            for k in 0..6 {
                let bulk = [1 << 20, 300 * KIB, 1 << 20, 64 * KIB, 300 * KIB, 1 << 20][k];
                mk(r, entry(k), Mode::LateTarget, bulk, delays[k % 2], [16 * KIB, 32 * KIB, 64 * KIB][k % 3], [3u64, 5, 2][k % 3]);
            }
            for k in 6..8 {
                mk(r, entry(k), Mode::LateClient, [300 * KIB, 1 << 20][k % 2], delays[k % 2], [16 * KIB, 32 * KIB][k % 2], 3);
            }
        }
        Tier::Thorough => {
            for i in 0..ENTRIES.len() {
                // four late targets per entry point kind: the 12 (delay, size) pairs go round the kinds; mostly a
                // small receive buffer and a slow reader, now and then the default buffer / reading at full speed
                for j in 0..4 {
                    let n = i * 4 + j;
                    let (d, b) = (delays[n % 12 % 3], bulks[n % 12 / 3]);
                    let rcvbuf = [16 * KIB, 32 * KIB, 64 * KIB, 0, 16 * KIB][n % 5];
                    let pace = [3u64, 5, 0, 2, 1, 8, 3][n % 7];
                    mk(r, entry(i), Mode::LateTarget, b, d, rcvbuf, pace);
                }
                for j in 0..2 {
                    let n = i * 2 + j;
                    let (d, b) = (delays[(n + 5) % 12 % 3], bulks[(n + 5) % 12 / 3]);
                    mk(r, entry(i), Mode::LateClient, b, d, [16 * KIB, 0, 64 * KIB][n % 3], [3u64, 0, 5, 2][n % 4]);
                }
            }
        }
    }
    all.chunks(SLOTS).map(|c| Scn::Tcp(c.to_vec())).collect()
}

/// The entry point kinds of the optimistic-data family: every kind whose handshake the local client speaks.  On the
/// unchanged code each of them delivers payload that arrives together with (or right behind) the last handshake
/// message completely and in order (the SOCKS listener hands its negotiation `BufReader` on to the relay, hyper
/// hands the bytes read past the CONNECT header to the upgraded connection), so the family is judged by the
/// ordinary rules of `check_conn`.
const EARLY_ENTRIES: [Entry; 8] = [
    Entry::Socks4, Entry::Socks4a, Entry::Socks5V4, Entry::Socks5V6, Entry::Socks5Dom, Entry::HttpV4, Entry::HttpV6, Entry::HttpDom,
];

/// Optimistic data: a local client that does not wait for the proxy's reply before it starts to talk.  The first
/// `early` bytes of the upload leave IN THE SAME WRITE as the last message of the client's handshake (SOCKS4/4a: the
/// request; SOCKS5: (a) greeting alone, method selection awaited, then request + payload, (b) `hello=joined`:
/// greeting + request + payload in one write; HTTP: the CONNECT header + payload), so on loopback they are in the
/// proxy's receive queue when it reads the request and land in whatever buffer it parses the negotiation from.  Then
/// the client reads the replies and goes on with the rest of its script, which sends only what is left of the
/// upload.  A direct connection delivers every byte exactly once and in order; so must the tunnel.  Sizes: 1 byte,
/// a few dozen, around 500 / 512 (a small parse buffer minus a request), 4096, around the 8 KiB of a default
/// `BufReader` minus the request, and several times more than such a buffer holds; the whole upload shorter than,
/// as long as, and longer than the early part.
fn early_pass(r: &mut Rng, tier: Tier) -> Vec<Scn> {
    let mut all: Vec<TcpScn> = vec![];
    let mk = |r: &mut Rng, entry: Entry, mode: Mode, early: usize, up: usize, joined: bool, slow_ms: u64| {
        let down = match mode {
            Mode::Echo | Mode::ClientDrops => 0,
            _ => *r.pick(&[0usize, 1, 100, 513, 8193]),
        };
        let rest = up.saturating_sub(early);
        // the chunking of what is left after the early part
        let upc = chunk_for(r, rest);
        let downc = chunk_for(r, down);
        let seed = r.next() % 1_000_000_000;
        TcpScn { entry, mode, up, down, upc, downc, slow_ms, seed, rcvbuf: 0, pace_ms: 0, early, hello_joined: joined && entry.is_socks5(), split: vec![] }
    };
    let longer = [1usize, 513, 8193, 65_536];
    match tier {
        Tier::Quick => {
            // seven per entry point kind (eight for the SOCKS5 kinds: the one near 512 in both variants)
            let start = r.below(4) as usize;
            for (i, e) in EARLY_ENTRIES.iter().enumerate() {
                let near_512 = [499usize, 500, 512, 513][(start + i) % 4];
                let j = |k: usize| (i + k) % 2 == 0;
                all.push(mk(r, *e, Mode::Echo, 1, 1, j(0), 0));
                all.push(mk(r, *e, Mode::ClientFirst, [37usize, 24, 64][i % 3], 513, j(1), 0));
                all.push(mk(r, *e, Mode::Echo, near_512, near_512 + longer[(i + 2) % 4], j(0), 0));
                if e.is_socks5() {
                    all.push(mk(r, *e, Mode::Duplex, near_512, near_512 + longer[(i + 1) % 4], j(1), 0));
                }
                all.push(mk(r, *e, Mode::ClientDrops, 4096, 4096, j(1), 0));
                // handshake + payload fill an 8 KiB buffer exactly, one byte less, one more; 8 KiB of payload
                let hs = tcp::last_handshake_write_len(*e, j(0) && e.is_socks5());
                let near_8k = [8192 - hs - 1, 8192 - hs, 8192 - hs + 1, 8192][(start + i) % 4];
                all.push(mk(r, *e, Mode::ClientFirst, near_8k, near_8k + longer[(i + 3) % 4], j(0), 0));
                all.push(mk(r, *e, [Mode::Duplex, Mode::Echo][i % 2], [20_000usize, 9000, 70_000][i % 3], 65_536 + [20_000usize, 9000, 70_000][i % 3], j(0), 0));
                all.push(mk(r, *e, Mode::ClientFirst, [512usize, 4096, 600][i % 3], [100usize, 300, 499][i % 3], j(1), 0));
            }
        }
        Tier::Thorough => {
            let modes = [Mode::Echo, Mode::ClientFirst, Mode::Duplex, Mode::ClientDrops, Mode::TargetCloses, Mode::TargetFirst, Mode::ClientFirstHold];
            let mut n = 0usize;
            for e in EARLY_ENTRIES {
                let variants: &[bool] = if e.is_socks5() { &[false, true] } else { &[false] };
                for joined in variants {
                    // what else is in the write that carries the early bytes
                    let hs = tcp::last_handshake_write_len(e, *joined);
                    let mut earlies = vec![1usize, 2, 37, 64, 499, 500, 511, 512, 513, 4096, 8191, 8192, 8193, 20_000, 70_000];
                    // a 512-byte and an 8 KiB buffer filled exactly by handshake + payload, one less, one more
                    for cap in [512usize, 8192] {
                        earlies.extend([cap - hs - 1, cap - hs, cap - hs + 1]);
                    }
                    earlies.sort_unstable();
                    earlies.dedup();
                    for early in earlies {
                        // the whole upload: shorter than, as long as, longer than the early part
                        let mut ups = vec![early, early + longer[n % 4], early + longer[(n + 1) % 4]];
                        if early >= 2 {
                            ups.push(early / 2);
                        }
                        for up in ups {
                            let mode = modes[n % modes.len()];
                            n += 1;
                            let slow = if n % 9 == 0 { 50 } else { 0 };
                            if mode == Mode::ClientFirstHold {
                                // the upload (early part included) first, then the target answers message by message
                                all.push(mk(r, e, mode, early, up, *joined, [0u64, 20][n % 2]));
                                let s = all.last_mut().expect("just pushed");
                                s.down = [1usize, 100, 3000][n % 3];
                                s.downc = Chunk::Whole;
                            } else {
                                all.push(mk(r, e, mode, early, up, *joined, slow));
                            }
                        }
                    }
                    if *joined {
                        // greeting + request in one write and no payload behind them
                        all.push(mk(r, e, Mode::Echo, 0, 513, true, 0));
                        all.push(mk(r, e, Mode::TargetFirst, 0, 100, true, 0));
                    }
                }
            }
            // and some by the dice: any close order, any chunking, slow readers
            for _ in 0..80 {
                let e = *r.pick(&EARLY_ENTRIES);
                let mut s = random_tcp(r, Tier::Quick, Some(e), None);
                if s.up == 0 {
                    s.up = *r.pick(&[1usize, 100, 513, 8193]);
                    s.upc = chunk_for(r, s.up);
                }
                s.early = match r.below(4) {
                    0 => s.up,
                    1 => r.range(1, s.up as u64) as usize,
                    2 => *r.pick(&[1usize, 37, 499, 500, 512, 513, 4096, 8179, 8192, 20_000]),
                    _ => r.range(1, 600) as usize,
                };
                s.hello_joined = s.entry.is_socks5() && r.chance(1, 2);
                all.push(s);
            }
        }
    }
    all.chunks(SLOTS).map(|c| Scn::Tcp(c.to_vec())).collect()
}

/// The entry point kinds of the split-handshake family: every kind whose handshake the local client speaks.  On the
/// unchanged code each of them opens the tunnel for a request that arrives in pieces exactly as for one that arrives
/// whole, wherever it is cut (established by running every single cut position and byte-by-byte delivery of every
/// kind): the SOCKS listener reads its fixed-length fields with `read_exact` / `read_u8` / `read_u16` / `read_u32`
/// and the NUL-terminated SOCKS4 fields with `read_until` through one `BufReader`, all of which keep reading until
/// the field is complete; hyper keeps reading until it has a complete header.  So the family is judged by the
/// ordinary rules of `check_conn`.
const SPLIT_ENTRIES: [Entry; 8] = EARLY_ENTRIES;

/// Split handshake: a local client whose handshake reaches the proxy in pieces (a client that assembles its request
/// with several writes on a `TCP_NODELAY` socket, or a link that re-segments).  The client writes the first piece,
/// flushes, pauses `SPLIT_PAUSE_MS` so that the proxy's read returns with that piece alone, writes the next, and so
/// on (`split=<k>[,<k2>..]`: the offsets of the cuts in the concatenation of the client's handshake messages);
/// where the protocol makes the client wait for an answer (SOCKS5 method selection) it waits.  Then the scenario goes
/// on like any other: a small upload / download in one of the close orders.  A direct connection does not care how
/// its bytes are cut into segments; so the tunnel must come up and carry the payload for every cut.
/// thorough: every single cut position of every entry point kind (SOCKS4: fixed fields, inside the user id, before
/// its NUL; SOCKS4a: also at and inside the host name and before the final NUL; SOCKS5 to an IPv4 / IPv6 / domain
/// target: inside the greeting, after 1, 2, 3 bytes of the request, inside the address, inside the port, and the same
/// with greeting and request sent without waiting for the method selection, which adds the cut between the two; HTTP
/// CONNECT to an IPv4 / IPv6 / domain target: inside the request line, inside the header, inside the final
/// CRLFCRLF), byte-by-byte delivery of each, and some with two to four cuts by the dice.  quick: a selection that
/// rotates with the seed, see below.
fn split_pass(r: &mut Rng, tier: Tier) -> Vec<Scn> {
    // the table of fields must describe the messages that are really sent
    for e in SPLIT_ENTRIES {
        let sent: Vec<usize> = tcp::handshake_msgs(e, [127, 0, 0, 1], 40_000).iter().map(Vec::len).collect();
        let described: Vec<usize> = tcp::handshake_fields(e, 40_000).iter().map(|m| m.iter().map(|(_, n)| n).sum()).collect();
        assert_eq!(sent, described, "e2e: handshake_fields out of step with handshake_msgs for {}", e.text());
    }
    let modes = [Mode::Echo, Mode::ClientFirst, Mode::TargetFirst, Mode::Duplex, Mode::TargetCloses, Mode::ClientFirstHold];
    let mut n = r.below(modes.len() as u64) as usize;
    let mut mk = |r: &mut Rng, entry: Entry, split: Vec<usize>, joined: bool| {
        let mode = modes[n % modes.len()];
        n += 1;
        let up = *r.pick(&[1usize, 100, 513, 3000]);
        let (down, downc) = match mode {
            Mode::Echo => (0, Chunk::Whole),
            Mode::ClientFirstHold => (*r.pick(&[1usize, 100, 3000]), Chunk::Whole),
            _ => {
                let d = *r.pick(&[1usize, 100, 513, 3000]);
                (d, chunk_for(r, d))
            }
        };
        let upc = chunk_for(r, up);
        let seed = r.next() % 1_000_000_000;
        TcpScn { entry, mode, up, down, upc, downc, slow_ms: 0, seed, rcvbuf: 0, pace_ms: 0, early: 0, hello_joined: joined && entry.is_socks5(), split }
    };
    // every offset at which the handshake of `e` can be cut, with where it falls; those whose label satisfies `f`
    let at = |e: Entry, joined: bool, f: &dyn Fn(&str) -> bool| -> Vec<usize> {
        tcp::cut_positions(e, joined).into_iter().filter(|(_, l)| f(l)).map(|(k, _)| k).collect()
    };
    let every = |e: Entry, joined: bool| -> Vec<usize> { at(e, joined, &|_| true) };
    // single cuts first, the slow ones (one byte per write) at the end and next to each other, so that they overlap
    let mut all: Vec<TcpScn> = vec![];
    let mut slow: Vec<TcpScn> = vec![];
    match tier {
        Tier::Quick => {
            let rot = r.below(1000) as usize;
            // the `j`-th (rotating with the seed) of the offsets whose label satisfies `f`
            let one = |e: Entry, j: usize, f: &dyn Fn(&str) -> bool| -> usize {
                let v = at(e, false, f);
                v[(rot + j) % v.len()]
            };
            for (i, e) in SPLIT_ENTRIES.iter().copied().enumerate() {
                let mut cuts: Vec<usize> = vec![];
                match e {
                    Entry::Socks4 | Entry::Socks4a => {
                        // always: inside the user id; SOCKS4a: inside the host name; then the cut before a NUL, or
                        // the one at the beginning of the host name, and one in the fixed part
                        cuts.push(one(e, i, &|l| l == "inside-userid"));
                        if e == Entry::Socks4a {
                            cuts.push(one(e, i, &|l| l == "inside-hostname"));
                        }
                        cuts.push(one(e, i, &|l| l.ends_with("-nul") || l.ends_with("|hostname")));
                        cuts.push(one(e, i, &|l| !l.contains("userid") && !l.contains("hostname")));
                    }
                    e if e.is_socks5() => {
                        // always: after 1, 2 and 3 bytes of the request; one inside the greeting, one inside the
                        // address or the port
                        let req = 3usize;
                        cuts.extend([req + 1, req + 2, req + 3]);
                        cuts.push(one(e, i, &|l| l.contains("greeting")));
                        cuts.push(one(e, i, &|l| l.contains("addr") || l.contains("port") || l.contains("domain-len")));
                    }
                    _ => {
                        // always: inside the final CRLFCRLF; one inside the request line, one inside the header
                        cuts.push(one(e, i, &|l| l == "inside-crlfcrlf"));
                        cuts.push(one(e, i, &|l| ["method", "sp", "target", "version"].iter().any(|f| l.contains(f)) && !l.contains("crlf")));
                        cuts.push(one(e, i, &|l| l.contains("header") && !l.contains("crlfcrlf")));
                    }
                }
                cuts.sort_unstable();
                cuts.dedup();
                for k in cuts {
                    all.push(mk(r, e, vec![k], false));
                }
            }
            // per protocol: one request with two cuts, one byte by byte (the target kind of SOCKS5 / HTTP by the seed);
            // SOCKS5 without waiting for the method selection: one cut between greeting and request
            let s5 = [Entry::Socks5V4, Entry::Socks5V6, Entry::Socks5Dom][rot % 3];
            let http = [Entry::HttpV4, Entry::HttpV6, Entry::HttpDom][(rot / 3) % 3];
            all.push(mk(r, Entry::Socks4, vec![one(Entry::Socks4, 1, &|l| l == "inside-userid"), tcp::handshake_len(Entry::Socks4) - 1], false));
            all.push(mk(r, Entry::Socks4a, vec![one(Entry::Socks4a, 2, &|l| l == "inside-userid"), one(Entry::Socks4a, 2, &|l| l == "inside-hostname")], false));
            all.push(mk(r, s5, vec![one(s5, 0, &|l| l.contains("greeting")), one(s5, 0, &|l| l == "inside-addr")], false));
            all.push(mk(r, s5, vec![3], true));
            all.push(mk(r, http, vec![one(http, 0, &|l| l == "inside-target"), one(http, 1, &|l| l == "inside-crlfcrlf")], false));
            for e in [Entry::Socks4, Entry::Socks4a, s5, http] {
                slow.push(mk(r, e, every(e, false), false));
            }
        }
        Tier::Thorough => {
            for e in SPLIT_ENTRIES {
                let variants: &[bool] = if e.is_socks5() { &[false, true] } else { &[false] };
                for joined in variants {
                    for k in every(e, *joined) {
                        all.push(mk(r, e, vec![k], *joined));
                    }
                    slow.push(mk(r, e, every(e, *joined), *joined));
                }
                // two to four cuts by the dice
                for _ in 0..10 {
                    let joined = e.is_socks5() && r.chance(1, 3);
                    let pos = every(e, joined);
                    let want = r.range(2, 4) as usize;
                    let mut cuts: Vec<usize> = (0..want).map(|_| *r.pick(&pos)).collect();
                    cuts.sort_unstable();
                    cuts.dedup();
                    all.push(mk(r, e, cuts, joined));
                }
            }
        }
    }
    all.extend(slow);
    all.chunks(SLOTS).map(|c| Scn::Tcp(c.to_vec())).collect()
}

/// Several windows (512 frames) of data against a reader that starts late: 5 MiB in 8 KiB frames.
fn windows_scn(r: &mut Rng, entry: Entry, upward: bool) -> TcpScn {
    let big = 5 * (1 << 20) + 3;
    let (up, down, mode) = if upward { (big, 10, Mode::ClientFirst) } else { (10, big, Mode::TargetFirst) };
    TcpScn { entry, mode, up, down, upc: Chunk::Fixed(65536), downc: Chunk::Fixed(65536), slow_ms: 400, seed: r.next() % 1_000_000_000, rcvbuf: 0, pace_ms: 0, early: 0, hello_joined: false, split: vec![] }
}

fn random_udp(r: &mut Rng, socks: bool) -> UdpScn {
    let all_sizes = [0usize, 1, 2, 3, 4, 9, 10, 11, 100, 508, 1200, 1399, 1400];
    let n = r.range(2, 5) as usize;
    let mut sizes: Vec<usize> = (0..n).map(|_| *r.pick(&all_sizes)).collect();
    if r.chance(1, 3) {
        sizes.push(0);
    }
    let targets = match r.below(4) {
        0 => vec![0],
        1 => vec![1],
        _ => vec![0, 1],
    };
    UdpScn {
        socks,
        clients: r.range(1, 4) as usize,
        targets,
        sizes,
        replies: if r.chance(1, 4) { 2 } else { 1 },
        domain: socks && r.chance(1, 4),
        idle_ms: 0,
        oneway: None,
        junk: None,
        rounds: 1,
        shared: None,
        seed: r.next() % 1_000_000_000,
    }
}

/// One-way traffic that outlasts the idle timeout (`UDP_PRUNE_TIMEOUT`, 10 s; the client's prune task has the
/// same period, so an entry that is no longer kept alive is gone at most two periods after its last
/// refresh): a local client keeps sending, with gaps well below the timeout, while the target stays silent
/// for more than two periods; then the target answers the last datagram, then one more exchange.  Every
/// scenario of this family runs in a world of its own, concurrently with everything else.
fn one_way_pass(r: &mut Rng, tier: Tier) -> Vec<Scn> {
    let mk = |socks: bool, clients: usize, targets: &[usize], sizes: &[usize], replies: usize, domain: bool, seed: u64, ow: OneWay| {
        Scn::Udp(UdpScn { socks, clients, targets: targets.to_vec(), sizes: sizes.to_vec(), replies, domain, idle_ms: 0, oneway: Some(ow), junk: None, rounds: 1, shared: None, seed })
    };
    let ow = |ms: u64, gap_ms: u64, sizes: &[usize], streamers: usize, shared: bool, at_ms: Option<u64>| OneWay { ms, gap_ms, sizes: sizes.to_vec(), streamers, shared, at_ms };
    let mut v = vec![
        // the plain ones (the SOCKS5 line is also corpus/C01/reply-after-one-way-traffic.ops)
        mk(true, 1, &[0], &[], 1, false, 7, ow(22_000, 2500, &[24], 1, false, None)),
        mk(false, 1, &[0], &[], 1, false, 7, ow(22_000, 2500, &[24], 1, false, None)),
        // two clients with an association each after an ordinary exchange; one streams, the other goes quiet
        mk(true, 2, &[0, 1], &[24], 2, false, r.next() % 1_000_000, ow(21_000, 3000, &[100, 1400, 3], 1, false, None)),
    ];
    if tier == Tier::Thorough {
        let mut seed = || r.next() % 1_000_000;
        v.extend([
            // two local sockets on ONE association: one streams / both stream
            mk(true, 2, &[0], &[24], 1, false, seed(), ow(22_000, 2500, &[24], 1, true, None)),
            mk(true, 2, &[0, 1], &[], 1, false, seed(), ow(22_000, 2500, &[64, 10], 2, true, None)),
            // two associations, both stream, two replies each
            mk(true, 2, &[0, 1], &[], 2, false, seed(), ow(22_000, 2000, &[24, 508], 2, false, None)),
            // domain target, IPv6 target, payload sizes incl. the boundary ones
            mk(true, 1, &[1], &[], 1, true, seed(), ow(22_000, 2500, &[24], 1, false, None)),
            mk(true, 2, &[0, 1], &[16], 1, true, seed(), ow(21_500, 3000, &[1400, 11], 1, false, None)),
            mk(true, 1, &[2], &[], 1, false, seed(), ow(22_000, 2500, &[24, 0], 1, false, None)),
            mk(true, 1, &[0], &[], 1, false, seed(), ow(22_000, 2500, &[1400, 0, 1, 3, 4, 508, 1399], 1, false, None)),
            // the answer just before / just after a tick of the prune task
            mk(true, 1, &[0], &[], 1, false, seed(), ow(21_000, 2500, &[24], 1, false, Some(9_700))),
            mk(true, 1, &[0], &[], 1, false, seed(), ow(21_000, 2500, &[24], 1, false, Some(150))),
            mk(true, 1, &[1], &[12], 2, false, seed(), ow(21_000, 2000, &[100], 1, false, Some(9_950))),
            // dense and sparse streams; between one and two periods; three periods
            mk(true, 1, &[0], &[], 1, false, seed(), ow(22_000, 400, &[24, 1200], 1, false, None)),
            mk(true, 1, &[0], &[], 1, false, seed(), ow(23_000, 6000, &[24], 1, false, None)),
            mk(true, 1, &[0, 1], &[], 1, false, seed(), ow(12_500, 2500, &[24], 1, false, None)),
            mk(true, 1, &[0], &[], 1, false, seed(), ow(32_000, 3500, &[48], 1, false, None)),
            // fixed UDP remotes
            mk(false, 2, &[0, 1], &[24], 1, false, seed(), ow(22_000, 2500, &[24, 1400], 1, false, None)),
            mk(false, 2, &[0, 1], &[], 2, false, seed(), ow(22_000, 3000, &[10, 0, 700], 2, false, None)),
            mk(false, 1, &[2], &[], 1, false, seed(), ow(22_000, 2500, &[24], 1, false, None)),
            mk(false, 1, &[0], &[], 1, false, seed(), ow(21_000, 2500, &[24], 1, false, Some(9_700))),
            mk(false, 1, &[1], &[], 1, false, seed(), ow(21_000, 2500, &[24], 1, false, Some(150))),
            mk(false, 1, &[0], &[], 1, false, seed(), ow(23_000, 6000, &[1400], 1, false, None)),
        ]);
    }
    v
}

/// Junk on the relay socket of a SOCKS5 UDP association: a datagram that is not a well-formed RFC 1928 UDP
/// request arrives there, from the association's own client socket or from another local socket, after (or
/// before) an ordinary exchange.  RFC 1928 section 7: the relay drops what it cannot or will not relay; the
/// property: the next datagram still reaches the target and its reply the right client, for every client.
fn junk_pass(r: &mut Rng, tier: Tier) -> Vec<Scn> {
    let mk = |clients: usize, targets: &[usize], sizes: &[usize], domain: bool, seed: u64, kind: JunkKind, other: bool, before: bool| {
        Scn::Udp(UdpScn { socks: true, clients, targets: targets.to_vec(), sizes: sizes.to_vec(), replies: 1, domain, idle_ms: 0, oneway: None, junk: Some(Junk { kind, other, before }), rounds: 1, shared: None, seed })
    };
    let mut v = vec![
        // (the first is also corpus/C01/junk-datagram-ends-association.ops)
        mk(1, &[0], &[24], false, 9, JunkKind::Empty, false, false),
        mk(1, &[0], &[24], false, 9, JunkKind::Atyp9, true, false),
    ];
    if tier == Tier::Thorough {
        for (i, k) in JUNK_KINDS.iter().enumerate() {
            // every kind from either sender after an ordinary exchange ...
            v.push(mk(1, &[0], &[24], false, 9, *k, false, false));
            v.push(mk(1, &[0], &[24], false, 9, *k, true, false));
            // ... and before anything valid, alternating the sender; with a second association next to it
            v.push(mk(1, &[0], &[24], false, r.next() % 1_000_000, *k, i % 2 == 0, true));
            v.push(mk(2, &[0, 1], &[16, 1400], i % 3 == 0, r.next() % 1_000_000, *k, i % 2 == 1, i % 4 == 0));
        }
    }
    v
}

/// Long flows: many request/reply exchanges on the same sockets without a pause, so that ONE flow (one forwarder
/// on the server, one entry in the client's maps) carries more than 64 KiB (the largest datagram, the size of
/// the receive buffers) of replies, once and several times over.  Every reply must arrive whole.
fn long_flow_pass(r: &mut Rng, tier: Tier) -> Vec<Scn> {
    let mk = |socks: bool, clients: usize, targets: &[usize], sizes: &[usize], replies: usize, rounds: usize, seed: u64| {
        Scn::Udp(UdpScn { socks, clients, targets: targets.to_vec(), sizes: sizes.to_vec(), replies, domain: false, idle_ms: 0, oneway: None, junk: None, rounds, shared: None, seed })
    };
    let mut v = vec![];
    for socks in [true, false] {
        // 70 x 1002 bytes of replies: past 64 KiB once (also corpus/C01/long-flow-replies-past-64k.ops)
        v.push(mk(socks, 1, &[0], &[1000], 1, 70, 11));
        if tier == Tier::Thorough {
            let mut seed = || r.next() % 1_000_000;
            // three times past 64 KiB, large and medium replies
            v.push(mk(socks, 1, &[0], &[1400], 1, 145, seed()));
            v.push(mk(socks, 1, &[1], &[700], 1, 300, seed()));
            // mixed sizes (the reply that straddles the boundary is any of them), tiny replies for a long time
            v.push(mk(socks, 1, &[0], &[100, 1400, 9, 513], 1, 40, seed()));
            v.push(mk(socks, 1, &[0], &[1399, 0, 1200], 1, 60, seed()));
            v.push(mk(socks, 1, &[1], &[61], 1, 1100, seed())); // 63-byte replies: 64 would end exactly on the 64 KiB boundary
            // more reply bytes than request bytes
            v.push(mk(socks, 1, &[0], &[600], 2, 60, seed()));
            v.push(mk(socks, 1, &[1], &[300], 3, 80, seed()));
            // two clients and two targets interleaved (SOCKS5: one flow per client for both targets; UDP remotes:
            // one flow per client and listener), and the IPv6 target
            v.push(mk(socks, 2, &[0, 1], &[1000], 1, 70, seed()));
            v.push(mk(socks, 2, &[0, 1], &[1400, 11], 2, 30, seed()));
            v.push(mk(socks, 1, &[2], &[1000], 1, 70, seed()));
        }
    }
    v
}

/// Several local sockets on ONE SOCKS5 UDP association: one UDP ASSOCIATE (one TCP control connection, one relay
/// address), 2-4 local UDP sockets of the same host (same IP, different source ports) that all send through
/// that relay address: at the same time, one after the other, and with one socket closed and a new one (new
/// source port) going on while the control connection stays open (`clients` sockets at a time, one more over
/// the life of the association).  Every socket must get exactly its own replies.  One address family per
/// scenario (an association socket talking to IPv4 AND IPv6 targets is the separate known finding).
fn shared_assoc_pass(r: &mut Rng, tier: Tier) -> Vec<Scn> {
    let mk = |clients: usize, targets: &[usize], sizes: &[usize], replies: usize, domain: bool, order: SharedOrder, seed: u64| {
        Scn::Udp(UdpScn { socks: true, clients, targets: targets.to_vec(), sizes: sizes.to_vec(), replies, domain, idle_ms: 0, oneway: None, junk: None, rounds: 1, shared: Some(order), seed })
    };
    use SharedOrder::{Concurrent, Renew, Sequential};
    // (the first and the third are also corpus/C01/several-sockets-on-one-association.ops)
    let mut v = vec![
        mk(2, &[0], &[24], 1, false, Concurrent, 13),
        mk(3, &[0, 1], &[16, 3, 1400], 1, false, Sequential, 13),
        mk(1, &[0], &[24], 1, false, Renew, 13),
    ];
    if tier == Tier::Thorough {
        let mut seed = || r.next() % 1_000_000;
        v.extend([
            // at the same time: 2-4 sockets, one and two targets, the boundary payload sizes, two replies each
            mk(2, &[0, 1], &[10, 0, 1399], 1, false, Concurrent, seed()),
            mk(3, &[1], &[1, 9, 508], 2, false, Concurrent, seed()),
            mk(4, &[0, 1], &[64, 1400, 11], 1, false, Concurrent, seed()),
            mk(4, &[0], &[100, 2], 2, false, Concurrent, seed()),
            mk(3, &[0, 1], &[16, 1200], 1, true, Concurrent, seed()),
            mk(2, &[2], &[12, 0, 700], 1, false, Concurrent, seed()),
            mk(4, &[2], &[1400, 10], 2, false, Concurrent, seed()),
            // one after the other
            mk(2, &[0], &[24], 1, false, Sequential, seed()),
            mk(2, &[0, 1], &[0, 1400, 4], 2, false, Sequential, seed()),
            mk(4, &[1], &[33, 1399], 1, false, Sequential, seed()),
            mk(4, &[0, 1], &[10], 1, true, Sequential, seed()),
            mk(3, &[2], &[16, 3], 1, false, Sequential, seed()),
            // a socket closed, a new one going on (next to 0, 1, 2 sockets that stay)
            mk(1, &[0, 1], &[16, 0, 1400], 1, false, Renew, seed()),
            mk(1, &[1], &[100], 2, true, Renew, seed()),
            mk(2, &[0], &[24, 1399], 1, false, Renew, seed()),
            mk(2, &[0, 1], &[11, 508], 2, false, Renew, seed()),
            mk(3, &[0, 1], &[64, 9], 1, false, Renew, seed()),
            mk(3, &[1], &[1200], 1, true, Renew, seed()),
            mk(1, &[2], &[24], 1, false, Renew, seed()),
            mk(3, &[2], &[12, 1400], 1, false, Renew, seed()),
        ]);
        // and some by the dice
        for _ in 0..10 {
            let all_sizes = [0usize, 1, 3, 4, 9, 10, 11, 100, 508, 1200, 1399, 1400];
            let order = *r.pick(&udp::SHARED_ORDERS);
            let clients = if order == Renew { r.range(1, 3) } else { r.range(2, 4) } as usize;
            let targets: &[usize] = match r.below(6) {
                0 => &[0],
                1 => &[1],
                2 => &[2],
                _ => &[0, 1],
            };
            let n = r.range(1, 3) as usize;
            let sizes: Vec<usize> = (0..n).map(|_| *r.pick(&all_sizes)).collect();
            let domain = targets != [2] && r.chance(1, 4);
            v.push(mk(clients, targets, &sizes, if r.chance(1, 4) { 2 } else { 1 }, domain, order, r.next() % 1_000_000));
        }
    }
    v
}

/// Scenarios that mostly wait (idle time, one-way streams): each gets a world and a thread of its own.
fn is_long(s: &Scn) -> bool {
    matches!(s, Scn::Udp(u) if u.idle_ms >= 3000 || u.oneway.is_some())
}

/// The fixed pass: every entry point kind with every close order once, plus the UDP matrix.
fn fixed_pass(r: &mut Rng, tier: Tier) -> Vec<Scn> {
    let mut v = vec![];
    // every entry x every mode, four at a time
    let mut all = vec![];
    for (i, e) in ENTRIES.iter().enumerate() {
        for (j, m) in MODES.iter().enumerate() {
            let mut s = random_tcp(r, Tier::Quick, Some(*e), Some(*m));
            // make sure the small boundary sizes and a multi-frame size occur in the fixed pass
            let pick = [0usize, 1, 513, 8193, 65_536, 300_000][(i + j) % 6];
            match m {
                Mode::Echo | Mode::ClientFirst | Mode::ClientDrops | Mode::TargetCloses => {
                    s.up = pick;
                    s.upc = chunk_for(r, pick);
                }
                Mode::TargetFirst | Mode::TargetDrops => {
                    s.down = pick;
                    s.downc = chunk_for(r, pick);
                }
                _ => {}
            }
            all.push(s);
        }
    }
    for c in all.chunks(SLOTS) {
        v.push(Scn::Tcp(c.to_vec()));
    }
    v.push(Scn::Tcp(vec![windows_scn(r, Entry::Tcp, true)]));
    v.push(Scn::Tcp(vec![windows_scn(r, Entry::Socks5V4, false)]));
    if tier == Tier::Thorough {
        v.push(Scn::Tcp(vec![windows_scn(r, Entry::HttpV4, true), windows_scn(r, Entry::Uds, false)]));
    }
    // UDP
    for socks in [false, true] {
        v.push(Scn::Udp(UdpScn { socks, clients: 1, targets: vec![0], sizes: vec![0, 1, 3, 4, 10, 1400], replies: 1, domain: false, idle_ms: 0, oneway: None, junk: None, rounds: 1, shared: None, seed: r.next() % 1_000_000 }));
        v.push(Scn::Udp(UdpScn { socks, clients: 4, targets: vec![0, 1], sizes: vec![10, 0, 1399, 64], replies: 2, domain: false, idle_ms: 0, oneway: None, junk: None, rounds: 1, shared: None, seed: r.next() % 1_000_000 }));
        v.push(Scn::Udp(UdpScn { socks, clients: 2, targets: vec![2], sizes: vec![12, 0, 700], replies: 1, domain: false, idle_ms: 0, oneway: None, junk: None, rounds: 1, shared: None, seed: r.next() % 1_000_000 }));
    }
    v.push(Scn::Udp(UdpScn { socks: true, clients: 3, targets: vec![0, 1], sizes: vec![16, 2, 1400], replies: 1, domain: true, idle_ms: 0, oneway: None, junk: None, rounds: 1, shared: None, seed: r.next() % 1_000_000 }));
    // one SOCKS5 UDP client socket, an IPv4 and an IPv6 target (and the same through two UDP remotes, where each
    // listener has its own flow id)
    v.push(Scn::Udp(UdpScn { socks: true, clients: 1, targets: vec![0, 2], sizes: vec![16, 17], replies: 1, domain: false, idle_ms: 0, oneway: None, junk: None, rounds: 1, shared: None, seed: 3 }));
    v.push(Scn::Udp(UdpScn { socks: false, clients: 2, targets: vec![0, 2], sizes: vec![16, 17], replies: 1, domain: false, idle_ms: 0, oneway: None, junk: None, rounds: 1, shared: None, seed: 4 }));
    // long flows: more than 64 KiB of replies on one pair of sockets
    v.extend(long_flow_pass(r, tier));
    // junk on the relay socket of a SOCKS5 UDP association
    v.extend(junk_pass(r, tier));
    // dialogues after a half-close, every entry point kind
    v.extend(half_close_pass(r, tier));
    // late-reading peers, every entry point kind
    v.extend(late_pass(&mut r.fork(4), tier));
    // optimistic data: payload in the same write as the last handshake message (a sub-stream of its own)
    v.extend(early_pass(&mut r.fork(6), tier));
    // split handshake: the client's handshake arrives in pieces (a sub-stream of its own)
    v.extend(split_pass(&mut r.fork(7), tier));
    v
}

// ---------------------------------------------------------------------------------------------
// Running, confirming, reporting
// ---------------------------------------------------------------------------------------------

fn side_json(s: &io::SideObs) -> Value {
    let mut v = json!({"received": s.received.len(), "sent": s.sent, "eof": s.saw_eof, "hang": s.hang, "read_err": s.read_err, "write_err": s.write_err});
    // the side that kept the connection open after the peer's half-close
    if !s.confirm_ms.is_empty() || s.unconfirmed.is_some() {
        v["messages_confirmed_by_peer_after_ms"] = json!(s.confirm_ms);
        v["message_not_confirmed"] = match &s.unconfirmed {
            Some(u) => json!({"message": u.msg, "offset": u.offset, "len": u.len, "waited_ms": u.waited_ms, "peer_had": u.peer_had, "peer_stopped_reading": u.peer_ended}),
            None => Value::Null,
        };
    }
    v
}

fn outcome_json(o: &Outcome) -> Value {
    match o {
        Outcome::Infra(e) => json!({"infra": e}),
        Outcome::Udp(u) => json!({"exchanges": u.exchanges, "replies_ok": u.replies_ok, "violations": u.bad.iter().map(|(k, d)| format!("{k}: {d}")).collect::<Vec<_>>()}),
        Outcome::Many(m) => json!({
            "client_remote": m.spec, "tunnel_warm_up": m.warm_up,
            "local_connections_opened": m.opened, "accepted_by_the_target": m.accepted, "carried_both_messages": m.served,
            "closed_by_the_local_client": m.closed_by_client, "closed_by_the_target": m.closed_by_target, "closes_seen_at_the_other_end": m.closes_seen,
            "closes_read_as_an_error_by_the_target": m.target_read_errors,
            "open_ms": m.open_ms, "talk_ms": m.talk_ms, "close_ms": m.close_ms, "slowest_answer_ms": m.slowest_answer_ms,
            "client_ended": m.ended,
            "violations": m.bad.iter().map(|(k, d)| format!("{k}: {d}")).collect::<Vec<_>>(),
        }),
        Outcome::Multi(m) => json!({
            "client_remotes": m.specs,
            "entry_points_never_opened": m.never_opened.iter().map(|(i, d)| format!("remote {i}: {d}")).collect::<Vec<_>>(),
            "tunnel_warm_up": m.warm_up,
            "client_ended_at_start_up": m.ended_at_start,
            "client_ended": m.ended,
            "unexpected_target_connections": m.unexpected,
            "through_each_remote": m.subs.iter().map(|(i, s)| match s {
                multi::SubOut::Tcp(c) => json!({"remote": i, "connection": outcome_json(&Outcome::Tcp(vec![c.clone()], 0))["connections"][0]}),
                multi::SubOut::Udp(u) => json!({"remote": i, "datagrams": {"exchanges": u.exchanges, "replies_ok": u.replies_ok, "violations": u.bad.iter().map(|(k, d)| format!("{k}: {d}")).collect::<Vec<_>>()}}),
                multi::SubOut::Skipped => json!({"remote": i, "skipped": "nothing listens there"}),
            }).collect::<Vec<_>>(),
        }),
        Outcome::Tcp(v, unexpected) => json!({
            "unexpected_target_connections": unexpected,
            "connections": v.iter().map(|c| json!({
                "handshake": c.handshake, "handshake_fail": c.handshake_fail, "ms": c.ms,
                "client": side_json(&c.client),
                "target": c.target.as_ref().map(side_json),
            })).collect::<Vec<_>>(),
        }),
    }
}

/// Run a scenario alone in fresh worlds up to `tries` times; the first failing outcome, if any.
fn confirm(sc: &Scn, mt: bool, tries: usize) -> Option<(Vec<(String, String)>, Outcome)> {
    for _ in 0..tries {
        let mut outs = run_world(std::slice::from_ref(sc), mt);
        let out = outs.pop().expect("one outcome");
        let bad = judge(sc, &out);
        if !bad.is_empty() {
            return Some((bad, out));
        }
    }
    None
}

fn replay(path: &str) -> i32 {
    let text = std::fs::read_to_string(path).expect("read replay file");
    let v: Value = serde_json::from_str(&text).expect("replay json");
    let rp = if v.get("replay").is_some() { &v["replay"] } else { &v };
    if rp["op"] == "maps" {
        let Some(ops) = rp["ops"].as_str().and_then(maps::parse_ops) else {
            println!("unreadable maps replay");
            return 2;
        };
        let a = Args { seed: 1, tier: Tier::Quick, driver: None, out: None, replay: None, corpus: None, extra: vec![] };
        let mut rep = Report::new("e2e", &a, "");
        maps::run_maps(&ops, None, &mut rep);
        println!("{}", serde_json::to_string_pretty(&rep.to_json()).unwrap());
        return i32::from(rep.failures.iter().any(|f| f["kind"] == "impl"));
    }
    let Some(sc) = rp["line"].as_str().and_then(Scn::parse) else {
        println!("unknown replay");
        return 2;
    };
    let mt = rp["rt"].as_str() != Some("current-thread");
    println!("scenario  {}", sc.line());
    let mut failed = false;
    for i in 0..3 {
        let mut outs = run_world(std::slice::from_ref(&sc), mt);
        let out = outs.pop().unwrap();
        let bad = judge(&sc, &out);
        println!("run {i}: {}", outcome_json(&out));
        for (k, d) in &bad {
            println!("FAILS [{k}]: {d}");
            failed = true;
        }
        if let Outcome::Infra(e) = &out {
            println!("infrastructure problem: {e}");
        }
        if failed {
            break;
        }
    }
    if failed {
        1
    } else {
        println!("holds on this input (3 runs)");
        0
    }
}

fn main() {
    let args = Args::parse();
    rusty_penguin_lib::tls::init_crypto_provider();
    let _ = std::fs::create_dir_all("/verif/.build/tmp");
    if let Some(ms) = std::env::var("E2E_STEP_MS").ok().and_then(|s| s.parse().ok()) {
        io::STEP_MS.store(ms, std::sync::atomic::Ordering::Relaxed);
    }
    if let Some(ms) = std::env::var("E2E_PROMPT_MS").ok().and_then(|s| s.parse().ok()) {
        io::PROMPT_MS.store(ms, std::sync::atomic::Ordering::Relaxed);
    }
    if let Some(line) = args.opt("--scenario") {
        let sc = Scn::parse(line).expect("scenario line");
        let mt = !args.flag("--current-thread");
        let out = run_world(std::slice::from_ref(&sc), mt).pop().unwrap();
        println!("{}", outcome_json(&out));
        for (k, d) in judge(&sc, &out) {
            println!("FAILS [{k}]: {d}");
        }
        return;
    }
    if let Some(p) = &args.replay {
        std::process::exit(replay(p));
    }
    let rule = "scenario = 1-4 concurrent local TCP connections (entry point kind, close order incl. dialogues after a half-close and peers that half-close at once and read late, payload sizes, chunkings, local clients that send the beginning of their upload together with their SOCKS / HTTP CONNECT request before reading the reply, local clients whose SOCKS / HTTP CONNECT handshake reaches the proxy in pieces cut inside and between its fields) or one UDP \
scenario (1-4 local UDP clients x tagged echo targets x payload sizes, via UDP remotes or SOCKS5 UDP associations; also after an idle \
time, one-way streams longer than two idle timeouts that the target answers only at the end, and exchanges after a malformed \
datagram on the relay socket of a SOCKS5 association, and long flows: up to 1100 exchanges on the same sockets, more than \
64 KiB of replies once and three times over, and 2-4 local sockets of one host on ONE SOCKS5 UDP association, at the same time, \
one after the other, or one closed and a new one going on) or one client with a remote set of its own (1-4 remotes drawn from fixed TCP / fixed UDP / SOCKS / HTTP / Unix \
socket, in a given order, on 127.0.0.1 / [::1] / 0.0.0.0, port numbers shared between TCP and UDP on one local address and between local hosts where the operating system allows, \
every remote exercised with such a TCP / UDP scenario) or one client with one entry point through which 17 .. 300 local connections are opened and all held open, each \
then carrying tokens of its own to the target and back, half closed by the local client and half by the target, run in real time \
through the real client_main_inner and the real server on loopback; plus map-operation sequences on the real client maps under the \
paused clock compared with the Lean model. Non-trivial = at least one byte / one datagram crossed the tunnel, or a close / refusal \
was propagated; distinct by scenario text";
    let mut rep = Report::new("e2e", &args, rule);
    let mut drv = args.driver.as_deref().map(|p| Driver::spawn(p, &[]).expect("start Lean driver"));
    let t_start = Instant::now();

    // --- maps against the model -------------------------------------------------------------
    let rng = Rng::new(args.seed);
    let (n_seq, n_ops) = match args.tier {
        Tier::Quick => (12, 40),
        Tier::Thorough => (150, 60),
    };
    let mut map_seqs: Vec<Vec<maps::MOp>> = vec![];
    for (_n, text) in pvhf::corpus_files(args.corpus.as_deref()) {
        for l in text.lines() {
            if let Some(rest) = l.trim().strip_prefix("maps ") {
                if let Some(ops) = maps::parse_ops(rest) {
                    map_seqs.push(ops);
                }
            }
        }
    }
    for _ in 0..n_seq {
        map_seqs.push(maps::gen_ops(&mut rng.fork(map_seqs.len() as u64 + 77), n_ops));
    }
    let only = args.opt("--only").map(str::to_string);
    let trace = std::env::var("E2E_TRACE").is_ok();
    if only.as_deref().is_some_and(|o| o != "maps") {
        map_seqs.clear();
    }
    let mut map_steps = 0;
    for ops in &map_seqs {
        if trace {
            eprintln!("maps: {}", maps::ops_text(ops));
        }
        let n = maps::run_maps(ops, drv.as_mut(), &mut rep);
        map_steps += n;
        if n > 0 {
            rep.case(Some(fnv(maps::ops_text(ops).as_bytes())));
            if drv.is_some() {
                rep.model_compared += n as u64;
            }
            rep.count("maps/sequence");
            rep.count_n("maps/steps", n as u64);
        }
    }
    rep.notes.push(format!("maps: {} operation sequences, {map_steps} steps compared with the model (add_udp_client, prune ticks of the real prune task under the paused clock, map contents read through Debug)", map_seqs.len()));

    // --- end-to-end scenarios ---------------------------------------------------------------
    let mut scs: Vec<Scn> = vec![];
    for (_n, text) in pvhf::corpus_files(args.corpus.as_deref()) {
        scs.extend(text.lines().filter(|l| !l.trim().starts_with("maps ")).filter_map(Scn::parse));
    }
    let n_corpus = scs.len();
    if only.as_deref() != Some("maps") {
        scs.extend(fixed_pass(&mut rng.fork(1), args.tier));
    }
    let n_fixed = scs.len() - n_corpus;
    let (n_tcp, n_udp, width) = match args.tier {
        Tier::Quick => (10, 6, 8),
        Tier::Thorough => (190, 90, 10),
    };
    let mut r2 = rng.fork(2);
    for _ in 0..n_tcp {
        let k = r2.range(1, 4) as usize;
        scs.push(Scn::Tcp((0..k).map(|_| random_tcp(&mut r2, args.tier, None, None)).collect()));
    }
    for i in 0..n_udp {
        scs.push(Scn::Udp(random_udp(&mut r2, i % 2 == 1)));
    }
    // several local sockets on one SOCKS5 UDP association (a sub-stream of its own: nothing above changes)
    let n_before_shared = scs.len();
    if only.as_deref() != Some("maps") {
        scs.extend(shared_assoc_pass(&mut rng.fork(5), args.tier));
    }
    let n_shared_gen = scs.len() - n_before_shared;
    // several remotes on one client (a sub-stream of its own: nothing above changes)
    let n_before_multi = scs.len();
    if only.as_deref() != Some("maps") && !args.flag("--no-multi") {
        scs.extend(multi::multi_pass(&mut rng.fork(8), args.tier).into_iter().map(Scn::Multi));
    }
    let n_multi_gen = scs.len() - n_before_multi;
    // many connections open at once (a sub-stream of its own: nothing above changes)
    let n_before_many = scs.len();
    if only.as_deref() != Some("maps") && !args.flag("--no-many") {
        scs.extend(many::many_pass(&mut rng.fork(9), args.tier).into_iter().map(Scn::Many));
    }
    let n_many_gen = scs.len() - n_before_many;
    // the idle scenario (forwarder time-out on the server, pruning on the client) and the one-way streams
    let mut waiting: Vec<Scn> = vec![];
    if only.as_deref() != Some("maps") && !args.flag("--no-idle") {
        for socks in [false, true] {
            waiting.push(Scn::Udp(UdpScn { socks, clients: 2, targets: vec![0, 1], sizes: vec![24], replies: 1, domain: false, idle_ms: 10_600, oneway: None, junk: None, rounds: 1, shared: None, seed: 5 }));
        }
        if !args.flag("--no-one-way") {
            waiting.extend(one_way_pass(&mut rng.fork(3), args.tier));
        }
    }
    scs.extend(waiting);
    let width = args.opt("--width").and_then(|w| w.parse().ok()).unwrap_or(width);
    {
        let mut seen = std::collections::HashSet::new();
        scs.retain(|s| seen.insert(s.line()));
    }
    if let Some(f) = args.opt("--filter") {
        scs.retain(|s| s.line().contains(f));
    }
    // distribute over worlds: the scenarios that mostly wait get a world each and are started first (longest
    // first), on threads of their own; of the others, consecutive scenarios share a world
    let per_world = 6usize;
    let mut jobs: Vec<(Vec<usize>, bool)> = vec![];
    let mut long: Vec<usize> = (0..scs.len()).filter(|i| is_long(&scs[*i])).collect();
    let expected_ms = |s: &Scn| match s {
        Scn::Udp(u) => u.idle_ms + u.oneway.as_ref().map_or(0, |o| o.ms + o.at_ms.map_or(0, |_| 5000)),
        Scn::Tcp(_) | Scn::Multi(_) | Scn::Many(_) => 0,
    };
    long.sort_by_key(|i| std::cmp::Reverse(expected_ms(&scs[*i])));
    for (k, i) in long.iter().enumerate() {
        // in the thorough tier every fifth of them on the current-thread runtime
        jobs.push((vec![*i], !(args.tier == Tier::Thorough && k % 5 == 4)));
    }
    let n_long = long.len();
    let short: Vec<usize> = (0..scs.len()).filter(|i| !is_long(&scs[*i]) && !scs[*i].own_world()).collect();
    for (wi, chunk) in short.chunks(per_world).enumerate() {
        jobs.push((chunk.to_vec(), wi % 3 != 2));
    }
    // a scenario of the several-remotes family builds its own client anyway: a job each, both runtime flavours
    for (k, i) in (0..scs.len()).filter(|i| matches!(scs[*i], Scn::Multi(_))).enumerate() {
        jobs.push((vec![i], k % 3 != 2));
    }
    // so does a scenario of the many-connections family
    for (k, i) in (0..scs.len()).filter(|i| matches!(scs[*i], Scn::Many(_))).enumerate() {
        jobs.push((vec![i], k % 3 != 1));
    }
    let threads = (width + n_long).min(jobs.len()).max(1);
    // the server part of the model on the idle scenario: is a datagram for a finished forwarder forwarded or dropped?
    let model_after_idle: Option<bool> = drv.as_mut().map(|d| {
        let r = d.batch(&["srv-reset".to_string(), "srv-recv 7 01 53 aa".to_string(), "srv-expire 0".to_string(), "srv-recv 7 01 53 bb".to_string()]);
        r[3].starts_with("to-target")
    });
    let mut outcomes: Vec<Option<(Outcome, bool)>> = (0..scs.len()).map(|_| None).collect();
    {
        let scs_ref = &scs;
        let next = std::sync::atomic::AtomicUsize::new(0);
        let results = std::sync::Mutex::new(vec![]);
        std::thread::scope(|s| {
            for _ in 0..threads {
                s.spawn(|| loop {
                    let j = next.fetch_add(1, std::sync::atomic::Ordering::SeqCst);
                    let Some((idxs, mt)) = jobs.get(j) else { break };
                    let batch: Vec<Scn> = idxs.iter().map(|i| scs_ref[*i].clone()).collect();
                    if trace {
                        eprintln!("world job {j} start: {} scenario(s), first: {}", batch.len(), batch[0].line().chars().take(100).collect::<String>());
                    }
                    let outs = run_world(&batch, *mt);
                    if trace {
                        eprintln!("world job {j} done");
                    }
                    let mut g = results.lock().unwrap();
                    for (i, o) in idxs.iter().zip(outs) {
                        g.push((*i, o, *mt));
                    }
                });
            }
        });
        for (i, o, mt) in results.into_inner().unwrap() {
            outcomes[i] = Some((o, mt));
        }
    }
    let mut reruns = 0;
    let mut unreproduced: Vec<String> = vec![];
    let (mut junk_relayed, mut junk_relayed_kinds) = (0usize, Vec::<&str>::new());
    let mut confirmed_keys = std::collections::HashSet::new();
    let mut same_again: Vec<String> = vec![];
    let mut infra = 0;
    let mut skipped = 0usize;
    let (mut hdr_remote, mut hdr_client, mut hdr_other) = (0usize, 0usize, 0usize);
    // several local sockets on one SOCKS5 UDP association: scenarios, sockets, sockets created after another was closed, exchanges, replies
    let (mut sh_scs, mut sh_sockets, mut sh_renewed, mut sh_exchanges, mut sh_replies) = (0usize, 0usize, 0usize, 0usize, 0usize);
    // several remotes on one client: scenarios, remotes, scenarios with a shared port number, of them TCP and UDP on one local address; what went through
    let (mut mr_scs, mut mr_remotes, mut mr_shared, mut mr_one_addr, mut mr_conns, mut mr_bytes, mut mr_dgrams, mut mr_replies) = (0usize, 0usize, 0usize, 0usize, 0usize, 0usize, 0usize, 0usize);
    // many connections open at once: scenarios, connections, served, closes seen, largest N, slowest answer, closes read as an error by the target
    let (mut mo_scs, mut mo_conns, mut mo_served, mut mo_closes, mut mo_max_n, mut mo_slowest, mut mo_resets) = (0usize, 0usize, 0usize, 0usize, 0usize, 0u64, 0usize);
    // dialogues after a half-close: messages awaited, slowest confirmation
    let (mut hold_msgs, mut hold_max_ms) = (0usize, 0u64);
    // late-reading peers: connections, bytes read by the late reader, of them complete with a clean end-of-stream
    let (mut late_conns, mut late_bytes, mut late_clean, mut late_max_ms) = (0usize, 0usize, 0usize, 0u64);
    // optimistic data: connections, bytes sent with the handshake, connections whose target read the whole upload
    let (mut early_conns, mut early_sent, mut early_whole) = (0usize, 0usize, 0usize);
    // split handshake: connections, cuts, connections on which the tunnel was opened, slowest connection
    let (mut split_conns, mut split_cuts, mut split_open, mut split_max_ms) = (0usize, 0usize, 0usize, 0u64);
    for (i, sc) in scs.iter().enumerate() {
        let (mut out, mt) = outcomes[i].take().expect("outcome");
        if let Outcome::Infra(e) = &out {
            if e.starts_with("CLIENT-ENDED") {
                rep.fail(FailKind::Impl, "client-ended", &format!("client_main_inner ended while scenarios were running: {e}"), json!({"op": "scenario", "line": sc.line()}));
                continue;
            }
            // infrastructure (ports, bind): run it again on its own
            infra += 1;
            let mut outs = run_world(std::slice::from_ref(sc), mt);
            out = outs.pop().unwrap();
            if let Outcome::Infra(e) = &out {
                skipped += 1;
                rep.notes.push(format!("scenario skipped (infrastructure): {e}: {}", sc.line().chars().take(160).collect::<String>()));
                continue;
            }
        }
        let mut bad = judge(sc, &out);
        if let (Scn::Udp(u), Some(pred), Outcome::Udp(_)) = (sc, model_after_idle, &out) {
            if u.idle_ms >= 10_300 && u.idle_ms < 19_000 {
                rep.model_compared += 1;
                let delivered = !bad.iter().any(|(k, _)| k.contains("after-idle"));
                if pred != delivered && (bad.is_empty() || bad.iter().all(|(k, _)| k.contains("after-idle"))) {
                    rep.fail(
                        FailKind::Model,
                        "srv:after-idle",
                        &format!("a datagram for a flow whose forwarder has finished: model says {}, the server {}", if pred { "forwarded by a new forwarder" } else { "dropped" }, if delivered { "forwarded it" } else { "dropped it" }),
                        json!({"op": "scenario", "line": sc.line()}),
                    );
                }
            }
        }
        if !bad.is_empty() && (is_long(sc) || matches!(sc, Scn::Udp(u) if u.junk.is_some()) || sc.own_world()) && bad.iter().all(|(k, _)| confirmed_keys.contains(k)) {
            // a scenario that mostly waits (or a junk scenario: every lost datagram is waited for), failing in a way
            // that has already been confirmed and reported on another scenario: not run again
            same_again.push(format!("{} :: {}", bad[0].0, sc.line()));
        } else if !bad.is_empty() {
            // shrink / confirm: each failing connection alone, then the whole scenario alone
            reruns += 1;
            let mut confirmed: Option<(Scn, Vec<(String, String)>, Outcome)> = None;
            if let Scn::Tcp(v) = sc {
                if v.len() > 1 {
                    for (j, s) in v.iter().enumerate() {
                        let fails_here = bad.iter().any(|(_, d)| d.contains(&s.line()));
                        if fails_here || j == 0 {
                            let single = Scn::Tcp(vec![s.clone()]);
                            if let Some((b, o)) = confirm(&single, mt, 2) {
                                confirmed = Some((single, b, o));
                                break;
                            }
                        }
                    }
                }
            }
            if let (Scn::Multi(m), Outcome::Multi(mo)) = (sc, &out) {
                // a smaller client: the remote that fails together with one other remote
                let mut failing: Vec<usize> = multi::judge_multi(m, mo).into_iter().filter_map(|(i, _, _)| i).collect();
                failing.dedup();
                for cand in m.shrink_candidates(&failing) {
                    let small = Scn::Multi(cand);
                    if let Some((b, o)) = confirm(&small, mt, 2) {
                        confirmed = Some((small, b, o));
                        break;
                    }
                }
            }
            if confirmed.is_none() {
                if let Some((b, o)) = confirm(sc, mt, 3) {
                    confirmed = Some((sc.clone(), b, o));
                }
            }
            match confirmed {
                Some((csc, b, o)) => {
                    for (k, d) in &b {
                        confirmed_keys.insert(k.clone());
                        rep.fail(
                            FailKind::Impl,
                            k,
                            d,
                            json!({"op": "scenario", "line": csc.line(), "rt": if mt { "multi-thread" } else { "current-thread" }, "seed": args.seed, "observed": outcome_json(&o)}),
                        );
                    }
                    bad = b;
                }
                None => {
                    unreproduced.push(format!("{} :: {}", bad[0].0, sc.line()));
                    bad.clear();
                }
            }
        }
        let nontrivial = match &out {
            Outcome::Tcp(v, _) => v.iter().any(|c| c.target_connected || c.client.saw_eof || c.handshake_fail.is_some()),
            Outcome::Udp(u) => u.replies_ok > 0,
            Outcome::Multi(m) => multi::nontrivial(m),
            Outcome::Many(m) => many::nontrivial(m),
            Outcome::Infra(_) => false,
        };
        rep.case(nontrivial.then(|| fnv(sc.line().as_bytes())));
        if let Outcome::Tcp(obs, _) = &out {
            for s in obs.iter().flat_map(|c| std::iter::once(&c.client).chain(c.target.as_ref())) {
                hold_msgs += s.confirm_ms.len();
                hold_max_ms = hold_max_ms.max(s.confirm_ms.iter().copied().max().unwrap_or(0));
            }
            if let Scn::Tcp(v) = sc {
                for (s, c) in v.iter().zip(obs.iter()).filter(|(s, _)| s.is_early()) {
                    early_conns += 1;
                    early_sent += s.early_bytes();
                    early_whole += usize::from(s.early_bytes() > 0 && c.target.as_ref().is_some_and(|t| t.received.len() == s.up));
                }
                for (s, c) in v.iter().zip(obs.iter()).filter(|(s, _)| s.is_split()) {
                    split_conns += 1;
                    split_cuts += s.split_cuts().len();
                    split_open += usize::from(c.handshake_fail.is_none() && c.client.infra.is_none() && c.target_connected);
                    split_max_ms = split_max_ms.max(c.ms);
                }
                for (s, c) in v.iter().zip(obs.iter()).filter(|(s, _)| s.mode.is_late()) {
                    let (late, bulk) = if s.mode == Mode::LateTarget { (c.target.as_ref(), s.up) } else { (Some(&c.client), s.down) };
                    late_conns += 1;
                    late_bytes += late.map_or(0, |l| l.received.len());
                    late_clean += usize::from(late.is_some_and(|l| l.received.len() == bulk && l.saw_eof && l.read_err.is_none()));
                    late_max_ms = late_max_ms.max(c.ms);
                }
            }
        }
        match (sc, &out) {
            (Scn::Tcp(v), _) => {
                rep.count(&format!("tcp/concurrent-{}", v.len()));
                for s in v {
                    rep.count(&format!("tcp/entry/{}", s.entry.text()));
                    rep.count(&format!("tcp/mode/{}", s.mode.text()));
                    let bucket = |n: usize| match n {
                        0 => "0",
                        1..=512 => "1..512",
                        513..=8192 => "513..8192",
                        8193..=300_000 => "8193..300000",
                        _ => ">300000",
                    };
                    rep.count(&format!("tcp/up-bytes/{}", bucket(s.up)));
                    rep.count(&format!("tcp/down-bytes/{}", bucket(s.down)));
                    rep.count(&format!("tcp/chunking/{}", s.upc.text().split(':').next().unwrap_or("?")));
                    if s.mode.is_late() {
                        let fam = s.mode.text();
                        let bulk = if s.mode == Mode::LateTarget { s.up } else { s.down };
                        rep.count(&format!("tcp/{fam}/entry/{}", s.entry.text()));
                        rep.count(&format!("tcp/{fam}/delay-ms/{}", s.slow_ms));
                        rep.count(&format!("tcp/{fam}/bulk-KiB/{}", bulk / KIB));
                        rep.count(&format!("tcp/{fam}/rcvbuf-KiB/{}", if s.rcvbuf == 0 { "default".to_string() } else { (s.rcvbuf / KIB).to_string() }));
                        rep.count(&format!("tcp/{fam}/reader/{}", if s.pace_ms == 0 { "full-speed".to_string() } else { format!("pause-{}-ms-per-32-KiB", s.pace_ms) }));
                    }
                    if s.is_early() {
                        let fam = "tcp/early-data";
                        let n = s.early_bytes();
                        rep.count(fam);
                        rep.count(&format!("{fam}/entry/{}", s.entry.text()));
                        rep.count(&format!("{fam}/mode/{}", s.mode.text()));
                        rep.count(&format!("{fam}/early-bytes/{}", match n { 0 => "0", 1 => "1", 2..=100 => "2..100", 101..=498 => "101..498", 499..=513 => "499..513", 514..=4096 => "514..4096", 4097..=8160 => "4097..8160", 8161..=8193 => "8161..8193", _ => ">8193" }));
                        rep.count(&format!("{fam}/whole-upload/{}", match s.up.cmp(&s.early) { std::cmp::Ordering::Less => "shorter-than-early", std::cmp::Ordering::Equal => "equal-to-early", std::cmp::Ordering::Greater => "longer-than-early" }));
                        if s.entry.is_socks5() {
                            rep.count(&format!("{fam}/socks5/{}", if s.hello_joined { "greeting+request+payload-in-one-write" } else { "greeting-alone-then-request+payload" }));
                        }
                    }
                    if s.is_split() {
                        let fam = "tcp/split-handshake";
                        let cuts = s.split_cuts();
                        let joined = s.hello_joined && s.entry.is_socks5();
                        let bytewise = cuts.len() > 4 && cuts.len() == tcp::cut_positions(s.entry, joined).len();
                        rep.count(fam);
                        rep.count(&format!("{fam}/entry/{}", s.entry.text()));
                        rep.count(&format!("{fam}/mode/{}", s.mode.text()));
                        rep.count(&format!("{fam}/pieces/{}", if bytewise { "one-byte-per-write".to_string() } else { (cuts.len() + 1).to_string() }));
                        if bytewise {
                            rep.count(&format!("{fam}/cut/{}/every-byte", s.entry.text()));
                        } else {
                            for (_, l) in &cuts {
                                rep.count(&format!("{fam}/cut/{}/{l}", s.entry.text()));
                            }
                        }
                        if s.entry.is_socks5() {
                            rep.count(&format!("{fam}/socks5/{}", if joined { "greeting-and-request-without-waiting-for-the-method-selection" } else { "method-selection-awaited-between-greeting-and-request" }));
                        }
                    }
                    if s.mode.is_hold() {
                        let (n, c) = if s.mode == Mode::ClientFirstHold { (s.down, &s.downc) } else { (s.up, &s.upc) };
                        let k = c.sizes(n).len();
                        rep.count(&format!("tcp/after-half-close/messages-{}", match k { 0 => "0", 1 => "1", 2..=5 => "2..5", _ => ">5" }));
                        rep.count(&format!("tcp/after-half-close/largest-message/{}", match c.sizes(n).iter().copied().max().unwrap_or(0) { 0 => "0", 1 => "1", 2..=512 => "2..512", 513..=8191 => "513..8191", _ => ">=8192" }));
                    }
                }
            }
            (Scn::Udp(u), Outcome::Udp(o)) => {
                if let Some(order) = u.shared.filter(|_| u.socks) {
                    let fam = "udp/socks5/several-sockets-on-one-association";
                    rep.count(&format!("{fam}/order/{}", order.text()));
                    rep.count(&format!("{fam}/sockets-over-its-life-{}", o.shared_sockets.max(u.clients)));
                    rep.count(&format!("{fam}/sockets-at-a-time-{}", u.clients));
                    rep.count(&format!("{fam}/targets/{}-{}", if u.targets.contains(&2) { "ipv6" } else if u.domain { "domain" } else { "ipv4" }, u.targets.len()));
                    rep.count(&format!("{fam}/replies-per-datagram-{}", u.replies));
                    sh_scs += 1;
                    sh_sockets += o.shared_sockets;
                    sh_renewed += o.shared_renewed;
                    sh_exchanges += o.exchanges;
                    sh_replies += o.replies_ok;
                } else {
                    rep.count(&format!("udp/{}/clients-{}", if u.socks { "socks5" } else { "udp-remote" }, u.clients));
                }
                rep.count_n("udp/exchanges", o.exchanges as u64);
                rep.count_n("udp/replies-checked", o.replies_ok as u64);
                if u.idle_ms > 0 {
                    rep.count("udp/after-idle");
                }
                if u.rounds > 1 {
                    let kib = u.rounds * u.sizes.iter().map(|n| (n + 2) * u.replies).sum::<usize>() / 1024;
                    rep.count(&format!("udp/long-flow/{}/reply-KiB-per-client-and-target-{}", if u.socks { "socks5" } else { "udp-remote" }, match kib { 0..=63 => "<64", 64..=127 => "64..127", 128..=191 => "128..191", _ => ">=192" }));
                }
                if let Some(j) = &u.junk {
                    rep.count(&format!("udp/after-junk/{}/by-{}/{}", j.kind.text(), if j.other { "other-socket" } else { "own-socket" }, if j.before { "before-any-exchange" } else { "after-an-exchange" }));
                    junk_relayed += o.junk_relayed;
                    if o.junk_relayed > 0 && !junk_relayed_kinds.contains(&j.kind.text()) {
                        junk_relayed_kinds.push(j.kind.text());
                    }
                }
                if let Some(ow) = &u.oneway {
                    rep.count(&format!("udp/after-one-way/{}", if u.socks { "socks5" } else { "udp-remote" }));
                    if ow.shared {
                        rep.count("udp/after-one-way/several-sockets-on-one-association");
                    }
                    if ow.at_ms.is_some() {
                        rep.count("udp/after-one-way/answer-placed-relative-to-prune-tick");
                    }
                }
                hdr_remote += o.hdr_remote;
                hdr_client += o.hdr_client;
                hdr_other += o.hdr_other;
            }
            (Scn::Many(m), Outcome::Many(o)) => {
                rep.count("many-open");
                for b in m.buckets() {
                    rep.count(&b);
                }
                rep.count_n("many-open/connections-held-open", o.opened as u64);
                rep.count_n("many-open/connections-that-carried-both-messages", o.served as u64);
                rep.count_n("many-open/closes-seen-at-the-other-end", o.closes_seen as u64);
                mo_scs += 1;
                mo_conns += o.opened;
                mo_served += o.served;
                mo_closes += o.closes_seen;
                mo_max_n = mo_max_n.max(m.n);
                mo_slowest = mo_slowest.max(o.slowest_answer_ms);
                mo_resets += o.target_read_errors;
            }
            (Scn::Multi(m), Outcome::Multi(o)) => {
                rep.count("multi-remote");
                for b in m.buckets() {
                    rep.count(&b);
                }
                mr_scs += 1;
                mr_remotes += m.remotes.len();
                mr_shared += usize::from(m.buckets().iter().any(|b| b.contains("/same-port-number/")));
                mr_one_addr += usize::from(m.buckets().iter().any(|b| b.contains("/one-local-address-tcp-and-udp/")));
                for (_, s) in &o.subs {
                    match s {
                        multi::SubOut::Tcp(c) => {
                            mr_conns += 1;
                            mr_bytes += c.client.received.len() + c.target.as_ref().map_or(0, |t| t.received.len());
                        }
                        multi::SubOut::Udp(u) => {
                            mr_dgrams += u.exchanges;
                            mr_replies += u.replies_ok;
                            rep.count_n("udp/exchanges", u.exchanges as u64);
                            rep.count_n("udp/replies-checked", u.replies_ok as u64);
                            hdr_remote += u.hdr_remote;
                            hdr_client += u.hdr_client;
                            hdr_other += u.hdr_other;
                        }
                        multi::SubOut::Skipped => {}
                    }
                }
            }
            _ => {}
        }
        if i < n_corpus + 3 || (i % 17 == 0) {
            rep.sample(json!({"scenario": sc.line(), "observed": outcome_json(&out), "violations": bad.len()}));
        }
    }
    rep.notes.push(format!(
        "{} end-to-end scenarios ({n_corpus} corpus, {n_fixed} fixed pass, {n_shared_gen} several-sockets-on-one-association, {n_multi_gen} several-remotes-on-one-client, {n_many_gen} many-connections-open-at-once, rest random and waiting), {} worlds, width {width}; {reruns} failing scenario(s) re-run alone, {} could not be reproduced; {infra} re-run for infrastructure reasons; {} s",
        scs.len(),
        jobs.len(),
        unreproduced.len(),
        t_start.elapsed().as_secs()
    ));
    if skipped * 10 > scs.len() {
        rep.fail(FailKind::Model, "harness:infrastructure", &format!("{skipped} of {} scenarios could not be run (ports / bind / world start-up); see notes", scs.len()), json!({}));
    }
    if !same_again.is_empty() {
        rep.notes.push(format!("{} more scenario(s) failed in a way already confirmed on another scenario and were not run again: {}", same_again.len(), same_again.iter().take(40).cloned().collect::<Vec<_>>().join(" ;; ")));
    }
    for u in unreproduced.iter().take(8) {
        rep.notes.push(format!("failed once, not reproduced in 3 runs alone: {u}"));
    }
    rep.notes.push(format!(
        "dialogues after a half-close: {hold_msgs} messages written into a connection that was then kept open and idle until the other end had them; slowest {hold_max_ms} ms (bound {} ms)",
        io::prompt().as_millis()
    ));
    rep.notes.push(format!(
        "late-reading peers: {late_conns} connection(s) where one end sent a short message (or nothing), half-closed at once, made its receive buffer small and began to read 0.3 .. 2.5 s later (slowly or at full speed) while the other end wrote 64 KiB .. 3 MiB, half-closed and closed; the late readers read {late_bytes} bytes, {late_clean} of {late_conns} got every byte followed by a clean end-of-stream; slowest connection {late_max_ms} ms"
    ));
    rep.notes.push(format!(
        "optimistic data: {early_conns} connection(s) whose local client wrote the beginning of its upload ({early_sent} bytes in all) in the same write as the last message of its SOCKS4 / SOCKS4a / SOCKS5 / HTTP CONNECT handshake and read the proxy's reply only afterwards (SOCKS5: greeting alone first, or greeting + request + payload in one write); judged by the ordinary rules (every byte at the target, in order, exactly once); in {early_whole} of them the target read the complete upload (the others: modes in which the client sends nothing, or failures)"
    ));
    rep.notes.push(format!(
        "split handshake: {split_conns} connection(s) whose local client wrote its SOCKS4 / SOCKS4a / SOCKS5 / HTTP CONNECT handshake in pieces ({split_cuts} cuts in all: inside and between the fields, see the distribution under tcp/split-handshake/cut; some one byte per write), every piece flushed on a TCP_NODELAY socket and followed by a pause of {} ms so that the proxy reads it alone; judged by the ordinary rules (the tunnel to a listening target must open, then every byte in order); on {split_open} of them the tunnel opened and the target was reached; slowest connection {split_max_ms} ms",
        tcp::SPLIT_PAUSE_MS
    ));
    rep.notes.push(format!(
        "SOCKS5 UDP reply headers (all well-formed, payload recovered): DST.ADDR/DST.PORT named the remote host in {hdr_remote}, the local client's own address in {hdr_client}, something else in {hdr_other} replies"
    ));
    rep.notes.push(format!(
        "junk on a SOCKS5 relay socket: {junk_relayed} malformed datagram(s) were relayed to the target as if well-formed (kinds: {junk_relayed_kinds:?}; RSV != 0 is relayed by the pinned code: reported, not judged)"
    ));
    rep.notes.push(format!(
        "several local sockets on one SOCKS5 UDP association: {sh_scs} scenario(s) with ONE UDP ASSOCIATE (one control connection, one relay address) used by 2-4 local sockets of one host (different source ports) at the same time / one after the other / with a socket closed and a new one going on while the control connection stays open: {sh_sockets} sockets ({sh_renewed} of them created after another was closed), {sh_exchanges} datagrams, {sh_replies} replies each checked at the socket that sent the request (every socket listening all the time), from the relay address, behind a well-formed RFC 1928 header naming neither another of these sockets nor another target; IPv4 and IPv6 targets never on one association here (that is the separate known finding)"
    ));
    rep.notes.push(format!(
        "several remotes on one client: {mr_scs} scenario(s), each ONE real client with a remote set of its own ({mr_remotes} remotes in all; 1-4 per client drawn from fixed TCP / fixed UDP / SOCKS / HTTP / Unix socket, in a given order, on 127.0.0.1 / [::1] / 0.0.0.0), {mr_shared} of them with a port number used by more than one remote ({mr_one_addr}: a TCP listener and a UDP socket on ONE local address, in either order; the others: one port number on two local hosts); every entry point had to be there within {} ms of the first one, and EVERY remote was exercised with an ordinary scenario of its kind, one after the other or all at the same time, judged by the ordinary rules: {mr_conns} connections ({mr_bytes} payload bytes read at either end), {mr_dgrams} datagrams, {mr_replies} replies checked at the socket that sent the request; distribution under multi-remote/",
        world::OPEN_GRACE.as_millis()
    ));
    rep.notes.push(format!(
        "many connections open at once: {mo_scs} scenario(s), each ONE real client with one entry point (fixed TCP remote / SOCKS5 CONNECT / HTTP CONNECT / Unix socket) and a target of its own; {mo_conns} local connections opened and all held open (up to {mo_max_n} through one client at the same time), {mo_served} of them carried two tokens of their own to the target and back while all the others stayed open (one connection after the other in a random order, then all at once; slowest answer {mo_slowest} ms, bound {} ms), then half closed by the local client and half by the target: {mo_closes} closes seen at the other end ({mo_resets} read as an error instead of an end-of-stream by the target: noted, not judged)",
        io::prompt().as_millis()
    ));
    if let Some(d) = &drv {
        rep.notes.push(format!("driver lines: {}", d.lines));
    }
    rep.finish(&args);
    std::process::exit(i32::from(rep.has_failures()));
}
