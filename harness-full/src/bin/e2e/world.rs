//! One "world": scripted targets, the real penguin server (`run_listener` + `State`) and the real
//! client (`client_main_inner`) with one remote per entry point kind, all on loopback in one tokio
//! runtime.  `World::start_multi` builds the same world around a client that has only the 1-4 remotes of a
//! "several remotes on one client" scenario (multi.rs), on local hosts and ports that may be shared between
//! them where the operating system allows it (TCP and UDP ports are separate name spaces; so are the ports
//! of 127.0.0.1 and ::1).

use crate::io::{run_side, BoxStream, Role, Script, SideObs, Chunk};
use penguin_mux::timing::OptionalDuration;
use rusty_penguin_lib::arg::{ClientArgs, Remote, ServerUrl};
use rusty_penguin_lib::client::{HandlerResources, client_main_inner};
use rusty_penguin_lib::server::{State, run_listener};
use std::collections::VecDeque;
use std::net::{IpAddr, Ipv4Addr, SocketAddr};
use std::path::PathBuf;
use std::str::FromStr;
use std::sync::atomic::{AtomicU16, AtomicU64, AtomicUsize, Ordering};
use std::sync::{Arc, Mutex};
use std::time::{Duration, Instant};
use tokio::net::{TcpListener, TcpStream, UdpSocket};
use tokio::sync::oneshot;

pub const SLOTS: usize = 4;
pub const UDP_TARGETS: usize = 3; // 0, 1: IPv4 targets; 2: IPv6 target

static NEXT_PORT: AtomicU16 = AtomicU16::new(0);
static NEXT_WORLD: AtomicU64 = AtomicU64::new(0);

/// A free loopback port (TCP and UDP) outside the ephemeral range: the client's listeners need
/// ports known in advance.
pub fn pick_port() -> u16 {
    let base = (std::process::id() % 50) as u16 * 160;
    for _ in 0..4000 {
        let off = NEXT_PORT.fetch_add(1, Ordering::Relaxed) % 8000;
        let port = 12000 + (base + off) % 8000; // 12000..20000
        let t = std::net::TcpListener::bind(("127.0.0.1", port));
        let u = std::net::UdpSocket::bind(("127.0.0.1", port));
        if t.is_ok() && u.is_ok() {
            return port;
        }
    }
    panic!("no free port");
}

/// A port number outside the ephemeral range on which every one of the given sockets (is it UDP?, local
/// address) can be bound right now: all of them are bound at the same number at the same time, then released.
pub fn pick_port_for(wanted: &[(bool, IpAddr)]) -> Option<u16> {
    let base = (std::process::id() % 50) as u16 * 160;
    for _ in 0..4000 {
        let off = NEXT_PORT.fetch_add(1, Ordering::Relaxed) % 8000;
        let port = 12000 + (base + off) % 8000; // 12000..20000
        let mut held_t = vec![];
        let mut held_u = vec![];
        let mut ok = true;
        for (udp, ip) in wanted {
            if *udp {
                match std::net::UdpSocket::bind((*ip, port)) {
                    Ok(s) => held_u.push(s),
                    Err(_) => ok = false,
                }
            } else {
                match std::net::TcpListener::bind((*ip, port)) {
                    Ok(s) => held_t.push(s),
                    Err(_) => ok = false,
                }
            }
            if !ok {
                break;
            }
        }
        if ok {
            return Some(port);
        }
    }
    None
}

/// The address the client's socket will be bound to (what our own trial bind has to use): the address written in
/// the specification when it is a literal, otherwise the one a local client reaches it at.
fn bind_ip(host_text: &str, reach: IpAddr) -> IpAddr {
    host_text.trim_start_matches('[').trim_end_matches(']').parse().unwrap_or(reach)
}

/// One entry point of the client of a multi-remote world: what listens where, as the local clients reach it.
#[derive(Clone, Debug)]
pub enum Listens {
    Tcp(IpAddr, u16),
    Udp(IpAddr, u16),
    Unix(PathBuf),
}

impl Listens {
    /// Is somebody bound there?  (Our own bind fails exactly then; it is released at once.)
    pub fn bound(&self) -> bool {
        match self {
            Listens::Tcp(ip, p) => std::net::TcpListener::bind((*ip, *p)).is_err(),
            Listens::Udp(ip, p) => std::net::UdpSocket::bind((*ip, *p)).is_err(),
            Listens::Unix(p) => p.exists(),
        }
    }
    pub fn text(&self) -> String {
        match self {
            Listens::Tcp(ip, p) => format!("TCP {}", SocketAddr::new(*ip, *p)),
            Listens::Udp(ip, p) => format!("UDP {}", SocketAddr::new(*ip, *p)),
            Listens::Unix(p) => format!("unix socket {}", p.display()),
        }
    }
}

/// One remote of the client of a multi-remote world, already tied to the world's targets: remote `i` of the list
/// forwards to TCP target slot `i` (fixed TCP remote, Unix socket) or to UDP target `udp_target` (UDP remote).
#[derive(Clone, Debug)]
pub enum PlanKind {
    Tcp,
    Unix,
    Socks,
    Http,
    Udp { udp_target: usize },
}

#[derive(Clone, Debug)]
pub struct PlanRemote {
    pub kind: PlanKind,
    /// LOCAL_HOST as written in the specification (`127.0.0.1`, `[::1]`, `0.0.0.0`), and the address a local client uses
    pub host_text: &'static str,
    pub reach: IpAddr,
    /// remotes with the same group get the same port number
    pub group: u8,
}

/// How long a listener of a client that is running may take to appear after the first of its listeners was
/// seen (they are all started together, before the client even connects to the server): after that it is
/// "never opened".
pub const OPEN_GRACE: Duration = Duration::from_millis(3000);

pub struct TargetJob {
    pub script: Script,
    pub done: oneshot::Sender<SideObs>,
}

pub struct Slot {
    pub v4: SocketAddr,
    pub v6: SocketAddr,
    pub queue: Arc<Mutex<VecDeque<TargetJob>>>,
}

pub struct UdpTargetLog {
    /// (payload, source address as seen by the target)
    pub got: Vec<(Vec<u8>, SocketAddr)>,
}

pub struct UdpTarget {
    pub addr: SocketAddr,
    pub tag: u8,
    pub log: Arc<Mutex<UdpTargetLog>>,
    /// how many replies the target sends per datagram (1 or 2)
    pub replies: Arc<AtomicUsize>,
    /// the socket itself, for unsolicited late replies
    pub sock: Arc<UdpSocket>,
}

pub struct World {
    pub id: u64,
    pub slots: Vec<Slot>,
    /// connections that reached a target while no scenario expected one
    pub unexpected_target_conns: Arc<AtomicUsize>,
    pub tcp_ports: Vec<u16>,
    pub uds_paths: Vec<PathBuf>,
    pub refuse_tcp_port: u16,
    pub refuse_uds_path: PathBuf,
    pub closed_port: u16,
    pub socks_port: u16,
    pub http_port: u16,
    pub udp_targets: Vec<UdpTarget>,
    /// client-side UDP listeners, one per UDP target
    pub udp_remote_ports: Vec<u16>,
    /// where a local client reaches the entry points (127.0.0.1 everywhere except in multi-remote worlds)
    pub tcp_hosts: Vec<IpAddr>,
    pub socks_host: IpAddr,
    pub http_host: IpAddr,
    pub udp_remote_hosts: Vec<IpAddr>,
    /// the client's remote specifications as given to it; multi-remote worlds: the
    /// remotes (index, description) on which nothing listened although the client was up and running
    pub specs: Vec<String>,
    pub never_opened: Vec<(usize, String)>,
    pub hr: &'static HandlerResources,
    pub client_started: Instant,
    pub client_result: Arc<Mutex<Option<String>>>,
    pub dir: PathBuf,
    /// keeps `closed_port` bound (never listening) so that it refuses for the whole life of the world
    _closed: tokio::net::TcpSocket,
}

async fn target_accept_loop(l: TcpListener, queue: Arc<Mutex<VecDeque<TargetJob>>>, unexpected: Arc<AtomicUsize>) {
    loop {
        let Ok((s, _)) = l.accept().await else { continue };
        let _ = s.set_nodelay(true);
        let job = queue.lock().unwrap().pop_front();
        match job {
            None => {
                unexpected.fetch_add(1, Ordering::SeqCst);
                drop(s);
            }
            Some(job) => {
                if let Some(n) = job.script.rcvbuf {
                    let _ = crate::io::set_rcvbuf(&s, n);
                }
                tokio::spawn(async move {
                    let obs = run_side(Box::new(s) as BoxStream, &job.script).await;
                    let _ = job.done.send(obs);
                });
            }
        }
    }
}

async fn udp_target_loop(sock: Arc<UdpSocket>, tag: u8, log: Arc<Mutex<UdpTargetLog>>, replies: Arc<AtomicUsize>) {
    let mut buf = vec![0u8; 65536];
    loop {
        let Ok((n, src)) = sock.recv_from(&mut buf).await else { continue };
        log.lock().unwrap().got.push((buf[..n].to_vec(), src));
        let k = replies.load(Ordering::SeqCst);
        for i in 0..k {
            // reply i of this target: tag, reply index, then the request unchanged
            let mut out = Vec::with_capacity(n + 2);
            out.push(tag);
            out.push(i as u8);
            out.extend_from_slice(&buf[..n]);
            let _ = sock.send_to(&out, src).await;
        }
    }
}

/// Everything of a world but the client: scripted targets, the port that refuses, the real server.
struct Base {
    id: u64,
    dir: PathBuf,
    unexpected: Arc<AtomicUsize>,
    slots: Vec<Slot>,
    udp_targets: Vec<UdpTarget>,
    closed: tokio::net::TcpSocket,
    closed_port: u16,
    server_addr: SocketAddr,
}

impl Base {
    async fn start() -> Result<Base, String> {
        let id = NEXT_WORLD.fetch_add(1, Ordering::SeqCst);
        let dir = PathBuf::from(format!("/verif/.build/tmp/e2e-{}-{}", std::process::id(), id));
        std::fs::create_dir_all(&dir).map_err(|e| format!("mkdir: {e}"))?;
        let unexpected = Arc::new(AtomicUsize::new(0));
        // targets
        let mut slots = vec![];
        for _ in 0..SLOTS {
            let l4 = TcpListener::bind("127.0.0.1:0").await.map_err(|e| format!("bind target: {e}"))?;
            let l6 = TcpListener::bind("[::1]:0").await.map_err(|e| format!("bind target v6: {e}"))?;
            let queue = Arc::new(Mutex::new(VecDeque::new()));
            let slot = Slot { v4: l4.local_addr().unwrap(), v6: l6.local_addr().unwrap(), queue: queue.clone() };
            tokio::spawn(target_accept_loop(l4, queue.clone(), unexpected.clone()));
            tokio::spawn(target_accept_loop(l6, queue, unexpected.clone()));
            slots.push(slot);
        }
        let mut udp_targets = vec![];
        for t in 0..UDP_TARGETS {
            let sock = Arc::new(
                UdpSocket::bind(if t == 2 { "[::1]:0" } else { "127.0.0.1:0" }).await.map_err(|e| format!("bind udp target: {e}"))?,
            );
            let log = Arc::new(Mutex::new(UdpTargetLog { got: vec![] }));
            let replies = Arc::new(AtomicUsize::new(1));
            let tag = 0xA0 + t as u8;
            tokio::spawn(udp_target_loop(sock.clone(), tag, log.clone(), replies.clone()));
            udp_targets.push(UdpTarget { addr: sock.local_addr().unwrap(), tag, log, replies, sock });
        }
        // a port that refuses: bound but not listening
        let closed = tokio::net::TcpSocket::new_v4().map_err(|e| e.to_string())?;
        closed.bind("127.0.0.1:0".parse().unwrap()).map_err(|e| e.to_string())?;
        let closed_port = closed.local_addr().unwrap().port();
        // the real server
        let srv = TcpListener::bind("127.0.0.1:0").await.map_err(|e| format!("bind server: {e}"))?;
        let server_addr = srv.local_addr().unwrap();
        let state = State::new().await.map_err(|e| format!("State::new: {e}"))?;
        tokio::spawn(run_listener(srv, None, state));
        Ok(Base { id, dir, unexpected, slots, udp_targets, closed, closed_port, server_addr })
    }

    /// Start the real client with these remote specifications.
    #[allow(clippy::type_complexity)]
    fn spawn_client(&self, remotes: &[String]) -> Result<(&'static HandlerResources, Arc<Mutex<Option<String>>>, Instant), String> {
        let mut parsed = vec![];
        for r in remotes {
            parsed.push(Remote::from_str(r).map_err(|e| format!("remote spec {r}: {e}"))?);
        }
        let args: &'static ClientArgs = Box::leak(Box::new(ClientArgs {
            server: ServerUrl::from_str(&format!("ws://{}/ws", self.server_addr)).map_err(|e| format!("server url: {e}"))?,
            remote: parsed,
            keepalive: OptionalDuration::NONE,
            max_retry_count: 5,
            max_retry_interval: 1000,
            handshake_timeout: OptionalDuration::from_secs(10),
            channel_timeout: OptionalDuration::from_secs(10),
            ..Default::default()
        }));
        let (hr, stream_command_rx, datagram_rx) = HandlerResources::create();
        let hr: &'static HandlerResources = Box::leak(Box::new(hr));
        let client_result = Arc::new(Mutex::new(None));
        let client_started = Instant::now();
        {
            let cr = client_result.clone();
            tokio::spawn(async move {
                let r = client_main_inner(args, hr, stream_command_rx, datagram_rx).await;
                *cr.lock().unwrap() = Some(format!("{r:?}"));
            });
        }
        Ok((hr, client_result, client_started))
    }
}

impl World {
    /// Build the world inside the current runtime. `Err` = infrastructure problem (ports, bind), to
    /// be retried by the caller, not a finding.
    pub async fn start() -> Result<Arc<World>, String> {
        let base = Base::start().await?;
        let (slots, udp_targets, dir, closed_port) = (&base.slots, &base.udp_targets, &base.dir, base.closed_port);
        // the real client
        let tcp_ports: Vec<u16> = (0..SLOTS).map(|_| pick_port()).collect();
        let uds_paths: Vec<PathBuf> = (0..SLOTS).map(|j| dir.join(format!("s{j}.sock"))).collect();
        let refuse_tcp_port = pick_port();
        let refuse_uds_path = dir.join("refuse.sock");
        let socks_port = pick_port();
        let http_port = pick_port();
        let udp_remote_ports: Vec<u16> = (0..UDP_TARGETS).map(|_| pick_port()).collect();
        let mut remotes = vec![];
        for j in 0..SLOTS {
            remotes.push(format!("127.0.0.1:{}:127.0.0.1:{}", tcp_ports[j], slots[j].v4.port()));
            remotes.push(format!("[unix:{}]:127.0.0.1:{}", uds_paths[j].display(), slots[j].v4.port()));
        }
        remotes.push(format!("127.0.0.1:{refuse_tcp_port}:127.0.0.1:{closed_port}"));
        remotes.push(format!("[unix:{}]:127.0.0.1:{closed_port}", refuse_uds_path.display()));
        remotes.push(format!("127.0.0.1:{socks_port}:socks"));
        remotes.push(format!("127.0.0.1:{http_port}:http"));
        for t in 0..UDP_TARGETS {
            let a = udp_targets[t].addr;
            let host = if a.is_ipv6() { "[::1]" } else { "127.0.0.1" };
            remotes.push(format!("127.0.0.1:{}:{host}:{}/udp", udp_remote_ports[t], a.port()));
        }
        let (hr, client_result, client_started) = base.spawn_client(&remotes)?;
        let lo = IpAddr::V4(Ipv4Addr::LOCALHOST);
        let w = Arc::new(World {
            id: base.id,
            slots: base.slots,
            unexpected_target_conns: base.unexpected,
            tcp_ports,
            uds_paths,
            refuse_tcp_port,
            refuse_uds_path,
            closed_port,
            socks_port,
            http_port,
            udp_targets: base.udp_targets,
            udp_remote_ports,
            tcp_hosts: vec![lo; SLOTS],
            socks_host: lo,
            http_host: lo,
            udp_remote_hosts: vec![lo; UDP_TARGETS],
            specs: remotes,
            never_opened: vec![],
            hr,
            client_started,
            client_result,
            dir: base.dir,
            _closed: base.closed,
        });
        w.wait_ready().await?;
        Ok(w)
    }

    /// The world of one "several remotes on one client" scenario: the client gets exactly the remotes of `plan`, in
    /// that order.  Remotes of one group share a port number (found free for every socket of the group at once).
    /// Returns as soon as every entry point is bound, or when the client is up (at least one of its listeners
    /// is there, or 15 s have passed) and `OPEN_GRACE` later some entry point still is not: those are listed in
    /// `never_opened` and left to the caller to report.  No byte has crossed the tunnel yet (the caller warms it
    /// up through whichever remote it has).  `Err` = infrastructure (no free port, the client ended at start-up).
    pub async fn start_multi(plan: &[PlanRemote]) -> Result<Arc<World>, String> {
        Self::start_multi_to(plan, None).await
    }

    /// `start_multi` whose fixed TCP / Unix socket remotes forward to `fixed_target` (a 127.0.0.1 listener of the
    /// caller: the "many connections open at once" family brings a target of its own) instead of the world's slots.
    pub async fn start_multi_to(plan: &[PlanRemote], fixed_target: Option<SocketAddr>) -> Result<Arc<World>, String> {
        if plan.is_empty() || plan.len() > SLOTS {
            return Err(format!("a multi-remote world has 1 .. {SLOTS} remotes"));
        }
        let base = Base::start().await?;
        let lo = IpAddr::V4(Ipv4Addr::LOCALHOST);
        // one port number per group
        let mut groups: Vec<u8> = plan.iter().filter(|r| !matches!(r.kind, PlanKind::Unix)).map(|r| r.group).collect();
        groups.sort_unstable();
        groups.dedup();
        let mut port_of = std::collections::HashMap::new();
        for g in groups {
            let wanted: Vec<(bool, IpAddr)> = plan
                .iter()
                .filter(|r| r.group == g && !matches!(r.kind, PlanKind::Unix))
                .map(|r| (matches!(r.kind, PlanKind::Udp { .. }), bind_ip(r.host_text, r.reach)))
                .collect();
            port_of.insert(g, pick_port_for(&wanted).ok_or("no port number free for every socket of a group")?);
        }
        let mut tcp_ports = vec![0u16; SLOTS];
        let mut tcp_hosts = vec![lo; SLOTS];
        let mut uds_paths: Vec<PathBuf> = (0..SLOTS).map(|j| base.dir.join(format!("absent{j}.sock"))).collect();
        let (mut socks_port, mut http_port, mut socks_host, mut http_host) = (0u16, 0u16, lo, lo);
        let mut udp_remote_ports = vec![0u16; UDP_TARGETS];
        let mut udp_remote_hosts = vec![lo; UDP_TARGETS];
        let mut remotes = vec![];
        let mut listens = vec![];
        for (i, r) in plan.iter().enumerate() {
            let port = port_of.get(&r.group).copied().unwrap_or(0);
            let host = r.host_text;
            match r.kind {
                PlanKind::Tcp => {
                    tcp_ports[i] = port;
                    tcp_hosts[i] = r.reach;
                    remotes.push(format!("{host}:{port}:127.0.0.1:{}", fixed_target.map_or(base.slots[i].v4.port(), |a| a.port())));
                    listens.push(Listens::Tcp(r.reach, port));
                }
                PlanKind::Unix => {
                    uds_paths[i] = base.dir.join(format!("s{i}.sock"));
                    remotes.push(format!("[unix:{}]:127.0.0.1:{}", uds_paths[i].display(), fixed_target.map_or(base.slots[i].v4.port(), |a| a.port())));
                    listens.push(Listens::Unix(uds_paths[i].clone()));
                }
                PlanKind::Socks => {
                    (socks_port, socks_host) = (port, r.reach);
                    remotes.push(format!("{host}:{port}:socks"));
                    listens.push(Listens::Tcp(r.reach, port));
                }
                PlanKind::Http => {
                    (http_port, http_host) = (port, r.reach);
                    remotes.push(format!("{host}:{port}:http"));
                    listens.push(Listens::Tcp(r.reach, port));
                }
                PlanKind::Udp { udp_target } => {
                    let a = base.udp_targets.get(udp_target).ok_or("no such UDP target")?.addr;
                    udp_remote_ports[udp_target] = port;
                    udp_remote_hosts[udp_target] = r.reach;
                    remotes.push(format!("{host}:{port}:{}:{}/udp", if a.is_ipv6() { "[::1]" } else { "127.0.0.1" }, a.port()));
                    listens.push(Listens::Udp(r.reach, port));
                }
            }
        }
        let (hr, client_result, client_started) = base.spawn_client(&remotes)?;
        // which entry points appear?
        let mut first_seen: Option<Instant> = None;
        let mut never_opened = vec![];
        loop {
            if let Some(r) = client_result.lock().unwrap().clone() {
                return Err(format!("CLIENT-ENDED-AT-START-UP client_main_inner returned {r} (remotes: {})", remotes.join(" ")));
            }
            let bound: Vec<bool> = listens.iter().map(Listens::bound).collect();
            if bound.iter().all(|b| *b) {
                break;
            }
            let now = Instant::now();
            if first_seen.is_none() && (bound.iter().any(|b| *b) || now > client_started + Duration::from_secs(15)) {
                first_seen = Some(now);
            }
            if first_seen.is_some_and(|t| now > t + OPEN_GRACE) {
                let up: Vec<String> = listens.iter().zip(&bound).filter(|(_, b)| **b).map(|(l, _)| l.text()).collect();
                for (i, (l, b)) in listens.iter().zip(&bound).enumerate() {
                    if !*b {
                        never_opened.push((
                            i,
                            format!(
                                "nothing listens on {} (remote {i}, `{}`) {} ms after the client was started, although the client is running and has opened {}",
                                l.text(),
                                remotes[i],
                                client_started.elapsed().as_millis(),
                                if up.is_empty() { "none of its entry points".to_string() } else { up.join(", ") }
                            ),
                        ));
                    }
                }
                break;
            }
            tokio::time::sleep(Duration::from_millis(10)).await;
        }
        Ok(Arc::new(World {
            id: base.id,
            slots: base.slots,
            unexpected_target_conns: base.unexpected,
            tcp_ports,
            uds_paths,
            refuse_tcp_port: 0,
            refuse_uds_path: base.dir.join("absent-refuse.sock"),
            closed_port: base.closed_port,
            socks_port,
            http_port,
            udp_targets: base.udp_targets,
            udp_remote_ports,
            tcp_hosts,
            socks_host,
            http_host,
            udp_remote_hosts,
            specs: remotes,
            never_opened,
            hr,
            client_started,
            client_result,
            dir: base.dir,
            _closed: base.closed,
        }))
    }

    /// Where a local UDP client sends to reach the UDP remote of target `t`.
    pub fn udp_remote_addr(&self, t: usize) -> SocketAddr {
        SocketAddr::new(self.udp_remote_hosts[t], self.udp_remote_ports[t])
    }

    /// Where a local UDP client of the scenario binds: the loopback address of the family it sends to.
    pub fn udp_client_bind(&self, socks: bool, targets: &[usize]) -> &'static str {
        let to = if socks { self.socks_host } else { targets.first().map_or(self.socks_host, |t| self.udp_remote_hosts[*t]) };
        if to.is_ipv6() { "[::1]:0" } else { "127.0.0.1:0" }
    }

    /// Wait until every listener of the client is bound and the tunnel carries one byte.
    async fn wait_ready(&self) -> Result<(), String> {
        let deadline = Instant::now() + Duration::from_secs(15);
        loop {
            if let Some(r) = self.client_result.lock().unwrap().clone() {
                return Err(format!("client ended during start-up: {r}"));
            }
            let mut all = true;
            for p in self.tcp_ports.iter().chain([&self.refuse_tcp_port, &self.socks_port, &self.http_port]) {
                if std::net::TcpListener::bind(("127.0.0.1", *p)).is_ok() {
                    all = false;
                }
            }
            for p in &self.udp_remote_ports {
                if std::net::UdpSocket::bind(("127.0.0.1", *p)).is_ok() {
                    all = false;
                }
            }
            for p in self.uds_paths.iter().chain([&self.refuse_uds_path]) {
                if !p.exists() {
                    all = false;
                }
            }
            if all {
                break;
            }
            if Instant::now() > deadline {
                return Err("client listeners not bound after 15 s".into());
            }
            tokio::time::sleep(Duration::from_millis(10)).await;
        }
        // one byte through the tunnel (waits for the WebSocket connection)
        let (tx, rx) = oneshot::channel();
        self.slots[0].queue.lock().unwrap().push_back(TargetJob {
            script: Script { role: Role::Echo, send: vec![], chunk: Chunk::Whole, read_delay_ms: 0, gate: None, rcvbuf: None },
            done: tx,
        });
        let s = TcpStream::connect(("127.0.0.1", self.tcp_ports[0])).await.map_err(|e| format!("warm-up connect: {e}"))?;
        let sc = Script { role: Role::Normal { after_peer_eof: false, shutdown: true }, send: vec![0x42], chunk: Chunk::Whole, read_delay_ms: 0, gate: None, rcvbuf: None };
        let obs = tokio::time::timeout(Duration::from_secs(25), run_side(Box::new(s), &sc)).await.map_err(|_| "warm-up echo timed out".to_string())?;
        let _ = tokio::time::timeout(Duration::from_secs(5), rx).await;
        if obs.received != [0x42] {
            return Err(format!("warm-up echo failed: {obs:?}"));
        }
        Ok(())
    }

    /// The real client's two UDP maps, read through the public `Debug` implementation of
    /// `HandlerResources`: (id, peer, our, socks5) and ((peer, our), id), both sorted.
    pub fn maps_snapshot(&self) -> Result<MapsSnapshot, String> {
        parse_maps(&format!("{:?}", self.hr))
    }
}

impl Drop for World {
    fn drop(&mut self) {
        let _ = std::fs::remove_dir_all(&self.dir);
    }
}

#[derive(Clone, Debug, PartialEq, Eq)]
pub struct MapsSnapshot {
    pub ids: Vec<(u32, SocketAddr, SocketAddr, bool)>,
    pub addrs: Vec<((SocketAddr, SocketAddr), u32)>,
}

fn section<'a>(s: &'a str, name: &str) -> Result<&'a str, String> {
    let start = s.find(name).ok_or_else(|| format!("no `{name}` in the Debug output"))? + name.len();
    let rest = &s[start..];
    if !rest.starts_with('{') {
        return Err(format!("`{name}` is not followed by a map"));
    }
    let mut depth = 0;
    for (i, c) in rest.char_indices() {
        match c {
            '{' => depth += 1,
            '}' => {
                depth -= 1;
                if depth == 0 {
                    return Ok(&rest[1..i]);
                }
            }
            _ => {}
        }
    }
    Err(format!("unbalanced braces after `{name}`"))
}

pub fn parse_maps(dbg: &str) -> Result<MapsSnapshot, String> {
    if dbg.contains("<locked>") {
        return Err("maps locked".into());
    }
    let idm = section(dbg, "client_id_map: ")?;
    let adm = section(dbg, "client_addr_map: ")?;
    let mut ids = vec![];
    // "<id>: ClientIdMapEntry { peer_addr: A, our_addr: B, socket: ..., socks5: b, expires: ... }"
    let mut rest = idm;
    while let Some(p) = rest.find(": ClientIdMapEntry {") {
        let id_txt = rest[..p].rsplit([' ', ',', '{']).next().unwrap_or("").trim();
        let id: u32 = id_txt.parse().map_err(|_| format!("bad id `{id_txt}`"))?;
        let body = &rest[p..];
        let field = |name: &str| -> Result<&str, String> {
            let a = body.find(name).ok_or_else(|| format!("no {name}"))? + name.len();
            let b = body[a..].find([',', ' ']).ok_or("unterminated field")?;
            Ok(&body[a..a + b])
        };
        let peer: SocketAddr = field("peer_addr: ")?.parse().map_err(|e| format!("peer_addr: {e}"))?;
        let our: SocketAddr = field("our_addr: ")?.parse().map_err(|e| format!("our_addr: {e}"))?;
        let s5 = field("socks5: ")? == "true";
        ids.push((id, peer, our, s5));
        let adv = body.find("expires: ").ok_or("no expires")?;
        rest = &body[adv..];
    }
    let mut addrs = vec![];
    // "(A, B): id"
    let mut rest = adm;
    while let Some(p) = rest.find('(') {
        let q = rest[p..].find(')').ok_or("unbalanced ( in addr map")? + p;
        let inner = &rest[p + 1..q];
        let (a, b) = inner.split_once(", ").ok_or("addr pair")?;
        let after = &rest[q + 1..];
        let after = after.strip_prefix(": ").ok_or("addr map value")?;
        let end = after.find([',', ' ', '}']).unwrap_or(after.len());
        let id: u32 = after[..end].parse().map_err(|_| format!("bad id in addr map `{}`", &after[..end]))?;
        addrs.push(((a.parse().map_err(|e| format!("{e}"))?, b.parse().map_err(|e| format!("{e}"))?), id));
        rest = &after[end..];
    }
    ids.sort();
    addrs.sort();
    Ok(MapsSnapshot { ids, addrs })
}

/// The invariant the two maps must satisfy (independent oracle): ids unique and non-zero, the two
/// maps are inverse to each other.
pub fn maps_consistent(m: &MapsSnapshot) -> Result<(), String> {
    for w in m.ids.windows(2) {
        if w[0].0 == w[1].0 {
            return Err(format!("id {:08x} occurs twice", w[0].0));
        }
    }
    for (id, peer, our, _) in &m.ids {
        if *id == 0 {
            return Err(format!("client {peer} got flow id 0, which is the stdio sentinel of send_datagram_reply"));
        }
        match m.addrs.iter().filter(|((p, o), _)| p == peer && o == our).collect::<Vec<_>>().as_slice() {
            [(_, i)] if i == id => {}
            other => return Err(format!("id map entry {id:08x} -> ({peer}, {our}) has address-map entries {other:?}")),
        }
    }
    for ((p, o), id) in &m.addrs {
        if !m.ids.iter().any(|(i, pp, oo, _)| i == id && pp == p && oo == o) {
            return Err(format!("address map ({p}, {o}) -> {id:08x} has no matching id map entry"));
        }
    }
    let mut tuples: Vec<_> = m.ids.iter().map(|(_, p, o, _)| (*p, *o)).collect();
    tuples.sort();
    tuples.dedup();
    if tuples.len() != m.ids.len() {
        return Err("one (peer, our) tuple has two ids".into());
    }
    Ok(())
}
