//! "Many connections open at once": through ONE real client and ONE of its entry points (fixed TCP remote, SOCKS5
//! CONNECT, HTTP CONNECT, Unix socket) N local connections are opened and ALL KEPT OPEN, N from 17 to 300 (the
//! property quantifies over "every number of concurrent local connections"; every other world of this harness
//! holds at most a handful open at the same time).  The target is a listener of this family's own on 127.0.0.1:
//! it must accept N connections.  Then every connection -- the last-opened ones like the first -- carries a short
//! token of its own to the target, which answers with the token and the number of the accepted connection it came
//! in on: first one connection after the other in a random order, then all at the same time with a second token.
//! Then half of the connections are closed by the local client and half by the target (a graceful close: FIN),
//! all at the same time in a random order, and every close must be seen at the other end, which then closes as
//! well, which must be seen by the first.
//!
//! Monitors (no model; a direct connection to the target does all of this):
//!  * `many-open:<entry>:connection-not-served`: a connection got no answer within `io::prompt()` / the target
//!    never accepted it / the entry point's handshake was not answered,
//!  * `many-open:<entry>:wrong-bytes`: an answer that is not exactly the token sent on that connection plus one
//!    target connection number, two local connections answered by one target connection, a target connection that
//!    read anything but the tokens of its one local connection, bytes before an end-of-stream,
//!  * `many-open:<entry>:close-not-propagated`: a close that the other end did not see within `io::prompt()`.
//!
//! Everything but N, the entry point kind and the number of connections opened at the same time (`burst`) follows
//! from `seed` (orders, tokens, who closes), so a scenario line replays anywhere.

use crate::io::{prompt, BoxStream};
use crate::multi::MKind;
use crate::tcp::{handshake, Entry};
use crate::world::{PlanKind, PlanRemote, World};
use pvhf::{Rng, Tier};
use std::net::{IpAddr, Ipv4Addr, SocketAddr};
use std::sync::{Arc, Mutex};
use std::time::{Duration, Instant};
use tokio::io::{AsyncReadExt, AsyncWriteExt};
use tokio::net::{TcpListener, TcpStream, UnixStream};
use tokio::sync::oneshot;

pub const NS: [usize; 7] = [17, 33, 64, 65, 100, 129, 200];
pub const N_MAX: usize = 300;
pub const KINDS: [MKind; 4] = [MKind::Tcp, MKind::Socks, MKind::Http, MKind::Unix];

#[derive(Clone, Debug, PartialEq, Eq)]
pub struct ManyScn {
    pub kind: MKind,
    /// connections open at the same time
    pub n: usize,
    /// how many of them are opened at the same time (1 = one after the other)
    pub burst: usize,
    pub seed: u64,
}

impl ManyScn {
    pub fn line(&self) -> String {
        format!("many entry={} n={} burst={} seed={}", self.kind.text(), self.n, self.burst, self.seed)
    }
    pub fn parse(line: &str) -> Option<Self> {
        let mut it = line.split_whitespace();
        if it.next()? != "many" {
            return None;
        }
        let mut sc = ManyScn { kind: MKind::Tcp, n: 0, burst: 1, seed: 1 };
        for kv in it {
            let (k, v) = kv.split_once('=')?;
            match k {
                "entry" => sc.kind = KINDS.iter().copied().find(|x| x.text() == v)?,
                "n" => sc.n = v.parse().ok()?,
                "burst" => sc.burst = v.parse().ok()?,
                "seed" => sc.seed = v.parse().ok()?,
                _ => return None,
            }
        }
        sc.valid().ok()?;
        Some(sc)
    }
    pub fn valid(&self) -> Result<(), String> {
        if !KINDS.contains(&self.kind) {
            return Err("entry = tcp | socks | http | unix".into());
        }
        if self.n == 0 || self.n > N_MAX || self.burst == 0 || self.burst > self.n {
            return Err(format!("1 <= burst <= n <= {N_MAX}"));
        }
        Ok(())
    }
    fn entry(&self) -> Entry {
        match self.kind {
            MKind::Tcp => Entry::Tcp,
            MKind::Unix => Entry::Uds,
            MKind::Socks => Entry::Socks5V4,
            _ => Entry::HttpV4,
        }
    }
    pub fn n_bucket(&self) -> &'static str {
        match self.n {
            0..=32 => "2..32",
            33..=64 => "33..64",
            65..=128 => "65..128",
            129..=200 => "129..200",
            _ => "201..300",
        }
    }
    pub fn buckets(&self) -> Vec<String> {
        let fam = "many-open";
        vec![
            format!("{fam}/entry/{}", self.kind.long()),
            format!("{fam}/connections-open-at-once/{}", self.n_bucket()),
            format!("{fam}/entry-and-connections/{}/{}", self.kind.long(), self.n_bucket()),
            format!("{fam}/opened/{}", if self.burst == 1 { "one-after-the-other" } else if self.burst == self.n { "all-at-the-same-time" } else { "in-bursts" }),
        ]
    }
}

#[derive(Debug, Default)]
pub struct ManyOutcome {
    pub infra: Option<String>,
    pub spec: String,
    pub warm_up: String,
    /// local connections on which the entry point's handshake succeeded / connections the target accepted for them
    pub opened: usize,
    pub accepted: usize,
    /// connections that carried both tokens to the target and back
    pub served: usize,
    pub closed_by_client: usize,
    pub closed_by_target: usize,
    pub closes_seen: usize,
    /// a close that arrived at the target as a read error instead of an end-of-stream (noted, not judged)
    pub target_read_errors: usize,
    pub open_ms: u64,
    pub talk_ms: u64,
    pub close_ms: u64,
    pub slowest_answer_ms: u64,
    pub ended: Option<String>,
    /// (key suffix, description)
    pub bad: Vec<(String, String)>,
}

// ---------------------------------------------------------------------------------------------
// The target
// ---------------------------------------------------------------------------------------------

#[derive(Debug, Default)]
struct TState {
    lines: Vec<String>,
    partial: Vec<u8>,
    saw_eof: bool,
    read_err: Option<String>,
    write_err: Option<String>,
}

struct TConn {
    st: Arc<Mutex<TState>>,
    close: Option<oneshot::Sender<()>>,
}

type Conns = Arc<Mutex<Vec<TConn>>>;

/// One accepted connection: every line is answered with `<line>@<number of this connection>`; on the command
/// `close` it half-closes and reads on to the end-of-stream; on an end-of-stream it closes.
async fn target_conn(mut s: TcpStream, j: usize, st: Arc<Mutex<TState>>, mut close: oneshot::Receiver<()>) {
    let mut buf = [0u8; 4096];
    let mut pending: Vec<u8> = vec![];
    let mut closed_by_us = false;
    loop {
        tokio::select! {
            r = s.read(&mut buf) => match r {
                Ok(0) => {
                    st.lock().unwrap().saw_eof = true;
                    break;
                }
                Ok(n) => {
                    pending.extend_from_slice(&buf[..n]);
                    while let Some(p) = pending.iter().position(|b| *b == b'\n') {
                        let line: Vec<u8> = pending.drain(..=p).collect();
                        let text = String::from_utf8_lossy(&line[..line.len() - 1]).to_string();
                        st.lock().unwrap().lines.push(text.clone());
                        if let Err(e) = s.write_all(format!("{text}@{j}\n").as_bytes()).await {
                            st.lock().unwrap().write_err = Some(e.to_string());
                        }
                    }
                    st.lock().unwrap().partial = pending.clone();
                }
                Err(e) => {
                    st.lock().unwrap().read_err = Some(e.to_string());
                    break;
                }
            },
            _ = &mut close, if !closed_by_us => {
                closed_by_us = true;
                let _ = s.shutdown().await;
            }
        }
    }
    if !closed_by_us {
        let _ = s.shutdown().await;
    }
}

async fn target_accept_loop(l: TcpListener, conns: Conns) {
    loop {
        let Ok((s, _)) = l.accept().await else {
            tokio::time::sleep(Duration::from_millis(5)).await;
            continue;
        };
        let _ = s.set_nodelay(true);
        let st = Arc::new(Mutex::new(TState::default()));
        let (tx, rx) = oneshot::channel();
        let j = {
            let mut g = conns.lock().unwrap();
            g.push(TConn { st: st.clone(), close: Some(tx) });
            g.len() - 1
        };
        tokio::spawn(target_conn(s, j, st, rx));
    }
}

// ---------------------------------------------------------------------------------------------
// The local clients
// ---------------------------------------------------------------------------------------------

async fn open_one(w: Arc<World>, sc: ManyScn, target: SocketAddr, limit: Duration) -> Result<BoxStream, String> {
    let r = tokio::time::timeout(limit, async {
        let mut s: BoxStream = match sc.kind {
            MKind::Unix => Box::new(UnixStream::connect(&w.uds_paths[0]).await.map_err(|e| format!("connect to the unix socket: {e}"))?),
            k => {
                let at = match k {
                    MKind::Tcp => (w.tcp_hosts[0], w.tcp_ports[0]),
                    MKind::Socks => (w.socks_host, w.socks_port),
                    _ => (w.http_host, w.http_port),
                };
                let t = TcpStream::connect(at).await.map_err(|e| format!("connect to the entry point: {e}"))?;
                let _ = t.set_nodelay(true);
                Box::new(t)
            }
        };
        handshake(sc.entry(), &mut s, [127, 0, 0, 1], target.port(), &[], false, &[]).await.map_err(|e| format!("handshake: {e}"))?;
        Ok::<BoxStream, String>(s)
    })
    .await;
    match r {
        Ok(x) => x,
        Err(_) => Err(format!("HANG: connecting to the entry point and its handshake took longer than {} ms", limit.as_millis())),
    }
}

#[derive(Debug)]
enum TalkErr {
    /// nothing (or not a whole line) within the limit
    Silent(String),
    /// end-of-stream or an error instead of an answer
    Ended(String),
}

/// Write `token\n`, read one line.
async fn exchange(s: &mut BoxStream, token: &str, limit: Duration) -> Result<(String, u64), TalkErr> {
    let t0 = Instant::now();
    let mut got: Vec<u8> = vec![];
    let r = tokio::time::timeout(limit, async {
        s.write_all(format!("{token}\n").as_bytes()).await.map_err(|e| TalkErr::Ended(format!("writing its message failed: {e}")))?;
        let mut b = [0u8; 256];
        loop {
            match s.read(&mut b).await {
                Ok(0) => return Err(TalkErr::Ended(format!("end-of-stream instead of an answer (after {} byte(s))", got.len()))),
                Ok(n) => {
                    got.extend_from_slice(&b[..n]);
                    if got.ends_with(b"\n") {
                        return Ok(());
                    }
                }
                Err(e) => return Err(TalkErr::Ended(format!("reading the answer failed: {e}"))),
            }
        }
    })
    .await;
    match r {
        Ok(Ok(())) => Ok((String::from_utf8_lossy(&got[..got.len() - 1]).to_string(), t0.elapsed().as_millis() as u64)),
        Ok(Err(e)) => Err(e),
        Err(_) => Err(TalkErr::Silent(format!("no answer within {} ms ({} byte(s) came back)", limit.as_millis(), got.len()))),
    }
}

/// Read to the end-of-stream: `Ok(bytes before it)`.
async fn read_eof(s: &mut BoxStream, limit: Duration) -> Result<Vec<u8>, String> {
    let mut got = vec![];
    let r = tokio::time::timeout(limit, async {
        let mut b = [0u8; 256];
        loop {
            match s.read(&mut b).await {
                Ok(0) => return Ok(()),
                Ok(n) => got.extend_from_slice(&b[..n]),
                Err(e) => return Err(format!("read error {e}")),
            }
        }
    })
    .await;
    match r {
        Ok(Ok(())) => Ok(got),
        Ok(Err(e)) => Err(e),
        Err(_) => Err(format!("no end-of-stream within {} ms", limit.as_millis())),
    }
}

async fn target_saw_close(st: &Arc<Mutex<TState>>, limit: Duration) -> Result<bool, ()> {
    let deadline = Instant::now() + limit;
    loop {
        {
            let g = st.lock().unwrap();
            if g.saw_eof {
                return Ok(false);
            }
            if g.read_err.is_some() {
                return Ok(true);
            }
        }
        if Instant::now() > deadline {
            return Err(());
        }
        tokio::time::sleep(Duration::from_millis(2)).await;
    }
}

fn shuffle<T>(r: &mut Rng, v: &mut [T]) {
    for i in (1..v.len()).rev() {
        let j = r.below(i as u64 + 1) as usize;
        v.swap(i, j);
    }
}

/// The soft limit on open file descriptors, raised to the hard limit once (Linux).
pub fn fd_limit() -> u64 {
    #[cfg(target_os = "linux")]
    {
        #[repr(C)]
        struct RLimit {
            cur: u64,
            max: u64,
        }
        unsafe extern "C" {
            fn getrlimit(resource: i32, rlim: *mut RLimit) -> i32;
            fn setrlimit(resource: i32, rlim: *const RLimit) -> i32;
        }
        const RLIMIT_NOFILE: i32 = 7;
        let mut l = RLimit { cur: 0, max: 0 };
        // SAFETY: `l` is a valid `struct rlimit` (two 64-bit values on 64-bit Linux) for both calls
        unsafe {
            if getrlimit(RLIMIT_NOFILE, &raw mut l) != 0 {
                return 1024;
            }
            if l.cur < l.max {
                let want = RLimit { cur: l.max.min(65_536).max(l.cur), max: l.max };
                if setrlimit(RLIMIT_NOFILE, &raw const want) == 0 {
                    return want.cur;
                }
            }
        }
        l.cur
    }
    #[cfg(not(target_os = "linux"))]
    {
        1024
    }
}

fn short_list(v: &[usize]) -> String {
    let mut s = v.iter().take(12).map(usize::to_string).collect::<Vec<_>>().join(", ");
    if v.len() > 12 {
        s.push_str(&format!(", .. ({} in all)", v.len()));
    }
    s
}

pub async fn run_many(sc: &ManyScn) -> ManyOutcome {
    let mut out = ManyOutcome::default();
    if let Err(e) = sc.valid() {
        out.infra = Some(format!("not a scenario of this family: {e}"));
        return out;
    }
    // local socket, the client's socket, the server's socket, the target's socket per connection, in one process
    let need = 4 * sc.n as u64 + 256;
    if fd_limit() < need {
        out.infra = Some(format!("the limit on open files ({}) is too small for {} connections held open in one process", fd_limit(), sc.n));
        return out;
    }
    let limit = prompt();
    let n = sc.n;
    let mut rng = Rng::new(sc.seed);
    // the target
    let l = match TcpListener::bind("127.0.0.1:0").await {
        Ok(l) => l,
        Err(e) => {
            out.infra = Some(format!("bind target: {e}"));
            return out;
        }
    };
    let target = l.local_addr().unwrap();
    let conns: Conns = Arc::new(Mutex::new(vec![]));
    tokio::spawn(target_accept_loop(l, conns.clone()));
    // one client with the one remote
    let plan = [PlanRemote {
        kind: match sc.kind {
            MKind::Tcp => PlanKind::Tcp,
            MKind::Unix => PlanKind::Unix,
            MKind::Socks => PlanKind::Socks,
            _ => PlanKind::Http,
        },
        host_text: "127.0.0.1",
        reach: IpAddr::V4(Ipv4Addr::LOCALHOST),
        group: 0,
    }];
    let (mut world, mut last) = (None, String::new());
    for _ in 0..4 {
        match World::start_multi_to(&plan, Some(target)).await {
            Ok(w) => {
                world = Some(w);
                break;
            }
            Err(e) => last = e,
        }
    }
    let Some(w) = world else {
        out.infra = Some(format!("world did not start: {last}"));
        return out;
    };
    if let Some((_, d)) = w.never_opened.first() {
        out.infra = Some(format!("the entry point did not open: {d}"));
        return out;
    }
    out.spec = w.specs.join(" ");
    // warm-up: one connection, one line, closed again (waits for the client's connection to the server)
    {
        let deadline = Instant::now() + Duration::from_secs(25);
        let mut ok = false;
        let mut why = String::new();
        while Instant::now() < deadline && !ok {
            match open_one(w.clone(), sc.clone(), target, limit).await {
                Ok(mut s) => match exchange(&mut s, "warm-up", limit).await {
                    Ok((a, _)) if a.starts_with("warm-up@") => {
                        let _ = s.shutdown().await;
                        let _ = read_eof(&mut s, limit).await;
                        ok = true;
                    }
                    Ok((a, _)) => why = format!("answer `{a}`"),
                    Err(e) => why = format!("{e:?}"),
                },
                Err(e) => why = e,
            }
            if !ok {
                tokio::time::sleep(Duration::from_millis(100)).await;
            }
        }
        if !ok {
            out.infra = Some(format!("the tunnel did not carry one line in 25 s: {why}"));
            return out;
        }
        out.warm_up = format!("one line echoed {} ms after the client was started", w.client_started.elapsed().as_millis());
        tokio::time::sleep(Duration::from_millis(30)).await;
    }
    let baseline = conns.lock().unwrap().len();
    let who = format!("ONE client with the remote `{}`, {n} local connections through it held open at the same time", out.spec);

    // --- open ---------------------------------------------------------------------------------
    let t_open = Instant::now();
    let mut streams: Vec<Option<BoxStream>> = (0..n).map(|_| None).collect();
    let mut not_served: Vec<(usize, String)> = vec![];
    let mut wrong: Vec<(usize, String)> = vec![];
    let mut at = 0;
    while at < n {
        let hi = (at + sc.burst).min(n);
        let hs: Vec<_> = (at..hi).map(|k| (k, tokio::spawn(open_one(w.clone(), sc.clone(), target, limit)))).collect();
        for (k, h) in hs {
            match h.await {
                Ok(Ok(s)) => streams[k] = Some(s),
                Ok(Err(e)) => not_served.push((k, format!("connection {k} (opened while {at} others were open): {e}"))),
                Err(e) => {
                    out.infra = Some(format!("open task: {e}"));
                    return out;
                }
            }
        }
        at = hi;
    }
    out.opened = streams.iter().filter(|s| s.is_some()).count();
    // the target accepts one connection per local connection (no byte has been sent yet)
    let deadline = Instant::now() + limit;
    loop {
        out.accepted = conns.lock().unwrap().len() - baseline;
        if out.accepted >= out.opened || Instant::now() > deadline {
            break;
        }
        tokio::time::sleep(Duration::from_millis(2)).await;
    }
    out.open_ms = t_open.elapsed().as_millis() as u64;
    let accepted_after_open = out.accepted;

    // --- talk ---------------------------------------------------------------------------------
    let t_talk = Instant::now();
    let token = |k: usize, phase: usize, salt: u64| format!("conn-{k}-of-{n}-message-{phase}-{salt:012x}");
    let salts: Vec<[u64; 2]> = (0..n).map(|_| [rng.next() & 0xffff_ffff_ffff, rng.next() & 0xffff_ffff_ffff]).collect();
    // (answer, ms) per phase
    let mut answers: Vec<[Option<String>; 2]> = (0..n).map(|_| [None, None]).collect();
    let mut failed: Vec<bool> = streams.iter().map(|s| s.is_none()).collect();
    let mut order: Vec<usize> = (0..n).filter(|k| !failed[*k]).collect();
    shuffle(&mut rng, &mut order);
    // the last-opened connections early in the order as well: swap one of the last four to the front
    if let Some(p) = order.iter().position(|k| *k + 4 >= n) {
        order.swap(0, p);
    }
    let describe = |k: usize, phase: usize, e: &TalkErr, conns: &Conns, tok: &str| {
        let (seen, acc) = {
            let g = conns.lock().unwrap();
            (g.iter().any(|c| { let s = c.st.lock().unwrap(); s.lines.iter().any(|l| l == tok) || String::from_utf8_lossy(&s.partial).contains(tok) }), g.len() - baseline)
        };
        let what = match e {
            TalkErr::Silent(d) | TalkErr::Ended(d) => d.clone(),
        };
        format!(
            "connection {k} (opened while {k} others were open and kept open): its message number {} ({} bytes) got {what}; the target has accepted {acc} connection(s) for the {n} local ones and {}",
            phase + 1,
            tok.len() + 1,
            if seen { "did read this message" } else { "never read this message on any of them" }
        )
    };
    // phase 1: one connection after the other in a random order; after the first failure the rest at the same time
    let mut rest: Vec<usize> = vec![];
    for (i, k) in order.iter().copied().enumerate() {
        let tok = token(k, 0, salts[k][0]);
        let s = streams[k].as_mut().expect("open stream");
        match exchange(s, &tok, limit).await {
            Ok((a, ms)) => {
                out.slowest_answer_ms = out.slowest_answer_ms.max(ms);
                answers[k][0] = Some(a);
            }
            Err(e) => {
                failed[k] = true;
                not_served.push((k, describe(k, 0, &e, &conns, &tok)));
                rest = order[i + 1..].to_vec();
                break;
            }
        }
    }
    // phase 1 for the rest and phase 2 for all: at the same time
    for phase in 0..2 {
        let mut ks: Vec<usize> = if phase == 0 { rest.clone() } else { (0..n).filter(|k| !failed[*k]).collect() };
        shuffle(&mut rng, &mut ks);
        let mut hs = vec![];
        for k in ks {
            let mut s = streams[k].take().expect("open stream");
            let tok = token(k, phase, salts[k][phase]);
            hs.push((k, tok.clone(), tokio::spawn(async move {
                let r = exchange(&mut s, &tok, limit).await;
                (s, r)
            })));
        }
        for (k, tok, h) in hs {
            match h.await {
                Ok((s, r)) => {
                    streams[k] = Some(s);
                    match r {
                        Ok((a, ms)) => {
                            out.slowest_answer_ms = out.slowest_answer_ms.max(ms);
                            answers[k][phase] = Some(a);
                        }
                        Err(e) => {
                            failed[k] = true;
                            not_served.push((k, describe(k, phase, &e, &conns, &tok)));
                        }
                    }
                }
                Err(e) => {
                    out.infra = Some(format!("talk task: {e}"));
                    return out;
                }
            }
        }
    }
    out.talk_ms = t_talk.elapsed().as_millis() as u64;
    // every answer is the token of that connection and ONE target connection number of its own
    let mut j_of: Vec<Option<usize>> = vec![None; n];
    for k in 0..n {
        for phase in 0..2 {
            let Some(a) = &answers[k][phase] else { continue };
            let tok = token(k, phase, salts[k][phase]);
            let j = a.strip_prefix(&tok).and_then(|r| r.strip_prefix('@')).and_then(|j| j.parse::<usize>().ok());
            match j {
                None => {
                    failed[k] = true;
                    wrong.push((k, format!("connection {k}: message number {} `{tok}` was answered with `{}` (a direct connection to this target answers `{tok}@<number of the connection>`)", phase + 1, a.chars().take(120).collect::<String>())));
                }
                Some(j) => match j_of[k] {
                    None => j_of[k] = Some(j),
                    Some(j0) if j0 != j => {
                        failed[k] = true;
                        wrong.push((k, format!("connection {k}: its first message was answered by the target's connection {j0}, its second by connection {j}")));
                    }
                    _ => {}
                },
            }
        }
    }
    for k in 0..n {
        if let Some(j) = j_of[k] {
            if let Some(k0) = (0..k).find(|k0| j_of[*k0] == Some(j)) {
                failed[k] = true;
                wrong.push((k, format!("connections {k0} and {k} were both answered by the target's connection {j}")));
            }
        }
    }
    {
        // every line a target connection read is one of the two tokens of its one local connection
        let g = conns.lock().unwrap();
        for (j, c) in g.iter().enumerate().skip(baseline) {
            let s = c.st.lock().unwrap();
            let named = s.lines.first().and_then(|l| l.strip_prefix("conn-")).and_then(|r| r.split('-').next()).and_then(|x| x.parse::<usize>().ok()).filter(|k| *k < n);
            let owner = (0..n).find(|k| j_of[*k] == Some(j)).or(named);
            let strange: Vec<&String> = match owner {
                None => s.lines.iter().collect(),
                Some(k) => s.lines.iter().filter(|l| (0..2).all(|p| token(k, p, salts[k][p]) != **l)).collect(),
            };
            if !strange.is_empty() || s.lines.len() > 2 {
                wrong.push((owner.unwrap_or(n), format!("the target's connection {j} (the one of local connection {owner:?}) read the lines {:?}; a direct connection delivers it the two messages of that one local connection and nothing else", s.lines)));
            }
        }
    }
    out.served = (0..n).filter(|k| !failed[*k] && answers[*k][0].is_some() && answers[*k][1].is_some() && j_of[*k].is_some()).count();
    if accepted_after_open < out.opened && not_served.is_empty() {
        // every message was answered in the end, but the target had not accepted every connection while they were only open
        not_served.push((n, format!("{} ms after the last of {} local connections was opened the target had accepted only {accepted_after_open} connections", limit.as_millis(), out.opened)));
    }

    // --- close --------------------------------------------------------------------------------
    let t_close = Instant::now();
    let mut closers: Vec<usize> = (0..n).filter(|k| !failed[*k] && j_of[*k].is_some() && streams[*k].is_some()).collect();
    shuffle(&mut rng, &mut closers);
    let mut not_closed: Vec<(usize, String)> = vec![];
    let mut hs = vec![];
    for (i, k) in closers.iter().copied().enumerate() {
        let by_client = i % 2 == 0;
        let j = j_of[k].expect("target connection");
        let (st, close_tx) = {
            let mut g = conns.lock().unwrap();
            (g[j].st.clone(), g[j].close.take())
        };
        let mut s = streams[k].take().expect("open stream");
        hs.push((k, by_client, tokio::spawn(async move {
            // (close not seen, bytes before an end-of-stream, the target read an error instead of an end-of-stream)
            let mut bad: Option<String> = None;
            let mut junk: Option<String> = None;
            let mut reset = false;
            if by_client {
                // the target closes only in answer to our close: its handle stays alive (unused) until this task ends
                let _keep = close_tx;
                if let Err(e) = tokio::time::timeout(limit, s.shutdown()).await.map_err(|_| "HANG".to_string()).and_then(|r| r.map_err(|e| e.to_string())) {
                    bad = Some(format!("the local client could not close its sending direction: {e}"));
                }
                match target_saw_close(&st, limit).await {
                    Ok(r) => reset = r,
                    Err(()) => bad = Some(format!("the local client closed connection {k}; the target's connection {j} read no end-of-stream within {} ms", limit.as_millis())),
                }
                if bad.is_none() {
                    match read_eof(&mut s, limit).await {
                        Ok(b) if b.is_empty() => {}
                        Ok(b) => junk = Some(format!("connection {k}: {} byte(s) arrived before the end-of-stream although the target had sent nothing more", b.len())),
                        Err(e) => bad = Some(format!("the local client closed connection {k}, the target saw it and closed as well; the local client then got {e}")),
                    }
                }
            } else {
                match close_tx {
                    Some(tx) => {
                        let _ = tx.send(());
                    }
                    None => bad = Some("harness: no close handle".into()),
                }
                match read_eof(&mut s, limit).await {
                    Ok(b) if b.is_empty() => {}
                    Ok(b) => junk = Some(format!("connection {k}: {} byte(s) arrived before the end-of-stream although the target had sent nothing more", b.len())),
                    Err(e) => bad = Some(format!("the target closed its connection {j} (local connection {k}); the local client got {e}")),
                }
                if bad.is_none() {
                    let _ = tokio::time::timeout(limit, s.shutdown()).await;
                    drop(s);
                    match target_saw_close(&st, limit).await {
                        Ok(r) => reset = r,
                        Err(()) => bad = Some(format!("the target closed its connection {j}, the local client saw it and closed connection {k} as well; the target read no end-of-stream within {} ms", limit.as_millis())),
                    }
                }
            }
            (bad, junk, reset)
        })));
    }
    for (k, by_client, h) in hs {
        match h.await {
            Ok((bad, junk, reset)) => {
                if by_client {
                    out.closed_by_client += 1;
                } else {
                    out.closed_by_target += 1;
                }
                out.target_read_errors += usize::from(reset);
                match bad {
                    Some(d) => not_closed.push((k, d)),
                    None => out.closes_seen += 1,
                }
                if let Some(d) = junk {
                    wrong.push((k, d));
                }
            }
            Err(e) => {
                out.infra = Some(format!("close task: {e}"));
                return out;
            }
        }
    }
    out.close_ms = t_close.elapsed().as_millis() as u64;
    out.accepted = conns.lock().unwrap().len() - baseline;
    out.ended = w.client_result.lock().unwrap().clone();
    drop(streams);

    // --- verdicts -----------------------------------------------------------------------------
    let mut push = |key: &str, mut v: Vec<(usize, String)>, what: &str| {
        if v.is_empty() {
            return;
        }
        v.sort_by_key(|(k, _)| *k);
        let ks: Vec<usize> = v.iter().map(|(k, _)| *k).filter(|k| *k < n).collect();
        out.bad.push((
            key.to_string(),
            format!(
                "{who} (opened {}; numbered 0 .. {} in the order they were opened): {} connection(s) {what}{}; the first: {}",
                if sc.burst == 1 { "one after the other".to_string() } else { format!("{} at a time", sc.burst) },
                n - 1,
                v.len(),
                if ks.is_empty() { String::new() } else { format!(" (numbers {})", short_list(&ks)) },
                v[0].1
            ),
        ));
    };
    push("connection-not-served", not_served, "were not served like a direct connection to the target (which answers every line at once)");
    push("wrong-bytes", wrong, "carried bytes that are not their own");
    push("close-not-propagated", not_closed, "were closed at one end without the other end seeing it");
    if let Some(e) = &out.ended {
        out.bad.push(("client-ended".into(), format!("{who}: client_main_inner returned {e} while its connections were open")));
    }
    out
}

pub fn judge_many(sc: &ManyScn, o: &ManyOutcome) -> Vec<(String, String)> {
    o.bad.iter().map(|(k, d)| (format!("many-open:{}:{k}", sc.kind.long()), format!("{d}  [{}]", sc.line()))).collect()
}

pub fn nontrivial(o: &ManyOutcome) -> bool {
    o.served > 0
}

// ---------------------------------------------------------------------------------------------
// Generation
// ---------------------------------------------------------------------------------------------

fn scn(r: &mut Rng, kind: MKind, n: usize) -> ManyScn {
    let burst = match r.below(3) {
        0 => 1,
        1 => 8.min(n),
        _ => n,
    };
    ManyScn { kind, n, burst, seed: r.next() % 1_000_000_000 }
}

/// quick: four scenarios, one per entry point kind (which kind gets which N by the dice): 65, one of 129 / 200, 100,
/// one of 17 / 33 / 64.  thorough: every kind with every N of `NS`, 300 once per kind, and a dozen N by the dice.
pub fn many_pass(r: &mut Rng, tier: Tier) -> Vec<ManyScn> {
    let mut kinds = KINDS.to_vec();
    shuffle(r, &mut kinds);
    let mut out = vec![];
    match tier {
        Tier::Quick => {
            let ns = [65, *r.pick(&[129usize, 200]), 100, *r.pick(&[17usize, 33, 64])];
            for (k, n) in kinds.into_iter().zip(ns) {
                out.push(scn(r, k, n));
            }
        }
        Tier::Thorough => {
            for k in kinds.iter().copied() {
                for n in NS {
                    out.push(scn(r, k, n));
                }
                out.push(scn(r, k, N_MAX));
            }
            for _ in 0..12 {
                let k = *r.pick(&KINDS);
                let n = r.range(2, N_MAX as u64) as usize;
                out.push(scn(r, k, n));
            }
        }
    }
    for s in &out {
        if let Err(e) = s.valid() {
            panic!("e2e: generated an invalid many-connections scenario ({e}): {}", s.line());
        }
    }
    out
}
