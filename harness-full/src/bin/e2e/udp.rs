//! UDP scenarios: several local UDP clients, through the UDP remotes or through SOCKS5 UDP
//! associations, to echoing targets that tag their replies.

use crate::io::step;
use crate::world::{maps_consistent, World};
use std::collections::HashMap;
use std::net::{IpAddr, Ipv6Addr, SocketAddr};
use std::sync::Arc;
use std::sync::atomic::Ordering;
use std::time::{Duration, Instant};
use tokio::io::{AsyncReadExt, AsyncWriteExt};
use tokio::net::{TcpStream, UdpSocket};

const REPLY_WAIT: Duration = Duration::from_millis(4000);

#[derive(Clone, Debug, PartialEq, Eq)]
pub struct UdpScn {
    pub socks: bool,
    pub clients: usize,
    /// indices into the world's UDP targets (0, 1: IPv4; 2: IPv6)
    pub targets: Vec<usize>,
    pub sizes: Vec<usize>,
    pub replies: usize,
    /// SOCKS5 only: address form used in the request header (0 = IP literal, 1 = domain "localhost", IPv4 targets only)
    pub domain: bool,
    /// idle time (ms) before one more exchange on the same sockets (0 = none)
    pub idle_ms: u64,
    /// one-way traffic (the target stays silent) for longer than the idle timeout, then the target answers
    pub oneway: Option<OneWay>,
    /// SOCKS5 only: a datagram that is not a well-formed RFC 1928 UDP request is sent to the relay address of client 0
    pub junk: Option<Junk>,
    /// long flow: the exchanges of `sizes` are repeated this many times on the same sockets (1 = once)
    pub rounds: usize,
    /// SOCKS5 only: ONE association (one control connection, one relay address) used by `clients` local sockets
    /// of the same host (see `SharedOrder`); `idle_ms`, `oneway`, `junk`, `rounds` do not apply
    pub shared: Option<SharedOrder>,
    pub seed: u64,
}

/// Several local sockets on one SOCKS5 UDP association: how the `clients` sockets (same IP, different source
/// ports, all sending to the one relay address) take their turns.  In every case ALL sockets listen all the
/// time: a reply at a socket that did not send the request is seen.
#[derive(Clone, Copy, Debug, PartialEq, Eq)]
pub enum SharedOrder {
    /// every exchange of `sizes`: all sockets send to all targets at the same time
    Concurrent,
    /// socket 0 has all its exchanges alone, then socket 1, ...; then one exchange of all sockets at once
    Sequential,
    /// the exchanges of `sizes` by all sockets at once; then socket 0 is CLOSED and a new local socket (new
    /// source port) takes its place on the same association, the control connection untouched; then the
    /// exchanges of `sizes` again (`clients` + 1 sockets over the life of the association)
    Renew,
}

pub const SHARED_ORDERS: [SharedOrder; 3] = [SharedOrder::Concurrent, SharedOrder::Sequential, SharedOrder::Renew];

impl SharedOrder {
    pub fn text(self) -> &'static str {
        match self {
            SharedOrder::Concurrent => "concurrent",
            SharedOrder::Sequential => "sequential",
            SharedOrder::Renew => "renew",
        }
    }
}

/// What is sent to the relay socket instead of a well-formed request (RFC 1928 section 7: RSV(2) = 0, FRAG,
/// ATYP, DST.ADDR, DST.PORT, DATA).  A relay drops what it cannot or will not relay; it goes on relaying.
#[derive(Clone, Copy, Debug, PartialEq, Eq)]
pub enum JunkKind {
    /// a datagram of 0 bytes
    Empty,
    /// 1 byte / 3 bytes: shorter than RSV RSV FRAG ATYP
    Short1,
    Short3,
    /// RSV = 0x0001, otherwise a well-formed request to target 0
    Rsv,
    /// ATYP = 9
    Atyp9,
    /// the header ends inside the IPv4 / IPv6 address, inside the port
    CutV4,
    CutV6,
    CutPort,
    /// ATYP = 3 with a length octet of 200 and three more bytes
    DomLen,
    /// FRAG = 1, otherwise a well-formed request to target 0 (a relay without reassembly MUST drop it)
    Frag,
}

pub const JUNK_KINDS: [JunkKind; 10] = [
    JunkKind::Empty, JunkKind::Short1, JunkKind::Short3, JunkKind::Rsv, JunkKind::Atyp9, JunkKind::CutV4, JunkKind::CutV6, JunkKind::CutPort, JunkKind::DomLen, JunkKind::Frag,
];

impl JunkKind {
    pub fn text(self) -> &'static str {
        match self {
            JunkKind::Empty => "empty",
            JunkKind::Short1 => "short1",
            JunkKind::Short3 => "short3",
            JunkKind::Rsv => "rsv",
            JunkKind::Atyp9 => "atyp9",
            JunkKind::CutV4 => "cut-v4",
            JunkKind::CutV6 => "cut-v6",
            JunkKind::CutPort => "cut-port",
            JunkKind::DomLen => "domlen",
            JunkKind::Frag => "frag",
        }
    }
    fn describe(self) -> &'static str {
        match self {
            JunkKind::Empty => "an empty datagram",
            JunkKind::Short1 => "a 1-byte datagram",
            JunkKind::Short3 => "a 3-byte datagram (shorter than RSV RSV FRAG ATYP)",
            JunkKind::Rsv => "a request with RSV = 0001",
            JunkKind::Atyp9 => "a datagram with ATYP = 9",
            JunkKind::CutV4 => "a datagram that ends inside the IPv4 address of its header",
            JunkKind::CutV6 => "a datagram that ends inside the IPv6 address of its header",
            JunkKind::CutPort => "a datagram that ends inside DST.PORT",
            JunkKind::DomLen => "a datagram whose domain-name length octet (200) exceeds the datagram",
            JunkKind::Frag => "a fragment (FRAG = 1)",
        }
    }
    /// the relay could read a destination out of it (so it may arrive at target 0)
    fn addressed(self) -> bool {
        matches!(self, JunkKind::Rsv | JunkKind::Frag)
    }
    fn bytes(self, target: SocketAddr, nonce: u32) -> Vec<u8> {
        let body = |h: &mut Vec<u8>| {
            h.extend_from_slice(b"\xEE\xEEnot-a-request\xEE\xEE");
            h.extend_from_slice(&nonce.to_be_bytes());
        };
        match self {
            JunkKind::Empty => vec![],
            JunkKind::Short1 => vec![0],
            JunkKind::Short3 => vec![0, 0, 0],
            JunkKind::Rsv | JunkKind::Frag => {
                let mut h = socks5_udp_header(target, false);
                if self == JunkKind::Rsv {
                    h[1] = 1;
                } else {
                    h[2] = 1;
                }
                body(&mut h);
                h
            }
            JunkKind::Atyp9 => {
                let mut h = vec![0, 0, 0, 9, 127, 0, 0, 1, 0x30, 0x39];
                body(&mut h);
                h
            }
            JunkKind::CutV4 => vec![0, 0, 0, 1, 127, 0],
            JunkKind::CutV6 => vec![0, 0, 0, 4, 0, 0, 0, 0, 0, 0, 0],
            JunkKind::CutPort => vec![0, 0, 0, 1, 127, 0, 0, 1, 0x30],
            JunkKind::DomLen => vec![0, 0, 0, 3, 200, b'l', b'o', b'c'],
        }
    }
}

#[derive(Clone, Debug, PartialEq, Eq)]
pub struct Junk {
    pub kind: JunkKind,
    /// sent by another local socket that never sends anything valid (otherwise by client 0's own socket)
    pub other: bool,
    /// sent before the exchanges of `sizes` (otherwise after them, followed by one more exchange)
    pub before: bool,
}

/// The local clients keep SENDING while nothing comes back: one datagram per (streaming client, target)
/// every `gap_ms` for `ms` milliseconds, the target silent; then the target answers the last datagram of
/// every streaming client (unsolicited, from its own socket to the source address it saw), then one more
/// ordinary exchange of every client.  `sizes` of the scenario are ordinary exchanges BEFORE the stream.
#[derive(Clone, Debug, PartialEq, Eq)]
pub struct OneWay {
    pub ms: u64,
    pub gap_ms: u64,
    /// payload sizes of the one-way datagrams (cycled); the last datagram is at least 16 bytes (it names itself)
    pub sizes: Vec<usize>,
    /// the first `streamers` clients send the stream, the others stay silent meanwhile
    pub streamers: usize,
    /// SOCKS5 only: every client sends through the association of client 0 (one relay socket, several sources)
    pub shared: bool,
    /// when the target answers, relative to the period of the client's prune task: the answer is sent at
    /// the first moment after `ms` at which (time since the client started) mod UDP_PRUNE_TIMEOUT = at
    pub at_ms: Option<u64>,
}

impl OneWay {
    pub fn new(ms: u64) -> Self {
        OneWay { ms, gap_ms: 2500, sizes: vec![24], streamers: usize::MAX, shared: false, at_ms: None }
    }
}

fn list(v: &[usize]) -> String {
    if v.is_empty() { "-".into() } else { v.iter().map(ToString::to_string).collect::<Vec<_>>().join(",") }
}

fn parse_list(v: &str, max: usize) -> Option<Vec<usize>> {
    if v.is_empty() || v == "-" {
        return Some(vec![]);
    }
    v.split(',').map(|x| x.parse().ok().filter(|n| *n <= max)).collect()
}

impl UdpScn {
    pub fn line(&self) -> String {
        // the one-way part is printed only when present: lines of scenarios without it read as they always did
        let oneway = match &self.oneway {
            None => String::new(),
            Some(o) => format!(
                " oneway={} gap={} osizes={} streamers={} shared={}{}",
                o.ms,
                o.gap_ms,
                list(&o.sizes),
                o.streamers.min(self.clients),
                u8::from(o.shared),
                o.at_ms.map(|a| format!(" at={a}")).unwrap_or_default()
            ),
        };
        let rounds = if self.rounds > 1 { format!(" rounds={}", self.rounds) } else { String::new() };
        let junk = match &self.junk {
            None => String::new(),
            Some(j) => format!(" junk={} by={} when={}", j.kind.text(), if j.other { "other" } else { "own" }, if j.before { "before" } else { "after" }),
        };
        let shared = match &self.shared {
            None => String::new(),
            Some(o) => format!(" assoc=shared order={}", o.text()),
        };
        format!(
            "udp via={} clients={} targets={} sizes={} replies={} domain={} idle={}{rounds}{oneway}{junk}{shared} seed={}",
            if self.socks { "socks5" } else { "udp-remote" },
            self.clients,
            self.targets.iter().map(ToString::to_string).collect::<Vec<_>>().join(","),
            list(&self.sizes),
            self.replies,
            u8::from(self.domain),
            self.idle_ms,
            self.seed
        )
    }
    pub fn parse(line: &str) -> Option<Self> {
        let mut t = line.split_whitespace();
        if t.next()? != "udp" {
            return None;
        }
        let mut s = UdpScn { socks: false, clients: 1, targets: vec![0], sizes: vec![8], replies: 1, domain: false, idle_ms: 0, oneway: None, junk: None, rounds: 1, shared: None, seed: 0 };
        let mut assoc_shared = false;
        for kv in t {
            let (k, v) = kv.split_once('=')?;
            match k {
                "via" => s.socks = match v { "socks5" => true, "udp-remote" => false, _ => return None },
                "clients" => s.clients = v.parse().ok().filter(|n| (1..=8).contains(n))?,
                "targets" => s.targets = v.split(',').map(|x| x.parse().ok().filter(|n| *n < crate::world::UDP_TARGETS)).collect::<Option<Vec<_>>>()?,
                "sizes" => s.sizes = parse_list(v, 60000)?,
                "replies" => s.replies = v.parse().ok().filter(|n| (1..=3).contains(n))?,
                "rounds" => s.rounds = v.parse().ok().filter(|n| (1..=5000).contains(n))?,
                "domain" => s.domain = v == "1",
                "idle" => s.idle_ms = v.parse().ok()?,
                "oneway" => s.oneway.get_or_insert_with(|| OneWay::new(0)).ms = v.parse().ok().filter(|n| *n <= 120_000)?,
                "gap" => s.oneway.get_or_insert_with(|| OneWay::new(0)).gap_ms = v.parse().ok().filter(|n| (50..=60_000).contains(n))?,
                "osizes" => s.oneway.get_or_insert_with(|| OneWay::new(0)).sizes = parse_list(v, 60000).filter(|l| !l.is_empty())?,
                "streamers" => s.oneway.get_or_insert_with(|| OneWay::new(0)).streamers = v.parse().ok().filter(|n| (1..=8).contains(n))?,
                "shared" => s.oneway.get_or_insert_with(|| OneWay::new(0)).shared = v == "1",
                "at" => s.oneway.get_or_insert_with(|| OneWay::new(0)).at_ms = Some(v.parse().ok().filter(|n| *n < 60_000)?),
                "junk" => s.junk.get_or_insert(Junk { kind: JunkKind::Empty, other: false, before: false }).kind = *JUNK_KINDS.iter().find(|k| k.text() == v)?,
                "by" => s.junk.get_or_insert(Junk { kind: JunkKind::Empty, other: false, before: false }).other = match v { "other" => true, "own" => false, _ => return None },
                "when" => s.junk.get_or_insert(Junk { kind: JunkKind::Empty, other: false, before: false }).before = match v { "before" => true, "after" => false, _ => return None },
                "assoc" => assoc_shared = match v { "shared" => true, "own" => false, _ => return None },
                "order" => s.shared = Some(*SHARED_ORDERS.iter().find(|o| o.text() == v)?),
                "seed" => s.seed = v.parse().ok()?,
                _ => return None,
            }
        }
        if s.oneway.as_ref().is_some_and(|o| o.ms == 0) {
            s.oneway = None;
        }
        if !s.socks {
            s.junk = None; // every datagram is a valid datagram for a fixed UDP remote
        }
        if assoc_shared && s.socks {
            // the family of its own: none of the other extras applies
            s.shared.get_or_insert(SharedOrder::Concurrent);
            s.clients = s.clients.min(4);
            (s.idle_ms, s.oneway, s.junk, s.rounds) = (0, None, None, 1);
        } else {
            s.shared = None;
        }
        if let Some(o) = &mut s.oneway {
            o.streamers = o.streamers.min(s.clients);
            o.shared &= s.socks;
        }
        Some(s)
    }
}

/// RFC 1928 section 7, as a conforming client reads it: RSV(2)=0, FRAG=0, ATYP, DST.ADDR, DST.PORT, DATA.
pub fn parse_socks5_udp(b: &[u8]) -> Result<(String, u16, &[u8]), String> {
    if b.len() < 4 {
        return Err(format!("{} bytes: shorter than RSV RSV FRAG ATYP", b.len()));
    }
    if b[0] != 0 || b[1] != 0 {
        return Err(format!("RSV = {:02x}{:02x}, must be 0000", b[0], b[1]));
    }
    if b[2] != 0 {
        return Err(format!("FRAG = {}: a fragment, but nothing was fragmented", b[2]));
    }
    let (host, rest) = match b[3] {
        1 => {
            if b.len() < 4 + 4 + 2 {
                return Err("truncated IPv4 header".into());
            }
            (IpAddr::from([b[4], b[5], b[6], b[7]]).to_string(), &b[8..])
        }
        4 => {
            if b.len() < 4 + 16 + 2 {
                return Err("truncated IPv6 header".into());
            }
            let mut a = [0u8; 16];
            a.copy_from_slice(&b[4..20]);
            (IpAddr::from(Ipv6Addr::from(a)).to_string(), &b[20..])
        }
        3 => {
            if b.len() < 5 {
                return Err("truncated domain header".into());
            }
            let n = b[4] as usize;
            if b.len() < 5 + n + 2 {
                return Err("truncated domain header".into());
            }
            (String::from_utf8_lossy(&b[5..5 + n]).to_string(), &b[5 + n..])
        }
        t => return Err(format!("ATYP = {t}: not an RFC 1928 address type (header {})", pvhf::hex(&b[..b.len().min(12)]))),
    };
    let port = u16::from_be_bytes([rest[0], rest[1]]);
    Ok((host, port, &rest[2..]))
}

fn socks5_udp_header(target: SocketAddr, domain: bool) -> Vec<u8> {
    let mut h = vec![0u8, 0, 0];
    match (target.ip(), domain) {
        (IpAddr::V4(_), true) => {
            h.push(3);
            h.push(9);
            h.extend_from_slice(b"localhost");
        }
        (IpAddr::V4(a), false) => {
            h.push(1);
            h.extend_from_slice(&a.octets());
        }
        (IpAddr::V6(a), _) => {
            h.push(4);
            h.extend_from_slice(&a.octets());
        }
    }
    h.extend_from_slice(&target.port().to_be_bytes());
    h
}

struct Client {
    sock: UdpSocket,
    addr: SocketAddr,
    /// SOCKS5: the relay address from the UDP ASSOCIATE reply, and the control connection
    relay: Option<SocketAddr>,
    ctl: Option<TcpStream>,
}

async fn associate(w: &World) -> Result<(TcpStream, SocketAddr), String> {
    let mut s = tokio::time::timeout(step(), TcpStream::connect((w.socks_host, w.socks_port)))
        .await
        .map_err(|_| "HANG connecting to the SOCKS listener".to_string())?
        .map_err(|e| format!("connect SOCKS listener: {e}"))?;
    let io = async {
        s.write_all(&[5, 1, 0]).await.map_err(|e| e.to_string())?;
        let mut m = [0u8; 2];
        s.read_exact(&mut m).await.map_err(|e| format!("method selection: {e}"))?;
        if m != [5, 0] {
            return Err(format!("method selection {m:?}"));
        }
        s.write_all(&[5, 3, 0, 1, 0, 0, 0, 0, 0, 0]).await.map_err(|e| e.to_string())?;
        let mut h = [0u8; 4];
        s.read_exact(&mut h).await.map_err(|e| format!("associate reply: {e}"))?;
        if h[0] != 5 || h[1] != 0 {
            return Err(format!("UDP ASSOCIATE refused: {h:?}"));
        }
        let ip: IpAddr = match h[3] {
            1 => {
                let mut a = [0u8; 4];
                s.read_exact(&mut a).await.map_err(|e| e.to_string())?;
                a.into()
            }
            4 => {
                let mut a = [0u8; 16];
                s.read_exact(&mut a).await.map_err(|e| e.to_string())?;
                a.into()
            }
            t => return Err(format!("associate reply ATYP {t}")),
        };
        let mut p = [0u8; 2];
        s.read_exact(&mut p).await.map_err(|e| e.to_string())?;
        // BND.ADDR 0.0.0.0 / :: (a listener on every address): "the address I reached you at", as clients read it
        let ip = if ip.is_unspecified() { w.socks_host } else { ip };
        Ok(SocketAddr::new(ip, u16::from_be_bytes(p)))
    };
    let relay = tokio::time::timeout(step(), io).await.map_err(|_| "HANG in the UDP ASSOCIATE handshake".to_string())??;
    Ok((s, relay))
}

#[derive(Clone, Debug)]
struct Sent {
    client: usize,
    target: usize,
    payload: Vec<u8>,
    to: SocketAddr,
}

#[derive(Default, Debug)]
pub struct UdpOutcome {
    pub bad: Vec<(String, String)>,
    pub exchanges: usize,
    pub replies_ok: usize,
    /// SOCKS5 reply header address: how often it was the remote host's / the client's own / something else
    pub hdr_remote: usize,
    pub hdr_client: usize,
    pub hdr_other: usize,
    pub infra: Option<String>,
    pub map_entries: usize,
    /// junk datagrams from which the relay read a destination and which it relayed (RSV != 0: observation)
    pub junk_relayed: usize,
    /// several sockets on one association: local sockets that used the association, of them created after another was closed
    pub shared_sockets: usize,
    pub shared_renewed: usize,
}

fn mk_payload(nonce: u32, client: usize, target: usize, seq: u32, len: usize, rng: &mut pvhf::Rng) -> Vec<u8> {
    // 10-byte identification when there is room for it: nonce(4) client(1) target(1) seq(4)
    let mut p = Vec::with_capacity(len);
    if len >= 10 {
        p.extend_from_slice(&nonce.to_be_bytes());
        p.push(client as u8);
        p.push(target as u8);
        p.extend_from_slice(&seq.to_be_bytes());
        p.extend(rng.bytes(len - 10));
    } else {
        p.extend(rng.bytes(len));
    }
    p
}

/// Every client socket listens until `replies` replies to each datagram of `sent` are in (or the wait is
/// over), then shortly for datagrams that should not come.  Each datagram received is judged: well-formed
/// RFC 1928 header (SOCKS5), a reply some target sent, unmodified, at the client that originated the
/// exchange, from the address that client sent to, once.  Returns the (client, target, reply index) that
/// did not arrive.
async fn collect(w: &World, sc: &UdpScn, clients: &[Client], sent: &[Sent], tail: Duration, out: &mut UdpOutcome) -> Vec<(usize, usize, usize)> {
    // collect: every client socket listens until all expected replies are in or the wait is over
    let mut expected: HashMap<(usize, usize, usize), bool> = HashMap::new(); // (client, target, reply index) -> seen
    for s in sent {
        for i in 0..sc.replies {
            expected.insert((s.client, s.target, i), false);
        }
    }
    let deadline = Instant::now() + REPLY_WAIT;
    let mut buf = vec![0u8; 65536];
    let desc = |s: &Sent| format!("client {} ({}) -> target {} ({}) payload {} bytes", s.client, clients[s.client].addr, s.target, w.udp_targets[s.target].addr, s.payload.len());
    let mut all_since: Option<Instant> = None;
    loop {
        let all = expected.values().all(|v| *v);
        if all && all_since.is_none() {
            all_since = Some(Instant::now());
        }
        // after everything arrived keep listening shortly for datagrams that should not come
        let until = match all_since {
            Some(t) => t + tail,
            None => deadline,
        };
        let mut got_any = false;
        for (ci, c) in clients.iter().enumerate() {
            while let Ok((n, from)) = c.sock.try_recv_from(&mut buf) {
                got_any = true;
                let data = &buf[..n];
                // where it came from: the address this client sent to
                let sent_to: Vec<SocketAddr> = sent.iter().filter(|s| s.client == ci).map(|s| s.to).collect();
                let body: &[u8] = if sc.socks {
                    match parse_socks5_udp(data) {
                        Ok((host, port, body)) => {
                            // which address the header names (reported, see the final report)
                            let is_remote = sent.iter().any(|s| s.client == ci && w.udp_targets[s.target].addr.port() == port
                                && (host == w.udp_targets[s.target].addr.ip().to_string() || host == "localhost"));
                            if is_remote {
                                out.hdr_remote += 1;
                            } else if host == c.addr.ip().to_string() && port == c.addr.port() {
                                out.hdr_client += 1;
                            } else {
                                out.hdr_other += 1;
                                // several sockets on one association: the header must not name ANOTHER of these sockets or
                                // a target this socket never addressed (a conforming client reads the sender out of it)
                                if sc.shared.is_some() {
                                    let other_socket = clients.iter().enumerate().find(|(cj, o)| *cj != ci && host == o.addr.ip().to_string() && port == o.addr.port());
                                    let other_target = w.udp_targets.iter().position(|t| host == t.addr.ip().to_string() && port == t.addr.port());
                                    if let Some((cj, o)) = other_socket {
                                        out.bad.push(("reply-header-names-wrong-address".into(), format!("the RFC 1928 header of a reply delivered to socket {ci} ({}) names {host}:{port}, the address of socket {cj} ({}) of the same association", c.addr, o.addr)));
                                    } else if let Some(t) = other_target {
                                        out.bad.push(("reply-header-names-wrong-address".into(), format!("the RFC 1928 header of a reply delivered to socket {ci} ({}) names {host}:{port}, target {t}, to which this socket sent nothing in this exchange", c.addr)));
                                    }
                                }
                            }
                            body
                        }
                        Err(e) => {
                            out.bad.push(("socks5-reply-header-malformed".into(), format!("reply to client {ci} does not start with a well-formed RFC 1928 UDP header: {e}")));
                            continue;
                        }
                    }
                } else {
                    data
                };
                // a proper prefix of a reply that a target sent in this round (reply i of target t to s = tag, i, payload
                // of s): the exchanges of this client first
                let truncated = sent.iter().filter(|s| s.client == ci).chain(sent.iter().filter(|s| s.client != ci)).find_map(|s| {
                    (0..sc.replies)
                        .find(|i| {
                            let tag = w.udp_targets[s.target].tag;
                            body.len() < s.payload.len() + 2
                                && body.first().is_none_or(|b| *b == tag)
                                && body.get(1).is_none_or(|b| *b as usize == *i)
                                && (body.len() <= 2 || s.payload.starts_with(&body[2..]))
                        })
                        .map(|i| (s, i))
                });
                let exact = body.len() >= 2 && w.udp_targets.iter().position(|t| t.tag == body[0]).is_some_and(|t| sent.iter().any(|s| s.target == t && s.payload == body[2..]));
                if let (false, Some((s, i))) = (exact, truncated) {
                    out.bad.push((
                        "reply-truncated".into(),
                        format!(
                            "reply {i} of target {} to [{}] arrived at client {ci} cut short: {} of the {} bytes the target sent (a prefix of them){}",
                            s.target,
                            desc(s),
                            body.len(),
                            s.payload.len() + 2,
                            if sc.socks { ", behind a well-formed RFC 1928 header" } else { "" }
                        ),
                    ));
                    if s.client == ci {
                        if let Some(seen) = expected.get_mut(&(ci, s.target, i)) {
                            *seen = true; // it did arrive: not reported as lost as well
                        }
                    }
                    continue;
                }
                if body.len() < 2 {
                    out.bad.push(("reply-corrupt".into(), format!("client {ci} received a {}-byte datagram that no target sent", body.len())));
                    continue;
                }
                let (tag, idx, echoed) = (body[0], body[1] as usize, &body[2..]);
                let Some(t) = w.udp_targets.iter().position(|t| t.tag == tag) else {
                    out.bad.push(("reply-corrupt".into(), format!("client {ci} received a datagram with unknown target tag {tag:02x}")));
                    continue;
                };
                // whose exchange is it?
                let owner = sent.iter().find(|s| s.target == t && s.payload == echoed);
                match owner {
                    None => out.bad.push(("reply-corrupt".into(), format!("client {ci} received a reply from target {t} whose payload ({} bytes) matches nothing sent in this round: payload modified", echoed.len()))),
                    Some(s) if s.client != ci && !sent.iter().any(|s2| s2.client == ci && s2.target == t && s2.payload == echoed) => {
                        out.bad.push(("reply-misrouted".into(), format!("the reply to [{}] was delivered to client {ci} ({})", desc(s), c.addr)));
                    }
                    Some(_) => {
                        if !sent_to.contains(&from) {
                            out.bad.push(("reply-from-wrong-address".into(), format!("client {ci} sent to {sent_to:?} but the reply came from {from}")));
                        }
                        match expected.get_mut(&(ci, t, idx)) {
                            Some(seen) if !*seen => {
                                *seen = true;
                                out.replies_ok += 1;
                            }
                            Some(_) => out.bad.push(("reply-duplicated".into(), format!("client {ci} received reply {idx} of target {t} twice"))),
                            None => out.bad.push(("reply-corrupt".into(), format!("client {ci} received reply index {idx} that the target did not send"))),
                        }
                    }
                }
            }
        }
        if Instant::now() >= until {
            break;
        }
        if !got_any {
            tokio::time::sleep(Duration::from_millis(3)).await;
        }
    }
    let mut missing: Vec<(usize, usize, usize)> = expected.iter().filter(|(_, seen)| !**seen).map(|(k, _)| *k).collect();
    missing.sort();
    missing
}

/// One round: every (client, target) pair sends one datagram of `len` bytes at the same time (pairs
/// one at a time when the payload is too short to identify itself), then all replies are collected.
#[allow(clippy::too_many_arguments)]
async fn round(w: &World, sc: &UdpScn, clients: &[Client], len: usize, seq: u32, nonce: u32, rng: &mut pvhf::Rng, out: &mut UdpOutcome) {
    round_tail(w, sc, clients, len, seq, nonce, rng, Duration::from_millis(40), out).await;
}

/// `tail`: how long the clients keep listening, after everything expected has arrived, for datagrams that should not come.
#[allow(clippy::too_many_arguments)]
async fn round_tail(
    w: &World,
    sc: &UdpScn,
    clients: &[Client],
    len: usize,
    seq: u32,
    nonce: u32,
    rng: &mut pvhf::Rng,
    tail: Duration,
    out: &mut UdpOutcome,
) {
    let all: Vec<usize> = (0..clients.len()).collect();
    round_active(w, sc, clients, &all, len, seq, nonce, rng, tail, out).await;
}

/// Only the sockets `active` send; every socket of `clients` listens.
#[allow(clippy::too_many_arguments)]
async fn round_active(
    w: &World,
    sc: &UdpScn,
    clients: &[Client],
    active: &[usize],
    len: usize,
    seq: u32,
    nonce: u32,
    rng: &mut pvhf::Rng,
    tail: Duration,
    out: &mut UdpOutcome,
) {
    let pairs: Vec<(usize, usize)> = active.iter().flat_map(|c| sc.targets.iter().map(move |t| (*c, *t))).collect();
    let groups: Vec<Vec<(usize, usize)>> = if len >= 10 { vec![pairs] } else { pairs.into_iter().map(|p| vec![p]).collect() };
    for group in groups {
        let marks: Vec<usize> = w.udp_targets.iter().map(|t| t.log.lock().unwrap().got.len()).collect();
        let mut sent: Vec<Sent> = vec![];
        for (c, t) in &group {
            let payload = mk_payload(nonce, *c, *t, seq, len, rng);
            let tgt = &w.udp_targets[*t];
            let (to, wire) = if sc.socks {
                let mut d = socks5_udp_header(tgt.addr, sc.domain);
                d.extend_from_slice(&payload);
                (clients[*c].relay.unwrap(), d)
            } else {
                (w.udp_remote_addr(*t), payload.clone())
            };
            if let Err(e) = clients[*c].sock.send_to(&wire, to).await {
                out.infra = Some(format!("send_to: {e}"));
                return;
            }
            sent.push(Sent { client: *c, target: *t, payload, to });
        }
        out.exchanges += sent.len();
        let missing = collect(w, sc, clients, &sent, tail, out).await;
        let desc = |s: &Sent| format!("client {} ({}) -> target {} ({}) payload {} bytes", s.client, clients[s.client].addr, s.target, w.udp_targets[s.target].addr, s.payload.len());
        // what the targets saw
        for s in &sent {
            let log = w.udp_targets[s.target].log.lock().unwrap();
            let n = log.got[marks[s.target]..].iter().filter(|(p, _)| *p == s.payload).count();
            let same_payload_sent = sent.iter().filter(|x| x.target == s.target && x.payload == s.payload).count();
            if n < same_payload_sent {
                let others: Vec<usize> = log.got[marks[s.target]..].iter().map(|(p, _)| p.len()).collect();
                out.bad.push(("datagram-not-delivered".into(), format!("[{}] did not reach the target unmodified within {} ms (target received datagrams of sizes {others:?} meanwhile)", desc(s), REPLY_WAIT.as_millis())));
            } else if n > same_payload_sent {
                out.bad.push(("datagram-duplicated".into(), format!("[{}] reached the target {n} times", desc(s))));
            }
        }
        for (c, t, i) in &missing {
            if !out.bad.iter().any(|(k, _)| k == "datagram-not-delivered") {
                out.bad.push(("reply-not-delivered".into(), format!("reply {i} of target {t} to client {c} ({}) did not arrive within {} ms", clients[*c].addr, REPLY_WAIT.as_millis())));
            }
        }
        if !out.bad.is_empty() {
            return;
        }
    }
}

/// One-way traffic that outlasts the idle timeout, then the target's answer (see `OneWay`).  The oracle is
/// the property statement alone: every datagram reaches its target unmodified and once; nothing arrives at
/// a client while no target has sent anything; every reply the target sends afterwards arrives at exactly
/// the client whose datagram it answers, from the address that client sent to, (SOCKS5) behind a
/// well-formed header, unmodified; and the next ordinary exchange of every client works.
#[allow(clippy::too_many_arguments)]
async fn one_way(w: &World, sc: &UdpScn, ow: &OneWay, clients: &[Client], seq: &mut u32, nonce: u32, rng: &mut pvhf::Rng, out: &mut UdpOutcome) {
    let period = rusty_penguin_lib::config::UDP_PRUNE_TIMEOUT;
    let streamers = ow.streamers.clamp(1, clients.len());
    let gap = Duration::from_millis(ow.gap_ms);
    for t in &w.udp_targets {
        t.replies.store(0, Ordering::SeqCst); // the targets only listen
    }
    let marks: Vec<usize> = w.udp_targets.iter().map(|t| t.log.lock().unwrap().got.len()).collect();
    let start = Instant::now();
    let mut end = start + Duration::from_millis(ow.ms);
    if let Some(at) = ow.at_ms {
        // the answer is sent `at` ms into a period of the client's prune task (first tick when the client started)
        let p = period.as_millis() as u64;
        let phase = (end.duration_since(w.client_started).as_millis() as u64) % p;
        end += Duration::from_millis((at % p + p - phase) % p);
    }
    let total_ms = end.duration_since(start).as_millis();
    // ticks at start + k * gap while at least 200 ms are left before the answer
    let mut ticks = 0u32;
    while start + gap * (ticks + 1) + Duration::from_millis(200) <= end {
        ticks += 1;
    }
    ticks += 1;
    let mut all_sent: Vec<Sent> = vec![];
    let mut last: Vec<Sent> = vec![];
    let mut buf = vec![0u8; 65536];
    let what = |n: usize| format!("{total_ms} ms of one-way traffic ({n} datagrams per client and target, one every {} ms, the target silent)", ow.gap_ms);
    for k in 0..ticks {
        tokio::time::sleep_until((start + gap * k).into()).await;
        *seq += 1;
        let is_last = k + 1 == ticks;
        let len = ow.sizes[k as usize % ow.sizes.len()];
        let len = if is_last { len.max(16) } else { len };
        for c in 0..streamers {
            for t in &sc.targets {
                let payload = mk_payload(nonce, c, *t, *seq, len, rng);
                let tgt = &w.udp_targets[*t];
                let (to, wire) = if sc.socks {
                    let mut d = socks5_udp_header(tgt.addr, sc.domain);
                    d.extend_from_slice(&payload);
                    (clients[c].relay.unwrap(), d)
                } else {
                    (w.udp_remote_addr(*t), payload.clone())
                };
                if let Err(e) = clients[c].sock.send_to(&wire, to).await {
                    out.infra = Some(format!("send_to: {e}"));
                    return;
                }
                let s = Sent { client: c, target: *t, payload, to };
                if is_last {
                    last.push(s.clone());
                }
                all_sent.push(s);
            }
        }
        out.exchanges += streamers * sc.targets.len();
    }
    // every datagram of the stream is at its target, unmodified, once (the last ones may still be on their way)
    let deadline = Instant::now() + REPLY_WAIT;
    loop {
        let complete = sc.targets.iter().all(|t| {
            let log = w.udp_targets[*t].log.lock().unwrap();
            log.got.len() - marks[*t] >= all_sent.iter().filter(|s| s.target == *t).count()
        });
        if complete || Instant::now() >= deadline {
            break;
        }
        tokio::time::sleep(Duration::from_millis(5)).await;
    }
    for t in &sc.targets {
        let log = w.udp_targets[*t].log.lock().unwrap();
        let got = &log.got[marks[*t]..];
        let mine: Vec<&Sent> = all_sent.iter().filter(|s| s.target == *t).collect();
        let mut lost = 0;
        let mut first_lost = None;
        for (i, s) in mine.iter().enumerate() {
            // count equal payloads on both sides (short payloads cannot name themselves)
            let n_sent = mine.iter().filter(|x| x.payload == s.payload).count();
            let n_got = got.iter().filter(|(p, _)| *p == s.payload).count();
            if n_got < n_sent {
                lost += 1;
                first_lost.get_or_insert((i, s.payload.len(), s.client));
            } else if n_got > n_sent {
                out.bad.push(("datagram-duplicated".into(), format!("during {}: a {}-byte datagram of client {} reached target {t} {n_got} times, sent {n_sent} times", what(ticks as usize), s.payload.len(), s.client)));
                break;
            }
        }
        if let Some((i, len, c)) = first_lost {
            out.bad.push(("datagram-not-delivered".into(), format!("during {}: {lost} of {} datagrams to target {t} did not reach it unmodified (first: number {i}, {len} bytes, of client {c}); the target received {} datagrams", what(ticks as usize), mine.len(), got.len())));
        }
        if let Some((p, src)) = got.iter().find(|(p, _)| !mine.iter().any(|s| s.payload == *p)) {
            out.bad.push(("datagram-corrupt".into(), format!("during {}: target {t} received a {}-byte datagram from {src} that no client sent", what(ticks as usize), p.len())));
        }
    }
    // nothing may have arrived at any client: no target has sent anything
    for (ci, c) in clients.iter().enumerate() {
        if let Ok((n, from)) = c.sock.try_recv_from(&mut buf) {
            out.bad.push(("datagram-from-nowhere".into(), format!("during {}: client {ci} ({}) received a {n}-byte datagram from {from} although no target sent anything", what(ticks as usize), c.addr)));
        }
    }
    if !out.bad.is_empty() {
        return;
    }
    // the answer: each target answers the last datagram of every streaming client, to the source address it saw
    tokio::time::sleep_until(end.into()).await;
    let answered_after = Instant::now().duration_since(start).as_millis();
    for s in &last {
        let tgt = &w.udp_targets[s.target];
        let src = tgt.log.lock().unwrap().got.iter().rev().find(|(p, _)| *p == s.payload).map(|(_, a)| *a);
        let Some(src) = src else {
            out.infra = Some("the last datagram of the stream is not in the target's log".into());
            return;
        };
        for i in 0..sc.replies {
            let mut d = Vec::with_capacity(s.payload.len() + 2);
            d.push(tgt.tag);
            d.push(i as u8);
            d.extend_from_slice(&s.payload);
            if let Err(e) = tgt.sock.send_to(&d, src).await {
                out.infra = Some(format!("target send_to: {e}"));
                return;
            }
        }
    }
    let before = out.bad.len();
    let missing = collect(w, sc, clients, &last, Duration::from_millis(40), out).await;
    for (c, t, i) in &missing {
        out.bad.push((
            "reply-not-delivered".into(),
            format!("reply {i} of target {t} to the last datagram of client {c} ({}), sent by the target {answered_after} ms after the client's first datagram, did not arrive within {} ms", clients[*c].addr, REPLY_WAIT.as_millis()),
        ));
    }
    if out.bad.len() > before {
        for b in &mut out.bad[before..] {
            b.1 = format!("after {}: {}", what(ticks as usize), b.1);
        }
        return;
    }
    // one more ordinary exchange of every client (also those that were silent meanwhile)
    for t in &w.udp_targets {
        t.replies.store(sc.replies, Ordering::SeqCst);
    }
    *seq += 1;
    round(w, sc, clients, 33, *seq, nonce, rng, out).await;
    for b in &mut out.bad[before..] {
        b.0 = format!("next-exchange:{}", b.0);
        b.1 = format!("after {} and the target's answer: {}", what(ticks as usize), b.1);
    }
}

/// Send the junk datagram of the scenario to the relay address of client 0 and give the relay time to deal
/// with it.  Judged here: a fragment must not arrive at the target as a datagram (RFC 1928 section 7: "an
/// implementation that does not support fragmentation MUST drop any datagram whose FRAG field is other than
/// X'00'"); nothing may arrive at a client or at the other socket unless the junk was relayed and the target
/// answered it.  Returns the description of what was sent (None = infrastructure problem).
async fn send_junk(w: &World, sc: &UdpScn, j: &Junk, clients: &[Client], stranger: Option<&UdpSocket>, nonce: u32, out: &mut UdpOutcome) -> Option<String> {
    let relay = clients[0].relay?;
    let tgt = &w.udp_targets[0];
    let bytes = j.kind.bytes(tgt.addr, nonce);
    let sock = match (j.other, stranger) {
        (true, Some(s)) => s,
        _ => &clients[0].sock,
    };
    let from = sock.local_addr().ok()?;
    let what = format!(
        "{} ({} bytes: {}) was sent to the relay address {relay} of client 0's association by {} ({from})",
        j.kind.describe(),
        bytes.len(),
        if bytes.is_empty() { "-".to_string() } else { pvhf::hex(&bytes[..bytes.len().min(16)]) },
        if j.other { "another local socket that never sent a valid request" } else { "the association's own client socket" },
    );
    let mark = tgt.log.lock().unwrap().got.len();
    if let Err(e) = sock.send_to(&bytes, relay).await {
        out.infra = Some(format!("send_to (junk): {e}"));
        return None;
    }
    // what the relay could read a destination from may have been relayed: look at the target
    let mut relayed = false;
    let waited = Instant::now();
    while waited.elapsed() < Duration::from_millis(if j.kind.addressed() { 300 } else { 100 }) {
        if j.kind.addressed() && tgt.log.lock().unwrap().got[mark..].iter().any(|(p, _)| bytes.ends_with(p) && !p.is_empty()) {
            relayed = true;
            break;
        }
        tokio::time::sleep(Duration::from_millis(5)).await;
    }
    let mut buf = vec![0u8; 65536];
    if relayed {
        out.junk_relayed += 1;
        if j.kind == JunkKind::Frag {
            out.bad.push((format!("after-junk:{}:fragment-relayed", j.kind.text()), format!("{what}: it arrived at target 0 as a datagram of its own")));
        }
        // the target answers whatever it receives: take its answers off the sender's socket
        let deadline = Instant::now() + Duration::from_millis(500);
        let mut n = 0;
        while n < sc.replies && Instant::now() < deadline {
            if sock.try_recv_from(&mut buf).is_ok() {
                n += 1;
            } else {
                tokio::time::sleep(Duration::from_millis(3)).await;
            }
        }
    }
    for (ci, s) in clients.iter().map(|c| &c.sock).chain(stranger).enumerate() {
        if let Ok((n, from)) = s.try_recv_from(&mut buf) {
            let who = if ci < clients.len() { format!("client {ci}") } else { "the other socket".to_string() };
            out.bad.push((format!("after-junk:{}:datagram-from-nowhere", j.kind.text()), format!("{what}: then {who} received a {n}-byte datagram from {from} that no target sent to it")));
        }
    }
    Some(what)
}

/// The failures of the exchange that followed the junk datagram: keys prefixed, the junk named, and whether
/// anybody was told (the association's TCP control connection).
fn after_junk(j: &Junk, what: &str, clients: &[Client], out: &mut UdpOutcome) {
    let ctl = match clients[0].ctl.as_ref().map(|c| c.try_read(&mut [0u8; 1])) {
        Some(Ok(0)) => "the association's TCP control connection has been closed",
        Some(Err(e)) if e.kind() == std::io::ErrorKind::WouldBlock => "the association's TCP control connection is still open, nothing was reported on it",
        Some(_) => "the association's TCP control connection carries data or an error",
        None => "",
    };
    for b in &mut out.bad {
        b.0 = format!("after-junk:{}:{}", j.kind.text(), b.0);
        b.1 = format!("after {what} (RFC 1928 section 7: a relay drops what it cannot or will not relay): {}; {ctl}", b.1);
    }
}

/// The real maps (through Debug): consistent, and every (live) client socket of this scenario is in them.
fn check_maps(w: &World, sc: &UdpScn, clients: &[Client], out: &mut UdpOutcome) {
    match w.maps_snapshot() {
        Err(e) if e == "maps locked" => {}
        Err(e) => out.infra = Some(format!("maps snapshot: {e}")),
        Ok(m) => {
            out.map_entries = m.ids.len();
            if let Err(e) = maps_consistent(&m) {
                out.bad.push(("client-maps-inconsistent".into(), e));
            }
            for (ci, c) in clients.iter().enumerate() {
                let ours: Vec<SocketAddr> = if sc.socks {
                    vec![c.relay.unwrap()]
                } else {
                    sc.targets.iter().map(|t| w.udp_remote_addr(*t)).collect()
                };
                for our in ours {
                    // (a listener on 0.0.0.0 is in the maps under that address, whatever address the local client reached it at)
                    let n = m.ids.iter().filter(|(_, p, o, s5)| *p == c.addr && (*o == our || (o.ip().is_unspecified() && o.port() == our.port())) && *s5 == sc.socks).count();
                    if n != 1 {
                        out.bad.push(("client-maps-missing-entry".into(), format!("client {ci} ({}) via {our}: {n} entries in the client id map right after its exchange", c.addr)));
                    }
                }
            }
        }
    }
}

/// Several local sockets on ONE SOCKS5 UDP association (`SharedOrder`): one UDP ASSOCIATE, one control
/// connection, one relay address; `clients` local sockets of the same host (same IP, different source ports)
/// send their tagged datagrams to that relay address.  RFC 1928 section 6 lets the client announce
/// 0.0.0.0:0 in UDP ASSOCIATE (as here) precisely because it may not know its source ports; the relay may
/// limit an association by the client's IP address, not by a port.  The oracle is the property statement:
/// every datagram reaches its target unmodified and once, every reply arrives at exactly the socket that
/// sent the request (every socket listens all the time), from the relay address, behind a well-formed RFC
/// 1928 header that names neither another of these sockets nor a target this socket did not address,
/// payload unmodified, once.
async fn run_shared(w: &World, sc: &UdpScn, order: SharedOrder, nonce: u32, rng: &mut pvhf::Rng, out: &mut UdpOutcome) {
    let (ctl, relay) = match associate(w).await {
        Ok(x) => x,
        Err(e) => {
            let k = if e.starts_with("HANG") { "socks5-associate-hangs" } else { "socks5-associate-failed" };
            out.bad.push((k.into(), e));
            return;
        }
    };
    let mut ctl = Some(ctl);
    let mut clients: Vec<Client> = vec![];
    for _ in 0..sc.clients.clamp(1, 4) {
        match UdpSocket::bind(w.udp_client_bind(sc.socks, &sc.targets)).await {
            Ok(sock) => {
                let addr = sock.local_addr().unwrap();
                clients.push(Client { sock, addr, relay: Some(relay), ctl: ctl.take() });
            }
            Err(e) => {
                out.infra = Some(format!("bind: {e}"));
                return;
            }
        }
    }
    out.shared_sockets = clients.len();
    let tail = Duration::from_millis(40);
    let all: Vec<usize> = (0..clients.len()).collect();
    let mut seq = 0u32;
    // keys of this family, what was going on, and whether anybody was told (the control connection)
    let finish = |out: &mut UdpOutcome, clients: &[Client], phase: &str, doing: &str| {
        let ctl = match clients.iter().find_map(|c| c.ctl.as_ref()).map(|c| c.try_read(&mut [0u8; 1])) {
            Some(Ok(0)) => "the association's TCP control connection has been closed by the relay",
            Some(Err(e)) if e.kind() == std::io::ErrorKind::WouldBlock => "the association's TCP control connection is still open, nothing was reported on it",
            Some(_) => "the association's TCP control connection carries data or an error",
            None => "",
        };
        let socks: Vec<String> = clients.iter().enumerate().map(|(i, c)| format!("socket {i} = {}", c.addr)).collect();
        let mut seen: Vec<String> = vec![];
        let mut kept: Vec<(String, String)> = vec![];
        let mut more: HashMap<String, usize> = HashMap::new();
        for (k, d) in out.bad.drain(..) {
            let k = match k.as_str() {
                "datagram-not-delivered" | "reply-not-delivered" => "reply-missing",
                "reply-misrouted" => "reply-to-wrong-socket",
                o => o,
            };
            let key = format!("shared-association:{phase}{k}");
            if seen.contains(&key) {
                *more.entry(key).or_default() += 1;
                continue;
            }
            seen.push(key.clone());
            kept.push((
                key,
                format!(
                    "{} local sockets of one host ({}; 'client' = socket below) use ONE SOCKS5 UDP association (relay address {relay}, one control connection, UDP ASSOCIATE announced 0.0.0.0:0); {doing}: {d}; {ctl}",
                    clients.len(),
                    socks.join(", ")
                ),
            ));
        }
        for (k, d) in &mut kept {
            if let Some(n) = more.get(k) {
                d.push_str(&format!(" (and {n} more of the same kind in this exchange)"));
            }
        }
        out.bad = kept;
    };
    match order {
        SharedOrder::Concurrent | SharedOrder::Renew => {
            for len in &sc.sizes {
                seq += 1;
                round_active(w, sc, &clients, &all, *len, seq, nonce, rng, tail, out).await;
                if !out.bad.is_empty() || out.infra.is_some() {
                    finish(out, &clients, "", &format!("exchange {seq}: every socket sends a {len}-byte datagram to every target at the same time"));
                    return;
                }
            }
        }
        SharedOrder::Sequential => {
            for k in 0..clients.len() {
                for len in &sc.sizes {
                    seq += 1;
                    round_active(w, sc, &clients, &[k], *len, seq, nonce, rng, tail, out).await;
                    if !out.bad.is_empty() || out.infra.is_some() {
                        let before = if k == 0 { "the first socket to use the association".to_string() } else { format!("after socket(s) 0..{} had all their exchanges", k - 1) };
                        finish(out, &clients, "", &format!("exchange {seq}: socket {k} alone sends a {len}-byte datagram to every target ({before}; all sockets listen)"));
                        return;
                    }
                }
            }
            seq += 1;
            round_active(w, sc, &clients, &all, 33, seq, nonce, rng, tail, out).await;
            if !out.bad.is_empty() || out.infra.is_some() {
                finish(out, &clients, "", &format!("exchange {seq}: after every socket had its exchanges alone, all sockets send a 33-byte datagram to every target at the same time"));
                return;
            }
        }
    }
    if order == SharedOrder::Renew {
        // a new local socket first (so that it cannot get the old port), then the old one is closed
        let sock = match UdpSocket::bind(w.udp_client_bind(sc.socks, &sc.targets)).await {
            Ok(s) => s,
            Err(e) => {
                out.infra = Some(format!("bind: {e}"));
                return;
            }
        };
        let addr = sock.local_addr().unwrap();
        let old = clients[0].addr;
        let ctl = clients[0].ctl.take();
        clients[0] = Client { sock, addr, relay: Some(relay), ctl }; // drops (closes) the old socket; the control connection lives on
        out.shared_sockets += 1;
        out.shared_renewed += 1;
        let first = seq;
        for len in &sc.sizes {
            seq += 1;
            round_active(w, sc, &clients, &all, *len, seq, nonce, rng, tail, out).await;
            if !out.bad.is_empty() || out.infra.is_some() {
                finish(
                    out,
                    &clients,
                    "after-new-socket:",
                    &format!(
                        "after {first} exchange(s) socket 0 ({old}) was closed and a new local socket ({addr}, now socket 0) goes on using the same association, the control connection untouched; exchange {} after that: every socket sends a {len}-byte datagram to every target at the same time",
                        seq - first
                    ),
                );
                return;
            }
        }
    }
    // the client's maps: one entry per live socket, all on the one relay socket
    check_maps(w, sc, &clients, out);
    if !out.bad.is_empty() {
        finish(out, &clients, "", "after all exchanges");
    }
}

pub async fn run_udp(w: Arc<World>, sc: UdpScn) -> UdpOutcome {
    let mut out = UdpOutcome::default();
    let mut rng = pvhf::Rng::new(sc.seed ^ 0xD6);
    let nonce = rng.next() as u32;
    for t in &w.udp_targets {
        t.replies.store(sc.replies, Ordering::SeqCst);
    }
    if let (true, Some(order)) = (sc.socks, sc.shared) {
        run_shared(&w, &sc, order, nonce, &mut rng, &mut out).await;
        return out;
    }
    let mut clients = vec![];
    for _ in 0..sc.clients {
        let sock = match UdpSocket::bind(w.udp_client_bind(sc.socks, &sc.targets)).await {
            Ok(s) => s,
            Err(e) => {
                out.infra = Some(format!("bind: {e}"));
                return out;
            }
        };
        let addr = sock.local_addr().unwrap();
        let shared_relay = sc.oneway.as_ref().filter(|o| o.shared).and_then(|_| clients.first()).and_then(|c: &Client| c.relay);
        let (ctl, relay) = if let Some(r) = shared_relay {
            // a second local socket using the association of client 0
            (None, Some(r))
        } else if sc.socks {
            match associate(&w).await {
                Ok((c, r)) => (Some(c), Some(r)),
                Err(e) => {
                    let k = if e.starts_with("HANG") { "socks5-associate-hangs" } else { "socks5-associate-failed" };
                    out.bad.push((k.into(), e));
                    return out;
                }
            }
        } else {
            (None, None)
        };
        clients.push(Client { sock, addr, relay, ctl });
    }
    let mut seq = 0u32;
    // the other local socket of the junk scenarios: it never sends anything valid
    let stranger = match &sc.junk {
        Some(j) if j.other => match UdpSocket::bind(w.udp_client_bind(sc.socks, &sc.targets)).await {
            Ok(s) => Some(s),
            Err(e) => {
                out.infra = Some(format!("bind: {e}"));
                return out;
            }
        },
        _ => None,
    };
    let mut junk_sent: Option<String> = None;
    if let Some(j) = sc.junk.as_ref().filter(|j| j.before) {
        junk_sent = send_junk(&w, &sc, j, &clients, stranger.as_ref(), nonce, &mut out).await;
        if !out.bad.is_empty() || out.infra.is_some() {
            return out;
        }
    }
    // long flow: the same exchanges again and again on the same sockets (no pause: one flow per client socket on the
    // server all along); only the last one listens on for stray datagrams, a stray one is seen by the next exchange
    let rounds = sc.rounds.max(1);
    let mut reply_bytes = 0usize; // per client and target, so far
    for r in 0..rounds {
        for (k, len) in sc.sizes.iter().enumerate() {
            seq += 1;
            let last = r + 1 == rounds && k + 1 == sc.sizes.len();
            let tail = Duration::from_millis(if rounds > 1 && !last { 0 } else { 40 });
            round_tail(&w, &sc, &clients, *len, seq, nonce, &mut rng, tail, &mut out).await;
            if !out.bad.is_empty() || out.infra.is_some() {
                if rounds > 1 {
                    for b in &mut out.bad {
                        b.0 = format!("long-flow:{}", b.0);
                        b.1 = format!(
                            "exchange {} of {} on the same sockets ({} bytes of replies had come back per client and target before; {} target(s), {} replies each): {}",
                            r * sc.sizes.len() + k + 1,
                            rounds * sc.sizes.len(),
                            reply_bytes,
                            sc.targets.len(),
                            sc.replies,
                            b.1
                        );
                    }
                }
                if let (Some(j), Some(what)) = (&sc.junk, &junk_sent) {
                    after_junk(j, what, &clients, &mut out);
                }
                return out;
            }
            reply_bytes += (*len + 2) * sc.replies;
        }
    }
    if let Some(j) = sc.junk.as_ref().filter(|j| !j.before) {
        junk_sent = send_junk(&w, &sc, j, &clients, stranger.as_ref(), nonce, &mut out).await;
        if !out.bad.is_empty() || out.infra.is_some() {
            return out;
        }
        seq += 1;
        round(&w, &sc, &clients, 34, seq, nonce, &mut rng, &mut out).await;
        if !out.bad.is_empty() || out.infra.is_some() {
            if let Some(what) = &junk_sent {
                after_junk(j, what, &clients, &mut out);
            }
            return out;
        }
    }
    if let Some(ow) = &sc.oneway {
        let before = out.bad.len();
        one_way(&w, &sc, ow, &clients, &mut seq, nonce, &mut rng, &mut out).await;
        for t in &w.udp_targets {
            t.replies.store(sc.replies, Ordering::SeqCst);
        }
        if out.bad.len() > before {
            for b in &mut out.bad[before..] {
                b.0 = format!("after-one-way:{}", b.0);
            }
            return out;
        }
        if out.infra.is_some() {
            return out;
        }
    }
    if sc.idle_ms > 0 {
        tokio::time::sleep(Duration::from_millis(sc.idle_ms)).await;
        for k in 0..2 {
            seq += 1;
            round(&w, &sc, &clients, 32 + k, seq, nonce, &mut rng, &mut out).await;
            if !out.bad.is_empty() {
                for b in &mut out.bad {
                    b.0 = format!("after-idle:{}", b.0);
                    b.1 = format!("after {} ms without traffic on the same sockets: {}", sc.idle_ms, b.1);
                }
                return out;
            }
        }
    }
    check_maps(&w, &sc, &clients, &mut out);
    out
}
