//! C01 (glue): the real `rusty_penguin_lib::arg::Remote` parser (`impl FromStr for Remote`,
//! `penguin/src/arg/remote_spec.rs`) and its `Display`, run in-process, against
//!   * the Lean model `Penguin.RemoteSpec` (`drv_remotespec`): every field of an accepted remote,
//!     the error variant and its payload of a rejected one (`FailKind::Model`), the rendered text of
//!     `Display`, and `u16::from_str` on its own;
//!   * monitors that do not consult the model (`FailKind::Impl`):
//!       `panic`                    no input makes `from_str` / `to_string` panic (the two `unreachable!`s),
//!       `display-parse-roundtrip`  a well-formed value (the side conditions of the Lean theorem
//!                                  `remote_display_parse_roundtrip`, idna = identity checked against the
//!                                  real `idna::domain_to_ascii`) is re-read from its own `Display` text,
//!       `target-differs-from-text` for the fixed-target forms the generator assembles the text from
//!                                  parts (hosts, ports written `80` / `+80` / `0080`, `stdio`, `[unix:…]`,
//!                                  suffix) and knows from the parts which listener and target must come out,
//!       `entry-kind-differs`       same for `socks` / `http` / `tproxy` forms, including the refusals.
//!
//! The two black boxes of the model are answered with the real functions: the driver first says
//! which strings it will ask about (`pre`), the harness calls `str::to_lowercase` and
//! `idna::domain_to_ascii` on exactly those, and hands the answers over with the `parse` request.
//!
//! Non-trivial case: the text gets past the protocol split and the tokenizer (an arm of
//! `match tokens[..]` is evaluated); distinct by text.

use pvhf::*;
use rusty_penguin_lib::arg::{LocalSpec, Protocol, Remote, RemoteSpec};
use std::num::IntErrorKind;
use std::path::PathBuf;
use std::str::FromStr;

type RErr = <Remote as FromStr>::Err;

// ---------------------------------------------------------------------------------------------
// Canonical rendering (same shape as the driver's, without `arm=`)
// ---------------------------------------------------------------------------------------------

fn hs(s: &str) -> String {
    hexd(s.as_bytes())
}

fn kind_name(k: &IntErrorKind) -> &'static str {
    match k {
        IntErrorKind::Empty => "Empty",
        IntErrorKind::InvalidDigit => "InvalidDigit",
        IntErrorKind::PosOverflow => "PosOverflow",
        IntErrorKind::NegOverflow => "NegOverflow",
        IntErrorKind::Zero => "Zero",
        _ => "Other",
    }
}

fn canon_local(l: &LocalSpec) -> String {
    match l {
        LocalSpec::Inet((h, p)) => format!("inet:{}:{}", hs(h), p),
        LocalSpec::Stdio => "stdio".into(),
        LocalSpec::DomainSocket(p) => format!("unix:{}", hs(p.to_str().expect("paths come from &str"))),
    }
}

fn canon_remote(r: &RemoteSpec) -> String {
    match r {
        RemoteSpec::Inet((h, p)) => format!("inet:{}:{}", hs(h), p),
        RemoteSpec::Socks => "socks".into(),
        RemoteSpec::Http => "http".into(),
        RemoteSpec::Tproxy => "tproxy".into(),
    }
}

fn canon_proto(p: Protocol) -> &'static str {
    match p {
        Protocol::Tcp => "tcp",
        Protocol::Udp => "udp",
    }
}

fn canon_value(r: &Remote) -> String {
    format!("local={} remote={} proto={}", canon_local(&r.local_addr), canon_remote(&r.remote_addr), canon_proto(r.protocol))
}

fn canon_err(e: &RErr) -> String {
    match e {
        RErr::EmptySegment => "err EmptySegment".into(),
        RErr::BracketMismatch => "err BracketMismatch".into(),
        RErr::GarbageAfterAddress(c) => format!("err GarbageAfterAddress {}", *c as u32),
        RErr::Port(t, k) => format!("err Port {} {}", hs(t), kind_name(k)),
        RErr::Protocol(t) => format!("err Protocol {}", hs(t)),
        RErr::UnsupportedCombination(a, b) => format!("err UnsupportedCombination {} {}", hs(a), hs(b)),
        RErr::TooManySegments => "err TooManySegments".into(),
        RErr::InvalidDomain(t) => format!("err InvalidDomain {}", hs(t)),
    }
}

fn err_variant(line: &str) -> String {
    line.split_whitespace().nth(1).unwrap_or("?").to_string()
}

/// The real parser on `s`: canonical line, or `Err(panic message)`.
fn real_parse(s: &str) -> Result<String, String> {
    catch(|| match Remote::from_str(s) {
        Ok(r) => format!("ok {}", canon_value(&r)),
        Err(e) => canon_err(&e),
    })
}

fn strip_arm(line: &str) -> (String, String) {
    // "ok arm=X rest" -> ("ok rest", "X")
    let mut it = line.splitn(3, ' ');
    let head = it.next().unwrap_or("");
    let arm = it.next().unwrap_or("");
    let rest = it.next().unwrap_or("");
    match arm.strip_prefix("arm=") {
        Some(a) => (format!("{head} {rest}"), a.to_string()),
        None => (line.to_string(), "?".into()),
    }
}

fn value_from_canon(local: &str, remote: &str, proto: &str) -> Option<Remote> {
    let unh = |h: &str| String::from_utf8(unhex(h)?).ok();
    let l = {
        let t: Vec<&str> = local.split(':').collect();
        match t.as_slice() {
            ["stdio"] => LocalSpec::Stdio,
            ["unix", p] => LocalSpec::DomainSocket(PathBuf::from(unh(p)?)),
            ["inet", h, p] => LocalSpec::Inet((unh(h)?, p.parse().ok()?)),
            _ => return None,
        }
    };
    let r = {
        let t: Vec<&str> = remote.split(':').collect();
        match t.as_slice() {
            ["socks"] => RemoteSpec::Socks,
            ["http"] => RemoteSpec::Http,
            ["tproxy"] => RemoteSpec::Tproxy,
            ["inet", h, p] => RemoteSpec::Inet((unh(h)?, p.parse().ok()?)),
            _ => return None,
        }
    };
    let p = match proto {
        "tcp" => Protocol::Tcp,
        "udp" => Protocol::Udp,
        _ => return None,
    };
    Some(Remote { local_addr: l, remote_addr: r, protocol: p })
}

// ---------------------------------------------------------------------------------------------
// Pools
// ---------------------------------------------------------------------------------------------

const PORTS: &[&str] = &[
    "80", "0", "1", "443", "3000", "8080", "65535", "65536", "65534", "+80", "+0", "+65535", "+65536", "065536", "0065535", "00080",
    "", "99999", "100000", "99999999999", "18446744073709551616", "-1", "-0", "8o", "+", "-", "++80", "+-80", "80 ", " 80", "８０", "1e3", "0x50",
    "80a", "a80", "6553６", "1_000", "٣", "80\t", "0000000000000000000080", "655350",
];

const HOSTS: &[&str] = &[
    "127.0.0.1", "0.0.0.0", "192.168.0.5", "example.com", "EXAMPLE.COM", "Example.Com.", "example.com.", "localhost", "a", "R",
    "[::1]", "[::]", "[2001:db8::1]", "[fe80::1%eth0]", "[FE80::1%ETH0]", "[::ffff:1.2.3.4]", "[example.com]", "[127.0.0.1]",
    "中文.com", "bücher.example", "BÜCHER.example", "xn--bcher-kva.example", "xn--", "xn--a", "xn--0", "a..b", ".", "a b", "a\u{200d}b", "\u{fffd}.com",
    "a/b.example", "/", "a/", "[a/b]", "[fe80::1%eth/0]", "[::1/64]", "a%b", "a_b.example", "-a-.example", "1.2.3", "0x7f.1", "999.1.1.1",
    "stdio", "STDIO", "Stdio", "[stdio]", "socks", "http", "tproxy", "SOCKS", "Http", "[socks]", "[http]", "[tproxy]", "tcp", "udp",
    "unix:/tmp/s", "unix", "[unix:/tmp/sock]", "[unix:]", "[unix:/path/with/slashes]", "[unix:/p:q]", "[unix:rel/p]", "[UNIX:/tmp/s]", "[unix:/tmp/中]",
    "[unix/tmp]", "[xunix:/a]", "[unix:/a b]",
];

const BROKEN: &[&str] = &[
    "[", "]", "[]", "[::1", "::1]", "[::1]x", "[::1]]", "[[::1]]", "[::1][::2]", "a]b", "a[b", "a[b]", "[a]b]", "[]x", "[a]/", "[a]é", "::1", "::", ":",
    "[a]:", "[:]", "[]]", "[[]", "x[", "[a]  ", "[\u{0}]",
];

const SPECIALS: &[&str] = &["socks", "http", "tproxy"];
const ODD_SPECIALS: &[&str] = &["SOCKS", "Socks", "HTTP", "Tproxy", "socks ", " http", "socks5", "https", "sock", "[socks]", "[http]", "[tproxy]"];

const SUFFIXES: &[&str] = &[
    "", "", "", "/tcp", "/udp", "/UDP", "/TCP", "/Tcp", "/uDp", "/x", "/", "//", "/tcp/", "/tcp/udp", "/udp/tcp", "/ud:p", "/:", "/tcp:", "/ tcp", "/tcp ",
    "/İ", "/TCPΣ", "/\u{212a}", "/ＴＣＰ", "/UDP\u{307}", "/icmp", "/udp6", "/t", "/80",
];

/// Specs that are accepted (seeds for mutations and prefixes); the crate's own test table plus more.
const VALID: &[&str] = &[
    "3000", "4000/udp", "google.com:80", "3000:google.com:80", "192.168.0.5:3000:google.com:80", "socks", "5000:socks", "http", "5000:http",
    "tproxy", "tproxy/udp", "5000:tproxy", "[::1]:12345:tproxy/udp", "stdio:example.com:22", "stdio:22", "stdio:socks", "stdio:http",
    "1.1.1.1:53/udp", "[::1]:8080:[2001:db8::1]:80", "[unix:/tmp/sock]:socks", "[unix:/tmp/sock]:http", "[unix:/tmp/sock]:80",
    "[unix:/tmp/sock]:example.com:80", "[fe80::1%eth0]:53:[fe80::2%eth1]:53/UDP", "127.0.0.1:1080:socks", "localhost:8080:http/tcp",
    "+80", "0080:EXAMPLE.com:+443/TCP", "stdio:[::1]:22/udp", "[unix:/p:q/r]:[::1]:22", "8000:中文.com:80",
];

const ALPHABET: &[char] = &[
    ':', ':', ':', '[', ']', '/', '/', '+', '-', '0', '1', '5', '6', '8', '9', 'a', 's', 'o', 'c', 'k', 't', 'p', 'u', 'd', 'x', 'n', 'i', 'S', 'T', 'U', '.', '%', ' ',
    'é', '中', 'İ', 'Σ', '\u{212a}', '\u{0}', '\u{200d}', '８',
];

// ---------------------------------------------------------------------------------------------
// Context: cases are queued, then evaluated in two driver rounds
// ---------------------------------------------------------------------------------------------

#[derive(Clone)]
struct Case {
    text: String,
    origin: &'static str,
    /// For structured forms: the canonical line the generator expects from the parts it assembled.
    expect: Option<(String, &'static str)>,
}

struct Ctx {
    rep: Report,
    drv: Option<Driver>,
    pending: Vec<Case>,
    reparse_examples: Vec<String>,
}

fn idna_answer(t: &str) -> Option<String> {
    idna::domain_to_ascii(t).ok()
}

/// Ask the model about one text (two rounds). `None` without a driver.
fn model_line(drv: &mut Driver, text: &str) -> String {
    let pre = drv.ask(&format!("pre {}", hs(text)));
    parse_request(text, &pre).map_or_else(|| format!("bad-pre {pre}"), |req| drv.ask(&req))
}

fn parse_request(text: &str, pre: &str) -> Option<String> {
    let rest = pre.strip_prefix("pre proto=")?;
    let (p, toks) = rest.split_once(" toks=")?;
    let lower = if p == "none" {
        "none".to_string()
    } else {
        let proto = String::from_utf8(unhex(p)?).ok()?;
        hs(&proto.to_lowercase())
    };
    let table = if toks == "-" {
        "-".to_string()
    } else {
        let mut v = vec![];
        for t in toks.split(',') {
            let tok = String::from_utf8(unhex(t)?).ok()?;
            v.push(match idna_answer(&tok) {
                Some(a) if a.is_empty() => return Some(format!("idna-empty {t}")),
                Some(a) => format!("{t}={}", hs(&a)),
                None => format!("{t}=!"),
            });
        }
        v.join(",")
    };
    Some(format!("parse {} {lower} {table}", hs(text)))
}

impl Ctx {
    fn push(&mut self, c: Case) {
        self.pending.push(c);
        if self.pending.len() >= 4096 {
            self.flush();
        }
    }

    fn text(&mut self, text: String, origin: &'static str) {
        self.push(Case { text, origin, expect: None });
    }

    fn flush(&mut self) {
        let cases = std::mem::take(&mut self.pending);
        if cases.is_empty() {
            return;
        }
        // model side, two rounds
        let model: Option<Vec<String>> = self.drv.as_mut().map(|d| {
            let pre = d.batch(&cases.iter().map(|c| format!("pre {}", hs(&c.text))).collect::<Vec<_>>());
            let reqs: Vec<String> = cases
                .iter()
                .zip(&pre)
                .map(|(c, p)| parse_request(&c.text, p).unwrap_or_else(|| format!("bad-pre {p}")))
                .collect();
            d.batch(&reqs)
        });
        for (i, c) in cases.iter().enumerate() {
            self.rep.count(&format!("origin:{}", c.origin));
            let real = real_parse(&c.text);
            let real_line = match &real {
                Ok(l) => l.clone(),
                Err(msg) => {
                    let text = c.text.clone();
                    let small: String = shrink_list(text.chars().collect::<Vec<char>>(), |cs| real_parse(&cs.iter().collect::<String>()).is_err())
                        .into_iter()
                        .collect();
                    self.rep.fail(
                        FailKind::Impl,
                        "remotespec:panic",
                        &format!("Remote::from_str({small:?}) panicked: {msg}"),
                        json!({"op": "panic", "text_hex": hs(&small)}),
                    );
                    format!("panic {msg}")
                }
            };
            // distribution of result kinds (real side)
            if real_line.starts_with("ok ") {
                self.rep.count("result:ok");
            } else if real_line.starts_with("err ") {
                let v = err_variant(&real_line);
                self.rep.count(&format!("result:err:{v}"));
                if v == "Port" {
                    self.rep.count(&format!("port-err:{}", real_line.split_whitespace().nth(3).unwrap_or("?")));
                }
                if v == "UnsupportedCombination" {
                    let a: Vec<&str> = real_line.split_whitespace().collect();
                    let t = |h: &str| String::from_utf8(unhex(h).unwrap_or_default()).unwrap_or_default();
                    self.rep.count(&format!("combo:{} + {}", t(a[2]), t(a[3])));
                }
            } else {
                self.rep.count("result:panic");
            }
            let mut nontrivial = false;
            if let Some(m) = &model {
                let (mline, arm) = strip_arm(&m[i]);
                self.rep.model_compared += 1;
                if arm != "-" && arm != "?" {
                    nontrivial = true;
                    self.rep.count(&format!("arm:{arm}"));
                }
                if mline != real_line {
                    // shrink on "model and implementation still disagree"
                    let drv = self.drv.as_mut().expect("driver");
                    let small: String = shrink_list(c.text.chars().collect::<Vec<char>>(), |cs| {
                        let t: String = cs.iter().collect();
                        let r = real_parse(&t).unwrap_or_else(|m| format!("panic {m}"));
                        strip_arm(&model_line(drv, &t)).0 != r
                    })
                    .into_iter()
                    .collect();
                    let r = real_parse(&small).unwrap_or_else(|m| format!("panic {m}"));
                    let ml = model_line(drv, &small);
                    self.rep.fail(
                        FailKind::Model,
                        &format!("remotespec:model:{}", err_variant(&r)),
                        &format!("Remote::from_str({small:?}): implementation `{r}`, model `{ml}`"),
                        json!({"op": "parse", "text_hex": hs(&small)}),
                    );
                }
            } else if real_line.starts_with("ok ") || matches!(err_variant(&real_line).as_str(), "Port" | "InvalidDomain" | "UnsupportedCombination") {
                nontrivial = true;
            }
            self.rep.case(if nontrivial { Some(fnv(c.text.as_bytes())) } else { None });
            // structured expectation (independent of the model)
            if let Some((want, key)) = &c.expect {
                self.rep.count(&format!("monitor:{key}"));
                if &real_line != want {
                    self.rep.fail(
                        FailKind::Impl,
                        &format!("remotespec:{key}"),
                        &format!("Remote::from_str({:?}) gave `{real_line}`, the parts it was assembled from say `{want}`", c.text),
                        json!({"op": "expect", "text_hex": hs(&c.text), "expect": want, "key": key}),
                    );
                }
            }
            // observation: does an accepted remote re-read from its own Display text?
            if let Ok(l) = &real {
                if l.starts_with("ok ") {
                    let again = catch(|| {
                        let r = Remote::from_str(&c.text).expect("accepted above");
                        let shown = r.to_string();
                        (shown.clone(), Remote::from_str(&shown).map(|r2| r2 == r && canon_value(&r2) == canon_value(&r)).unwrap_or(false))
                    });
                    match again {
                        Ok((_, true)) => self.rep.count("reparse-of-accepted:same"),
                        Ok((shown, false)) => {
                            self.rep.count("reparse-of-accepted:differs");
                            // one example per kind of read-back result
                            let back = real_parse(&shown).unwrap_or_default();
                            let kind: String = back.split_whitespace().take(2).collect::<Vec<_>>().join(" ");
                            if self.reparse_examples.len() < 8 && !self.reparse_examples.iter().any(|e| e.ends_with(&format!("[{kind}]"))) {
                                self.reparse_examples.push(format!("{:?} is accepted, is displayed as {shown:?}, which reads back as `{back}` [{kind}]", c.text));
                            }
                        }
                        Err(msg) => self.rep.fail(
                            FailKind::Impl,
                            "remotespec:panic",
                            &format!("to_string / re-parse of the remote parsed from {:?} panicked: {msg}", c.text),
                            json!({"op": "panic", "text_hex": hs(&c.text)}),
                        ),
                    }
                }
            }
            if i < 3 {
                self.rep.sample(json!({"text": c.text, "impl": real_line, "origin": c.origin}));
            }
        }
    }
}

// ---------------------------------------------------------------------------------------------
// Generators
// ---------------------------------------------------------------------------------------------

fn pick_s(rng: &mut Rng, xs: &[&str]) -> String {
    (*rng.pick(xs)).to_string()
}

fn any_segment(rng: &mut Rng) -> String {
    match rng.below(10) {
        0..=2 => pick_s(rng, PORTS),
        3..=5 => pick_s(rng, HOSTS),
        6 => pick_s(rng, SPECIALS),
        7 => pick_s(rng, ODD_SPECIALS),
        8 => pick_s(rng, BROKEN),
        _ => "stdio".into(),
    }
}

/// A skeleton of one of the documented forms, each piece replaced by an arbitrary pool item now and then.
fn formish(rng: &mut Rng) -> String {
    let port = |rng: &mut Rng| if rng.chance(1, 6) { any_segment(rng) } else { pick_s(rng, PORTS) };
    let host = |rng: &mut Rng| if rng.chance(1, 6) { any_segment(rng) } else { pick_s(rng, HOSTS) };
    let special = |rng: &mut Rng| if rng.chance(1, 6) { pick_s(rng, ODD_SPECIALS) } else { pick_s(rng, SPECIALS) };
    let unix = |rng: &mut Rng| pick_s(rng, &["[unix:/tmp/sock]", "[unix:]", "[unix:/p:q]", "unix:/tmp/s", "[unix:/a/b/c]", "[UNIX:/x]"]);
    let segs: Vec<String> = match rng.below(16) {
        0 => vec![special(rng)],
        1 => vec![port(rng)],
        2 => vec!["stdio".into(), special(rng)],
        3 => vec!["stdio".into(), port(rng)],
        4 => vec![unix(rng), special(rng)],
        5 => vec![port(rng), special(rng)],
        6 => vec![unix(rng), port(rng)],
        7 => vec![host(rng), port(rng)],
        8 => vec!["stdio".into(), host(rng), port(rng)],
        9 => vec![host(rng), port(rng), special(rng)],
        10 => vec![unix(rng), host(rng), port(rng)],
        11 => vec![port(rng), host(rng), port(rng)],
        12 | 13 => vec![host(rng), port(rng), host(rng), port(rng)],
        14 => vec![host(rng), port(rng), host(rng), port(rng), any_segment(rng)],
        _ => vec![any_segment(rng), any_segment(rng), any_segment(rng), any_segment(rng), any_segment(rng), any_segment(rng)],
    };
    format!("{}{}", segs.join(":"), rng.pick(SUFFIXES))
}

fn random_segments(rng: &mut Rng) -> String {
    let n = rng.range(1, 5);
    let segs: Vec<String> = (0..n).map(|_| any_segment(rng)).collect();
    format!("{}{}", segs.join(":"), rng.pick(SUFFIXES))
}

fn mutate(rng: &mut Rng, s: &str) -> String {
    let mut cs: Vec<char> = s.chars().collect();
    for _ in 0..rng.range(1, 3) {
        let n = cs.len();
        match rng.below(6) {
            0 if n > 0 => {
                cs.remove(rng.below(n as u64) as usize);
            }
            1 => cs.insert(rng.below(n as u64 + 1) as usize, *rng.pick(ALPHABET)),
            2 if n > 0 => cs[rng.below(n as u64) as usize] = *rng.pick(ALPHABET),
            3 if n > 0 => {
                let i = rng.below(n as u64) as usize;
                cs.insert(i, cs[i]);
            }
            4 if n > 1 => {
                let i = rng.below(n as u64 - 1) as usize;
                cs.swap(i, i + 1);
            }
            _ if n > 0 => {
                let i = rng.below(n as u64) as usize;
                let c = cs[i];
                cs[i] = if c.is_ascii_lowercase() { c.to_ascii_uppercase() } else { c.to_ascii_lowercase() };
            }
            _ => {}
        }
    }
    cs.into_iter().collect()
}

/// A port number with one of the spellings `u16::from_str` accepts.
fn port_spelling(rng: &mut Rng) -> (String, u16) {
    let n: u16 = match rng.below(6) {
        0 => 0,
        1 => 65535,
        2 => *rng.pick(&[1u16, 22, 53, 80, 443, 1080, 8080, 8081, 9, 10, 99, 100, 999, 1000, 9999, 10000, 65534]),
        _ => rng.below(65536) as u16,
    };
    let s = match rng.below(8) {
        0 => format!("+{n}"),
        1 => format!("{n:05}"),
        2 => format!("0{n}"),
        3 => format!("+000{n}"),
        _ => n.to_string(),
    };
    (s, n)
}

/// A host as written (brackets included) and the text the parser must hand to idna (brackets removed),
/// or `None` when the real idna rejects it.
fn good_host(rng: &mut Rng) -> Option<(String, String)> {
    const GOOD: &[&str] = &[
        "127.0.0.1", "0.0.0.0", "example.com", "EXAMPLE.COM", "Example.Com.", "localhost", "a", "R", "[::1]", "[::]", "[2001:db8::1]", "[fe80::1%eth0]",
        "[FE80::1%ETH0]", "[example.com]", "[127.0.0.1]", "中文.com", "bücher.example", "xn--bcher-kva.example", "a/b.example", "[a/b]", "[fe80::1%eth/0]",
        "[::1/64]", "socks", "http", "tproxy", "SOCKS", "[socks]", "[stdio]", "STDIO", "[unix:/tmp/x]", "tcp", "udp", "a_b.example", "1.2.3", "x]y", "80",
    ];
    let w = *rng.pick(GOOD);
    let inner = w.strip_prefix('[').and_then(|x| x.strip_suffix(']')).unwrap_or(w);
    idna_answer(inner).map(|a| (w.to_string(), a))
}

fn suffix(rng: &mut Rng) -> (&'static str, &'static str) {
    *rng.pick(&[("", "tcp"), ("", "tcp"), ("/tcp", "tcp"), ("/TCP", "tcp"), ("/Tcp", "tcp"), ("/udp", "udp"), ("/UDP", "udp"), ("/uDp", "udp")])
}

fn unix_path(rng: &mut Rng) -> String {
    pick_s(rng, &["/tmp/sock", "", "/path/with/slashes", "/p:q", "rel/p", "/tmp/中", "/a b", "/a[b", "/tmp/x/", "//x", "/a/./b", ":", "/udp"])
}

fn combo(a: &str, b: &str) -> String {
    format!("err UnsupportedCombination {} {}", hs(a), hs(b))
}

/// Fixed-target forms: text and the canonical result that the parts say must come out.
fn target_case(rng: &mut Rng) -> Option<Case> {
    let (sfx, proto) = suffix(rng);
    let (rp_s, rp) = port_spelling(rng);
    let (lp_s, lp) = port_spelling(rng);
    let rp_s = if rng.chance(1, 12) { format!("[{rp_s}]") } else { rp_s };
    let ok = |l: String, r: String| format!("ok local={l} remote={r} proto={proto}");
    let inet = |h: &str, p: u16| format!("inet:{}:{p}", hs(h));
    let (text, want) = match rng.below(8) {
        0 => (rp_s.clone(), ok(inet("0.0.0.0", rp), inet("127.0.0.1", rp))),
        1 => {
            let (hw, ha) = good_host(rng)?;
            let inner = hw.strip_prefix('[').and_then(|x| x.strip_suffix(']')).unwrap_or(&hw);
            if inner == "stdio" || inner.starts_with("unix:") {
                return None; // these are the stdio / unix forms, generated below
            }
            (format!("{hw}:{rp_s}"), ok(inet("0.0.0.0", rp), inet(&ha, rp)))
        }
        2 => {
            let (hw, ha) = good_host(rng)?;
            (format!("{lp_s}:{hw}:{rp_s}"), ok(inet("0.0.0.0", lp), inet(&ha, rp)))
        }
        3 => {
            let (hw, ha) = good_host(rng)?;
            let (lw, la) = good_host(rng)?;
            (format!("{lw}:{lp_s}:{hw}:{rp_s}"), ok(inet(&la, lp), inet(&ha, rp)))
        }
        4 => (format!("stdio:{rp_s}"), ok("stdio".into(), inet("127.0.0.1", rp))),
        5 => {
            let (hw, ha) = good_host(rng)?;
            (format!("stdio:{hw}:{rp_s}"), ok("stdio".into(), inet(&ha, rp)))
        }
        6 => {
            let p = unix_path(rng);
            let want = if proto == "udp" { combo("unix domain socket local", "udp") } else { ok(format!("unix:{}", hs(&p)), inet("127.0.0.1", rp)) };
            (format!("[unix:{p}]:{rp_s}"), want)
        }
        _ => {
            let p = unix_path(rng);
            let (hw, ha) = good_host(rng)?;
            let want = if proto == "udp" { combo("unix domain socket local", "udp") } else { ok(format!("unix:{}", hs(&p)), inet(&ha, rp)) };
            (format!("[unix:{p}]:{hw}:{rp_s}"), want)
        }
    };
    Some(Case { text: format!("{text}{sfx}"), origin: "target-form", expect: Some((want, "target-differs-from-text")) })
}

/// Entry-kind forms (`socks` / `http` / `tproxy` last), acceptances and refusals.
fn entry_case(rng: &mut Rng) -> Option<Case> {
    let (sfx, proto) = suffix(rng);
    let kw = *rng.pick(SPECIALS);
    let kw_w = if rng.chance(1, 10) { format!("[{kw}]") } else { kw.to_string() };
    let (lp_s, lp) = port_spelling(rng);
    let def_port = match kw {
        "socks" => 1080,
        "http" => 8080,
        _ => 8081,
    };
    let inet = |h: &str, p: u16| format!("inet:{}:{p}", hs(h));
    let sh_udp = kw != "tproxy" && proto == "udp";
    let fin = |local: String| if sh_udp { combo("socks or http local", "udp") } else { format!("ok local={local} remote={kw} proto={proto}") };
    let (text, want) = match rng.below(5) {
        0 => (kw_w.clone(), fin(inet("127.0.0.1", def_port))),
        1 => (format!("{lp_s}:{kw_w}"), fin(inet("127.0.0.1", lp))),
        2 => {
            let (lw, la) = good_host(rng)?;
            let inner = lw.strip_prefix('[').and_then(|x| x.strip_suffix(']')).unwrap_or(&lw);
            if inner == "stdio" {
                return None; // `stdio:<port>:socks` is the stdio form with host `<port>` and port `socks`
            }
            (format!("{lw}:{lp_s}:{kw_w}"), fin(inet(&la, lp)))
        }
        3 => {
            let st = if rng.chance(1, 8) { "[stdio]" } else { "stdio" };
            let want = if kw == "tproxy" { combo("stdio local", "tproxy remote") } else { fin("stdio".into()) };
            (format!("{st}:{kw_w}"), want)
        }
        _ => {
            let p = unix_path(rng);
            let want = if sh_udp {
                combo("socks or http local", "udp")
            } else if proto == "udp" {
                combo("unix domain socket local", "udp")
            } else if kw == "tproxy" {
                combo("unix domain socket local", "tproxy remote")
            } else {
                format!("ok local=unix:{} remote={kw} proto={proto}", hs(&p))
            };
            (format!("[unix:{p}]:{kw_w}"), want)
        }
    };
    Some(Case { text: format!("{text}{sfx}"), origin: "entry-form", expect: Some((want, "entry-kind-differs")) })
}

// ---------------------------------------------------------------------------------------------
// Well-formed values: Display, then parse
// ---------------------------------------------------------------------------------------------

/// The side conditions of `Penguin.C01.remote_display_parse_roundtrip` on one host.
fn host_wf(h: &str) -> bool {
    !h.is_empty() && (if h.contains(':') { !h.contains(']') } else { !h.starts_with('[') }) && idna_answer(h).as_deref() == Some(h)
}

fn wf_host(rng: &mut Rng) -> String {
    const H: &[&str] = &[
        "127.0.0.1", "0.0.0.0", "example.com", "example.com.", "localhost", "a", "r", "::1", "::", "2001:db8::1", "fe80::1%eth0", "xn--bcher-kva.example",
        "a/b.example", "/", "fe80::1%eth/0", "::1/64", "socks", "http", "tproxy", "stdio", "unix:/tmp/x", "unix:", "tcp", "udp", "x]y", "]", "[a:b", "a:[b", "80",
        "a_b.example", "1.2.3", "a%b", "unix", "[::1", "stdio:", "a/udp", "x/tcp:y",
    ];
    pick_s(rng, H)
}

fn wf_value(rng: &mut Rng) -> Option<Remote> {
    let port = |rng: &mut Rng| match rng.below(4) {
        0 => 0u16,
        1 => 65535,
        _ => rng.below(65536) as u16,
    };
    let remote = match rng.below(6) {
        0 => RemoteSpec::Socks,
        1 => RemoteSpec::Http,
        2 => RemoteSpec::Tproxy,
        _ => RemoteSpec::Inet((wf_host(rng), port(rng))),
    };
    let special = !matches!(remote, RemoteSpec::Inet(_));
    let local = match rng.below(5) {
        0 => LocalSpec::Stdio,
        1 => LocalSpec::DomainSocket(PathBuf::from(unix_path(rng))),
        _ => LocalSpec::Inet((wf_host(rng), port(rng))),
    };
    let protocol = if rng.chance(1, 2) { Protocol::Udp } else { Protocol::Tcp };
    // side conditions
    if let RemoteSpec::Inet((h, _)) = &remote {
        if !host_wf(h) {
            return None;
        }
    }
    match &local {
        LocalSpec::Inet((h, _)) => {
            if !host_wf(h) || (special && h == "stdio") {
                return None;
            }
        }
        LocalSpec::Stdio => {
            if remote == RemoteSpec::Tproxy {
                return None;
            }
        }
        LocalSpec::DomainSocket(p) => {
            if p.to_str()?.contains(']') || protocol == Protocol::Udp || remote == RemoteSpec::Tproxy {
                return None;
            }
        }
    }
    if matches!(remote, RemoteSpec::Socks | RemoteSpec::Http) && protocol == Protocol::Udp {
        return None;
    }
    Some(Remote { local_addr: local, remote_addr: remote, protocol })
}

fn roundtrip_check(r: &Remote) -> Result<String, String> {
    // Ok(display text) when the value re-reads as itself, Err(description) otherwise
    let shown = catch(|| r.to_string()).map_err(|m| format!("to_string panicked: {m}"))?;
    let back = real_parse(&shown).map_err(|m| format!("from_str({shown:?}) panicked: {m}"))?;
    let want = format!("ok {}", canon_value(r));
    if back == want { Ok(shown) } else { Err(format!("displayed as {shown:?}, read back as `{back}`, expected `{want}`")) }
}

fn roundtrip_part(cx: &mut Ctx, rng: &mut Rng, n: usize) {
    let mut vals = vec![];
    let mut tries = 0;
    while vals.len() < n && tries < n * 20 {
        tries += 1;
        match wf_value(rng) {
            Some(v) => vals.push(v),
            None => cx.rep.count("wf-value:rejected-by-side-condition"),
        }
    }
    let shown_model: Option<Vec<String>> = cx.drv.as_mut().map(|d| {
        d.batch(
            &vals
                .iter()
                .map(|v| format!("display {} {} {}", canon_local(&v.local_addr), canon_remote(&v.remote_addr), canon_proto(v.protocol)))
                .collect::<Vec<_>>(),
        )
    });
    for (i, v) in vals.iter().enumerate() {
        cx.rep.count("monitor:display-parse-roundtrip");
        cx.rep.count(&format!(
            "wf-value:{}+{}",
            match v.local_addr {
                LocalSpec::Inet(_) => "inet",
                LocalSpec::Stdio => "stdio",
                LocalSpec::DomainSocket(_) => "unix",
            },
            match v.remote_addr {
                RemoteSpec::Inet(_) => "inet",
                RemoteSpec::Socks => "socks",
                RemoteSpec::Http => "http",
                RemoteSpec::Tproxy => "tproxy",
            }
        ));
        cx.rep.case(Some(fnv(canon_value(v).as_bytes())));
        match roundtrip_check(v) {
            Ok(shown) => {
                if let Some(m) = &shown_model {
                    cx.rep.model_compared += 1;
                    let want = format!("text {}", hs(&shown));
                    if m[i] != want {
                        cx.rep.fail(
                            FailKind::Model,
                            "remotespec:model:display",
                            &format!("Display of {}: implementation {shown:?}, model `{}`", canon_value(v), m[i]),
                            json!({"op": "roundtrip", "value": canon_value(v)}),
                        );
                    }
                }
                // the displayed text also goes through the model comparison of the parser
                cx.text(shown, "display-of-wf-value");
            }
            Err(why) => cx.rep.fail(
                FailKind::Impl,
                "remotespec:display-parse-roundtrip",
                &format!("{}: {why}", canon_value(v)),
                json!({"op": "roundtrip", "value": canon_value(v)}),
            ),
        }
    }
}

// ---------------------------------------------------------------------------------------------
// u16::from_str on its own
// ---------------------------------------------------------------------------------------------

fn port_part(cx: &mut Ctx, rng: &mut Rng, n: usize) {
    let mut texts: Vec<String> = PORTS.iter().map(|s| (*s).to_string()).collect();
    for v in [0u32, 9, 10, 99, 9999, 10000, 65534, 65535, 65536, 65537, 99999, 100000, 655350, 655360] {
        texts.push(v.to_string());
        texts.push(format!("+{v}"));
        texts.push(format!("0{v}"));
        texts.push(format!("{v:010}"));
    }
    const D: &[char] = &['0', '1', '5', '6', '9', '9', '3', '+', '-', ' ', 'a', '٣', '６', '_'];
    for _ in 0..n {
        let len = rng.range(0, 8) as usize;
        let s: String = (0..len).map(|_| if rng.chance(5, 6) { D[rng.below(7) as usize] } else { *rng.pick(D) }).collect();
        texts.push(s);
    }
    let model: Option<Vec<String>> = cx.drv.as_mut().map(|d| d.batch(&texts.iter().map(|t| format!("port {}", hs(t))).collect::<Vec<_>>()));
    for (i, t) in texts.iter().enumerate() {
        let real = match catch(|| t.parse::<u16>()) {
            Ok(Ok(n)) => format!("ok {n}"),
            Ok(Err(e)) => format!("err {}", kind_name(e.kind())),
            Err(m) => format!("panic {m}"),
        };
        cx.rep.count(&format!("u16:{}", real.split_whitespace().take(if real.starts_with("ok") { 1 } else { 2 }).collect::<Vec<_>>().join(":")));
        cx.rep.case(None);
        if let Some(m) = &model {
            cx.rep.model_compared += 1;
            if m[i] != real {
                cx.rep.fail(
                    FailKind::Model,
                    "remotespec:model:u16",
                    &format!("{t:?}.parse::<u16>(): implementation `{real}`, model `{}`", m[i]),
                    json!({"op": "port", "text_hex": hs(t)}),
                );
            }
        }
    }
}

// ---------------------------------------------------------------------------------------------
// Replay
// ---------------------------------------------------------------------------------------------

fn replay(args: &Args, path: &str) -> i32 {
    let text = std::fs::read_to_string(path).expect("read replay file");
    let v: Value = serde_json::from_str(&text).expect("replay json");
    let rp = if v.get("replay").is_some() { &v["replay"] } else { &v };
    let get_text = || String::from_utf8(unhex(rp["text_hex"].as_str().expect("text_hex")).expect("hex")).expect("utf-8");
    let mut drv = args.driver.as_deref().map(|p| Driver::spawn(p, &[]).expect("start Lean driver"));
    match rp["op"].as_str() {
        Some("panic") => {
            let t = get_text();
            println!("input {t:?}");
            match real_parse(&t) {
                Err(m) => {
                    println!("FAILS: Remote::from_str panicked: {m}");
                    1
                }
                Ok(l) => {
                    println!("impl  {l}");
                    let again = catch(|| Remote::from_str(&t).map(|r| Remote::from_str(&r.to_string()).is_ok()));
                    if again.is_err() {
                        println!("FAILS: to_string / re-parse panicked");
                        1
                    } else {
                        println!("holds on this input");
                        0
                    }
                }
            }
        }
        Some("parse") => {
            let t = get_text();
            let real = real_parse(&t).unwrap_or_else(|m| format!("panic {m}"));
            println!("input {t:?}");
            println!("impl  {real}");
            match drv.as_mut() {
                Some(d) => {
                    let m = model_line(d, &t);
                    println!("model {m}");
                    if strip_arm(&m).0 == real {
                        println!("model and implementation agree on this input");
                        0
                    } else {
                        println!("FAILS: model and implementation disagree");
                        1
                    }
                }
                None => {
                    println!("(no --driver: nothing to compare with)");
                    i32::from(real.starts_with("panic"))
                }
            }
        }
        Some("expect") => {
            let t = get_text();
            let want = rp["expect"].as_str().expect("expect");
            let real = real_parse(&t).unwrap_or_else(|m| format!("panic {m}"));
            println!("input  {t:?}");
            println!("impl   {real}");
            println!("expect {want}");
            if real == want {
                println!("holds on this input");
                0
            } else {
                println!("FAILS: {}", rp["key"].as_str().unwrap_or("differs"));
                1
            }
        }
        Some("roundtrip") => {
            let val = rp["value"].as_str().expect("value");
            let f: Vec<&str> = val.split_whitespace().collect();
            let r = value_from_canon(
                f[0].strip_prefix("local=").expect("local="),
                f[1].strip_prefix("remote=").expect("remote="),
                f[2].strip_prefix("proto=").expect("proto="),
            )
            .expect("value");
            println!("value {val}");
            match roundtrip_check(&r) {
                Ok(shown) => {
                    println!("displayed as {shown:?}, reads back as itself: holds on this input");
                    0
                }
                Err(why) => {
                    println!("FAILS: {why}");
                    1
                }
            }
        }
        Some("port") => {
            let t = get_text();
            let real = match t.parse::<u16>() {
                Ok(n) => format!("ok {n}"),
                Err(e) => format!("err {}", kind_name(e.kind())),
            };
            println!("input {t:?}\nimpl  {real}");
            match drv.as_mut() {
                Some(d) => {
                    let m = d.ask(&format!("port {}", hs(&t)));
                    println!("model {m}");
                    i32::from(m != real)
                }
                None => 0,
            }
        }
        _ => {
            println!("unknown replay");
            2
        }
    }
}

// ---------------------------------------------------------------------------------------------

fn main() {
    quiet_panics();
    let args = Args::parse();
    if let Some(p) = &args.replay {
        std::process::exit(replay(&args, p));
    }
    let rule = "remote specifications assembled from pools of segments (ports, hosts, brackets, stdio, unix:, specials, odd case) and \
protocol suffixes, character mutations and every prefix / suffix of accepted specifications, the documented forms assembled from \
parts with a known answer, and Display texts of generated well-formed values; non-trivial = the text gets past the protocol split \
and the tokenizer (an arm of `match tokens[..]` is evaluated); distinct by text";
    let mut cx = Ctx {
        rep: Report::new("remotespec", &args, rule),
        drv: args.driver.as_deref().map(|p| Driver::spawn(p, &[]).expect("start Lean driver")),
        pending: vec![],
        reparse_examples: vec![],
    };
    let rng = Rng::new(args.seed);
    // corpus first: `parse <hex of text>` lines
    for (_name, text) in corpus_files(args.corpus.as_deref()) {
        for l in text.lines() {
            let t: Vec<&str> = l.split_whitespace().collect();
            if t.len() == 2 && t[0] == "remote-parse" {
                if let Some(s) = unhex(t[1]).and_then(|b| String::from_utf8(b).ok()) {
                    cx.text(s, "corpus");
                }
            }
        }
    }
    let (n_form, n_rand, n_mut, n_target, n_entry, n_wf, n_port) = match args.tier {
        Tier::Quick => (12_000, 6_000, 8_000, 6_000, 3_000, 3_000, 20_000),
        Tier::Thorough => (400_000, 200_000, 300_000, 200_000, 100_000, 100_000, 600_000),
    };
    // fixed lists: every pool item alone and with every suffix, the valid seeds, their prefixes and suffixes
    for s in VALID.iter().chain(HOSTS).chain(PORTS).chain(BROKEN).chain(SPECIALS).chain(ODD_SPECIALS) {
        for sfx in SUFFIXES {
            cx.text(format!("{s}{sfx}"), "pool-item");
        }
    }
    for s in VALID {
        let cs: Vec<char> = s.chars().collect();
        for k in 0..=cs.len() {
            cx.text(cs[..k].iter().collect(), "prefix-of-valid");
            cx.text(cs[k..].iter().collect(), "suffix-of-valid");
        }
    }
    {
        let mut r = rng.fork(1);
        for _ in 0..n_form {
            let t = formish(&mut r);
            cx.text(t, "form-with-pool-pieces");
        }
    }
    {
        let mut r = rng.fork(2);
        for _ in 0..n_rand {
            let t = random_segments(&mut r);
            cx.text(t, "random-segments");
        }
    }
    {
        let mut r = rng.fork(3);
        for i in 0..n_mut {
            let base = if i % 3 == 0 { formish(&mut r) } else { pick_s(&mut r, VALID) };
            let t = mutate(&mut r, &base);
            cx.text(t, "mutation");
        }
    }
    {
        let mut r = rng.fork(4);
        let mut made = 0;
        while made < n_target {
            if let Some(c) = target_case(&mut r) {
                cx.push(c);
                made += 1;
            }
        }
    }
    {
        let mut r = rng.fork(5);
        let mut made = 0;
        while made < n_entry {
            if let Some(c) = entry_case(&mut r) {
                cx.push(c);
                made += 1;
            }
        }
    }
    roundtrip_part(&mut cx, &mut rng.fork(6), n_wf);
    cx.flush();
    port_part(&mut cx, &mut rng.fork(7), n_port);
    // coverage of the result kinds: every arm and every error kind must have been met often enough
    let need = 24;
    let mut thin = vec![];
    if cx.drv.is_some() {
        for a in [
            "socks1", "http1", "tproxy1", "port1", "stdioSpecial2", "stdioTproxy2", "stdioPort2", "unixSpecial2", "portSpecial2", "unixPort2", "hostPort2",
            "stdio3", "special3", "unix3", "port3", "full4",
        ] {
            if cx.rep.dist.get(&format!("arm:{a}")).copied().unwrap_or(0) < need {
                thin.push(format!("arm:{a}"));
            }
        }
    }
    for e in ["EmptySegment", "BracketMismatch", "GarbageAfterAddress", "Port", "Protocol", "UnsupportedCombination", "TooManySegments", "InvalidDomain"] {
        if cx.rep.dist.get(&format!("result:err:{e}")).copied().unwrap_or(0) < need {
            thin.push(format!("result:err:{e}"));
        }
    }
    // (`Port(_, Empty)` cannot come out of the parser: tokens are never empty - theorem `remote_port_error_never_empty`;
    // the empty string is covered by the u16 part)
    for k in ["port-err:InvalidDigit", "port-err:PosOverflow", "u16:err:Empty", "u16:err:InvalidDigit", "u16:err:PosOverflow", "u16:ok"] {
        if cx.rep.dist.get(k).copied().unwrap_or(0) < need {
            thin.push(k.to_string());
        }
    }
    if thin.is_empty() {
        cx.rep.notes.push(format!("every arm of match tokens[..], every error variant and every port error kind was met at least {need} times"));
    } else {
        cx.rep.fail(
            FailKind::Model,
            "remotespec:generator-coverage",
            &format!("the generator met these result kinds fewer than {need} times: {thin:?}"),
            json!({"op": "none"}),
        );
    }
    let same = cx.rep.dist.get("reparse-of-accepted:same").copied().unwrap_or(0);
    let differs = cx.rep.dist.get("reparse-of-accepted:differs").copied().unwrap_or(0);
    cx.rep.notes.push(format!(
        "observation (not a failure: Display is only used for log fields): of {} accepted texts, {differs} yield a value whose own Display text does not read back as that value; examples: {:?}",
        same + differs,
        cx.reparse_examples
    ));
    if let Some(d) = &cx.drv {
        cx.rep.notes.push(format!("driver lines: {}", d.lines));
    }
    eprintln!("remotespec: {} cases, {} compared with the model", cx.rep.evaluations, cx.rep.model_compared);
    for (k, v) in &cx.rep.dist {
        eprintln!("  {k:<70} {v}");
    }
    cx.rep.finish(&args);
    std::process::exit(i32::from(cx.rep.has_failures()));
}
