//! C10 (glue below the frames): the mapping between the WebSocket library's messages and the
//! multiplexor's own `Message` (`penguin-mux/src/ws.rs`, feature `tungstenite`) — the real `From` impls in
//! both directions against (a) their documented meaning computed here and (b) `Model/WsMsg.lean` (`drv_codec`
//! ops `wsfrom` / `wsto`).
//!
//! Cases: every message kind x a payload grid (empty, one octet, a valid penguin frame, an invalid one, text
//! that is multi-byte UTF-8, 64 KiB), close frames with and without a code/reason, the raw `Frame` variant
//! (documented `unreachable!`: must panic, nothing else may), and random payloads from the one PRNG.
//! Monitors (`FailKind::Impl`): `ws-text-not-binary` (a text message is handed on as the binary message of
//! its bytes), `ws-binary-altered`, `ws-control-not-mapped`, `ws-roundtrip` (`from(into(m)) == m`),
//! `ws-outgoing-payload` (Ping / Pong go out empty, Close without a frame), `ws-panics`.
use penguin_mux::ws::Message;
use pvhf::{Args, Driver, FailKind, Report, Rng, Tier, catch, fnv, hexd, json, unhex};
use tokio_tungstenite::tungstenite::protocol::frame::coding::CloseCode;
use tokio_tungstenite::tungstenite::protocol::{CloseFrame, frame::Frame};
use tokio_tungstenite::tungstenite::{Bytes, Message as TMsg, Utf8Bytes};

fn show(m: &Message) -> String {
    match m {
        Message::Binary(b) => format!("binary {}", hexd(b)),
        Message::Ping => "ping".into(),
        Message::Pong => "pong".into(),
        Message::Close => "close".into(),
    }
}

fn show_t(m: &TMsg) -> String {
    match m {
        TMsg::Binary(b) => format!("binary {}", hexd(b)),
        TMsg::Text(t) => format!("text {}", hexd(t.as_bytes())),
        TMsg::Ping(b) => format!("ping {}", hexd(b)),
        TMsg::Pong(b) => format!("pong {}", hexd(b)),
        TMsg::Close(None) => "closenone".into(),
        TMsg::Close(Some(f)) => format!("close {} {}", u16::from(f.code), hexd(f.reason.as_bytes())),
        TMsg::Frame(_) => "frame".into(),
    }
}

/// One incoming case `kind payload`; returns (request line for the model, what the implementation did).
fn incoming(rep: &mut Report, kind: &str, payload: &[u8]) -> Option<(String, String)> {
    let t = match kind {
        "text" => TMsg::Text(Utf8Bytes::try_from(Bytes::copy_from_slice(payload)).ok()?),
        "binary" => TMsg::Binary(Bytes::copy_from_slice(payload)),
        "ping" => TMsg::Ping(Bytes::copy_from_slice(payload)),
        "pong" => TMsg::Pong(Bytes::copy_from_slice(payload)),
        "close" => TMsg::Close(Some(CloseFrame { code: CloseCode::Normal, reason: Utf8Bytes::try_from(Bytes::copy_from_slice(payload)).ok()? })),
        "closenone" => TMsg::Close(None),
        "frame" => TMsg::Frame(Frame::ping(Bytes::copy_from_slice(payload))),
        _ => return None,
    };
    rep.case(Some(fnv(format!("in {kind} {}", hexd(payload)).as_bytes())));
    rep.count(&format!("in/{kind}"));
    let replay = json!({"op": "in", "kind": kind, "payload": hexd(payload)});
    let got = catch(|| Message::from(t));
    let line = match &got {
        Ok(m) => show(m),
        Err(_) => "panic".to_string(),
    };
    // the documented meaning
    let bad: Option<(&str, String)> = match (kind, &got) {
        ("frame", Err(_)) => None,
        ("frame", Ok(m)) => Some(("ws-control-not-mapped", format!("a raw Frame message was mapped to {}", show(m)))),
        (_, Err(p)) => Some(("ws-panics", format!("mapping a {kind} message panicked: {p}"))),
        ("text", Ok(Message::Binary(b))) if b.as_ref() == payload => None,
        ("text", Ok(m)) => Some(("ws-text-not-binary", format!("a text message of {} bytes became {}", payload.len(), show(m)))),
        ("binary", Ok(Message::Binary(b))) if b.as_ref() == payload => None,
        ("binary", Ok(m)) => Some(("ws-binary-altered", format!("a binary message of {} bytes became {}", payload.len(), show(m)))),
        ("ping", Ok(Message::Ping)) | ("pong", Ok(Message::Pong)) | ("close" | "closenone", Ok(Message::Close)) => None,
        (_, Ok(m)) => Some(("ws-control-not-mapped", format!("a {kind} message became {}", show(m)))),
    };
    if let Some((key, why)) = bad {
        rep.fail(FailKind::Impl, key, &why, replay);
    }
    Some((format!("wsfrom {kind} {}", hexd(payload)), line))
}

fn outgoing(rep: &mut Report, kind: &str, payload: &[u8]) -> Option<(String, String)> {
    let m = match kind {
        "binary" => Message::Binary(Bytes::copy_from_slice(payload)),
        "ping" => Message::Ping,
        "pong" => Message::Pong,
        "close" => Message::Close,
        _ => return None,
    };
    rep.case(Some(fnv(format!("out {kind} {}", hexd(payload)).as_bytes())));
    rep.count(&format!("out/{kind}"));
    let replay = json!({"op": "out", "kind": kind, "payload": hexd(payload)});
    let m2 = m.clone();
    let got = match catch(|| TMsg::from(m2)) {
        Ok(t) => t,
        Err(p) => {
            rep.fail(FailKind::Impl, "ws-panics", &format!("mapping an outgoing {kind} message panicked: {p}"), replay);
            return Some((format!("wsto {kind} {}", hexd(payload)), "panic".into()));
        }
    };
    let ok = match (&m, &got) {
        (Message::Binary(b), TMsg::Binary(c)) => b == c,
        (Message::Ping, TMsg::Ping(p)) | (Message::Pong, TMsg::Pong(p)) => p.is_empty(),
        (Message::Close, TMsg::Close(None)) => true,
        _ => false,
    };
    if !ok {
        rep.fail(FailKind::Impl, "ws-outgoing-payload", &format!("outgoing {} went out as {}", show(&m), show_t(&got)), replay.clone());
    }
    let line = show_t(&got);
    match catch(|| Message::from(got)) {
        Ok(back) if back == m => {}
        Ok(back) => rep.fail(FailKind::Impl, "ws-roundtrip", &format!("{} read back as {}", show(&m), show(&back)), replay),
        Err(p) => rep.fail(FailKind::Impl, "ws-panics", &format!("reading back an outgoing {kind} message panicked: {p}"), replay),
    }
    Some((format!("wsto {kind} {}", hexd(payload)), line))
}

fn run_one(rep: &mut Report, dir: &str, kind: &str, payload: &[u8]) -> Option<(String, String)> {
    if dir == "in" { incoming(rep, kind, payload) } else { outgoing(rep, kind, payload) }
}

fn main() {
    pvhf::quiet_panics();
    let args = Args::parse();
    let rule = "the real From impls of ws.rs in both directions on every message kind x a payload grid + random payloads; \
non-trivial = every case (each is one conversion); distinct by direction, kind and payload";
    let mut rep = Report::new("wsmsg", &args, rule);
    if let Some(p) = &args.replay {
        let v: pvhf::Value = serde_json::from_str(&std::fs::read_to_string(p).expect("read replay")).expect("replay json");
        let rp = if v.get("replay").is_some() { &v["replay"] } else { &v };
        let payload = unhex(rp["payload"].as_str().unwrap_or("-")).unwrap_or_default();
        let r = run_one(&mut rep, rp["op"].as_str().unwrap_or(""), rp["kind"].as_str().unwrap_or(""), &payload);
        println!("{r:?}");
        if rep.has_failures() {
            println!("FAILS");
            std::process::exit(1);
        }
        println!("holds on this input");
        std::process::exit(0);
    }
    let mut drv = args.driver.as_deref().map(|p| Driver::spawn(p, &[]).expect("start Lean driver"));
    let mut rng = Rng::new(args.seed);
    let mut grid: Vec<Vec<u8>> = vec![
        vec![],
        vec![0x41],
        vec![0x70, 0, 0, 0, 1, 0, 0, 0, 4, 0, 80, 0x68],   // a Connect frame
        vec![0x72, 0, 0, 0, 9],                             // a Reset frame
        vec![0x79, 1, 2],                                   // not a frame
        "grüße €".as_bytes().to_vec(),
        vec![0x61; 65536],
    ];
    let n = if args.tier == Tier::Quick { 200 } else { 20_000 };
    for _ in 0..n {
        let len = *rng.pick(&[0usize, 1, 2, 5, 17, 125, 126, 300]);
        // random bytes for the binary kinds, random ASCII for the text kinds (chosen below)
        grid.push(rng.bytes(len));
    }
    let mut asked: Vec<(String, String)> = vec![];
    for payload in &grid {
        let ascii: Vec<u8> = payload.iter().map(|b| 0x20 + (b % 0x5f)).collect();
        for kind in ["text", "binary", "ping", "pong", "close", "closenone", "frame"] {
            let p: &[u8] = if matches!(kind, "text" | "close") && std::str::from_utf8(payload).is_err() { &ascii } else { payload };
            // control frames carry at most 125 octets; a close reason at most 123
            let p = if matches!(kind, "ping" | "pong" | "frame") { &p[..p.len().min(125)] } else if kind == "close" { &p[..p.len().min(100)] } else if kind == "closenone" { &p[..0] } else { p };
            if let Some(a) = incoming(&mut rep, kind, p) {
                asked.push(a);
            }
        }
        for kind in ["binary", "ping", "pong", "close"] {
            let p: &[u8] = if kind == "binary" { payload } else { &[] };
            if let Some(a) = outgoing(&mut rep, kind, p) {
                asked.push(a);
            }
        }
    }
    if let Some(d) = drv.as_mut() {
        let reqs: Vec<String> = asked.iter().map(|a| a.0.clone()).collect();
        let ans = d.batch(&reqs);
        for ((q, g), m) in asked.iter().zip(&ans) {
            rep.model_compared += 1;
            if m != g {
                let t: Vec<&str> = q.split(' ').collect();
                rep.fail(
                    FailKind::Model,
                    "wsmsg",
                    &format!("`{}`: model `{}`, implementation `{}`", &q[..q.len().min(80)], &m[..m.len().min(80)], &g[..g.len().min(80)]),
                    json!({"op": if t[0] == "wsfrom" { "in" } else { "out" }, "kind": t[1], "payload": t[2]}),
                );
                break;
            }
        }
    }
    rep.exhaustive = false;
    rep.finish(&args);
    std::process::exit(i32::from(rep.has_failures()));
}
