//! C01: the client's HTTP-proxy entry point (`penguin/src/client/handle_remote/http.rs`:
//! `http_proxy_on_stream`, `do_proxy_request`) against the Lean model `Penguin.HttpProxy`
//! (`drv_httpproxy`, op `proxy`) and against monitors written from the request text alone.
//!
//! The REAL handler runs in-process through the add-only hook `verif_http_proxy_on_stream`
//! (`fixes/hook-http-proxy.diff`, `#[cfg(penguin_rs_verif)]`; the parts of a `StreamCommand` are read
//! through `verif_into_parts` of `fixes/hook-socks-session.diff`) on one end of a `tokio::io::duplex`,
//! under a current-thread runtime with a paused clock (a 1 ms sleep returns exactly when every task is
//! idle).  The harness plays
//!  * the local HTTP client: writes raw request bytes (one request at a time on one connection), reads
//!    the status line, the headers and the body of each answer; after a `200` to `CONNECT` it writes
//!    `up` bytes into the connection and expects `down` bytes out of it;
//!  * the main loop: receives each `StreamCommand` from `stream_command_rx`, notes the requested
//!    (host, port), and answers with a real `MuxStream` of an in-process `Multiplexor` pair, or drops
//!    the sender (the tunnel is refused); dropping the command receiver makes `reserve()` fail;
//!  * the far end of the tunnel: for `CONNECT` a byte sink / source (what comes out must be what the
//!    client wrote, and the other way round); for any other method an HTTP/1.1 target that reads the
//!    forwarded request and answers `299` with a fixed body, or closes, or answers garbage.
//!
//! The model's input is the PARSED request: it is computed here with the `http` crate itself
//! (`Method::from_bytes`, `Uri::try_from`, `Authority::host`, `Authority::port_u16`, `Uri::scheme`) from
//! the same method and request-target bytes — hyper and the `http` crate are black boxes (trusted base).
//! The monitors use a small parser of their own (`named`) on the literal request-target text.
//!
//! One case = one connection = one line (corpus entry and replay alike):
//!   httpproxy up=<n> down=<n> opt=<0|1> peer=<0|1> ps=<n> <request>|<request>|…
//!   request = <method>:<target>:<host header|->:<body|->:<http minor version>:<reserve><channel><send o|c|g>
//! (method, target, header and body in hex).  Non-trivial case: at least one request reached the service
//! function (method and request-target accepted by the `http` crate).

use futures_util::FutureExt;
use penguin_mux::ws::{Message, WebSocket};
use penguin_mux::{Multiplexor, MuxStream};
use pvhf::{Args, Driver, FailKind, Report, Rng, Tier, Value, catch, fnv, hex, hexd, json, unhex};
use rusty_penguin_lib::client::{HandlerResources, StreamCommand, verif_http_proxy_on_stream};
use std::net::SocketAddr;
use std::sync::{Arc, Mutex};
use std::task::{Context, Poll};
use std::time::Duration;
use tokio::io::{AsyncReadExt, AsyncWriteExt, DuplexStream};
use tokio::sync::mpsc;
use tokio::task::JoinHandle;

// ---------------------------------------------------------------------------------------------
// The monitors' own reading of a request-target (RFC 9112 section 3.2, RFC 3986 section 3.2).
// Nothing here uses the `http` crate.
// ---------------------------------------------------------------------------------------------

#[derive(Clone, Debug, PartialEq, Eq)]
enum Named {
    /// origin-form (`/path`) or asterisk-form: the request-target names no host
    NoAuthority,
    /// the text has no reading this parser is sure of (junk between `]` and `:`, nothing in front
    /// of `://`, …): nothing is checked
    Unreadable,
    /// a host, and behind it a `:` followed by something that is not a port number below 65536
    BadPort { port_text: Vec<u8> },
    /// host (the text between the brackets for `[…]`), the port if one is written, the scheme if any
    Target { host: Vec<u8>, port: Option<u16>, scheme: Option<Vec<u8>> },
}

fn named(target: &[u8]) -> Named {
    if target.is_empty() {
        return Named::Unreadable;
    }
    if target[0] == b'/' || target == b"*" {
        return Named::NoAuthority;
    }
    // absolute-form `scheme://authority[/…]`, else authority-form
    let (scheme, rest): (Option<Vec<u8>>, &[u8]) = match target.windows(3).position(|w| w == b"://") {
        Some(0) => return Named::Unreadable,
        Some(i) if target[..i].iter().all(|c| c.is_ascii_alphanumeric() || matches!(c, b'+' | b'-' | b'.')) => {
            (Some(target[..i].to_ascii_lowercase()), &target[i + 3..])
        }
        Some(_) => return Named::Unreadable,
        None => (None, target),
    };
    let end = rest.iter().position(|c| matches!(c, b'/' | b'?' | b'#')).unwrap_or(rest.len());
    if scheme.is_none() && end != rest.len() {
        return Named::Unreadable;
    }
    let auth = &rest[..end];
    let hostport = match auth.iter().rposition(|c| *c == b'@') {
        Some(i) => &auth[i + 1..],
        None => auth,
    };
    let (host, after): (&[u8], &[u8]) = if hostport.first() == Some(&b'[') {
        match hostport.iter().position(|c| *c == b']') {
            Some(i) => (&hostport[1..i], &hostport[i + 1..]),
            None => return Named::Unreadable,
        }
    } else {
        match hostport.iter().position(|c| *c == b':') {
            Some(i) => (&hostport[..i], &hostport[i..]),
            None => (hostport, &[]),
        }
    };
    if host.iter().any(|c| matches!(c, b'[' | b']')) {
        return Named::Unreadable;
    }
    let port = match after {
        [] | [b':'] => None,
        [b':', p @ ..] if p.iter().any(|c| matches!(c, b':' | b'[' | b']' | b'@')) => return Named::Unreadable,
        [b':', p @ ..] => {
            // a decimal number; a leading `+` is read as Rust's integer parser reads it (lenient)
            let digits = p.strip_prefix(b"+").unwrap_or(p);
            if digits.is_empty() || !digits.iter().all(u8::is_ascii_digit) {
                return Named::BadPort { port_text: p.to_vec() };
            }
            let mut v: u64 = 0;
            for d in digits {
                v = (v * 10 + u64::from(d - b'0')).min(1_000_000);
            }
            match u16::try_from(v) {
                Ok(v) => Some(v),
                Err(_) => return Named::BadPort { port_text: p.to_vec() },
            }
        }
        _ => return Named::Unreadable,
    };
    Named::Target { host: host.to_vec(), port, scheme }
}

// ---------------------------------------------------------------------------------------------
// The parsed request, by the `http` crate (the model's input)
// ---------------------------------------------------------------------------------------------

#[derive(Clone, Copy, Debug, PartialEq, Eq)]
enum PortIn {
    Absent,
    Num(u16),
    /// something other than a `u16` is written behind the host (`Authority::port_u16` is `None`, yet
    /// the authority does not end with the host or with `host:`)
    Invalid,
}

#[derive(Clone, Debug, PartialEq, Eq)]
enum Parsed {
    /// method or request-target refused by the `http` crate: hyper answers by itself, the service function is not called
    Rejected,
    Req { connect: bool, auth: Option<(Vec<u8>, PortIn)>, https: bool },
}

fn parsed(method: &[u8], target: &[u8]) -> Parsed {
    let Ok(m) = http::Method::from_bytes(method) else { return Parsed::Rejected };
    let Ok(uri) = http::Uri::try_from(target) else { return Parsed::Rejected };
    let https = uri.scheme() == Some(&http::uri::Scheme::HTTPS);
    let auth = uri.authority().map(|a| {
        let port = match a.port_u16() {
            Some(p) => PortIn::Num(p),
            None => {
                let hp = a.as_str().rsplit('@').next().unwrap_or("");
                match &hp[a.host().len()..] {
                    "" | ":" => PortIn::Absent,
                    _ => PortIn::Invalid,
                }
            }
        };
        (a.host().as_bytes().to_vec(), port)
    });
    Parsed::Req { connect: m == http::Method::CONNECT, auth, https }
}

// ---------------------------------------------------------------------------------------------
// Cases
// ---------------------------------------------------------------------------------------------

#[derive(Clone, Copy, Debug, PartialEq, Eq)]
enum SendMode {
    /// the target answers `299` with the fixed body
    Ok,
    /// the target reads the request and closes without an answer
    Close,
    /// the target reads the request and answers something that is not HTTP
    Garbage,
}

#[derive(Clone, Debug, PartialEq, Eq)]
struct Rq {
    method: Vec<u8>,
    target: Vec<u8>,
    host: Option<Vec<u8>>,
    body: Vec<u8>,
    minor: u8,
    reserve: bool,
    channel: bool,
    send: SendMode,
}

#[derive(Clone, Debug, PartialEq, Eq)]
struct Case {
    reqs: Vec<Rq>,
    up: usize,
    down: usize,
    /// the first bytes of the upload ride on the write of the CONNECT request
    opt: bool,
    /// the handler is told a peer address (the forwarded request then carries `x-forwarded-*`)
    peer: bool,
    ps: u64,
}

fn b01(b: bool) -> &'static str {
    if b { "1" } else { "0" }
}

impl Rq {
    fn text(&self) -> String {
        let s = match self.send {
            SendMode::Ok => 'o',
            SendMode::Close => 'c',
            SendMode::Garbage => 'g',
        };
        format!(
            "{}:{}:{}:{}:{}:{}{}{}",
            hexd(&self.method),
            hexd(&self.target),
            self.host.as_ref().map_or("-".to_string(), |h| format!("h{}", hex(h))),
            hexd(&self.body),
            self.minor,
            b01(self.reserve),
            b01(self.channel),
            s
        )
    }
    fn parse(t: &str) -> Option<Self> {
        let f: Vec<&str> = t.split(':').collect();
        if f.len() != 6 {
            return None;
        }
        let ud = |s: &str| if s == "-" { Some(vec![]) } else { unhex(s) };
        let host = if f[2] == "-" { None } else { Some(unhex(f[2].strip_prefix('h')?)?) };
        let e: Vec<char> = f[5].chars().collect();
        if e.len() != 3 {
            return None;
        }
        let bit = |c: char| match c {
            '0' => Some(false),
            '1' => Some(true),
            _ => None,
        };
        let send = match e[2] {
            'o' => SendMode::Ok,
            'c' => SendMode::Close,
            'g' => SendMode::Garbage,
            _ => return None,
        };
        Some(Self { method: ud(f[0])?, target: ud(f[1])?, host, body: ud(f[3])?, minor: f[4].parse().ok().filter(|m| *m <= 1)?, reserve: bit(e[0])?, channel: bit(e[1])?, send })
    }
    fn is_connect_text(&self) -> bool {
        self.method == b"CONNECT"
    }
    fn wire(&self) -> Vec<u8> {
        let mut v = self.method.clone();
        v.push(b' ');
        v.extend_from_slice(&self.target);
        v.extend_from_slice(format!(" HTTP/1.{}\r\n", self.minor).as_bytes());
        if let Some(h) = &self.host {
            v.extend_from_slice(b"Host: ");
            v.extend_from_slice(h);
            v.extend_from_slice(b"\r\n");
        }
        if !self.body.is_empty() {
            v.extend_from_slice(format!("Content-Length: {}\r\n", self.body.len()).as_bytes());
        }
        v.extend_from_slice(b"\r\n");
        v.extend_from_slice(&self.body);
        v
    }
}

impl Case {
    fn line(&self) -> String {
        format!(
            "httpproxy up={} down={} opt={} peer={} ps={} {}",
            self.up,
            self.down,
            b01(self.opt),
            b01(self.peer),
            self.ps,
            self.reqs.iter().map(Rq::text).collect::<Vec<_>>().join("|")
        )
    }
    fn parse(line: &str) -> Option<Self> {
        let t: Vec<&str> = line.split_whitespace().collect();
        if t.len() != 7 || t[0] != "httpproxy" {
            return None;
        }
        let kv = |s: &str, k: &str| s.strip_prefix(k).and_then(|v| v.strip_prefix('=')).and_then(|v| v.parse::<u64>().ok());
        let reqs = t[6].split('|').map(Rq::parse).collect::<Option<Vec<_>>>()?;
        Some(Self {
            up: kv(t[1], "up")? as usize,
            down: kv(t[2], "down")? as usize,
            opt: kv(t[3], "opt")? == 1,
            peer: kv(t[4], "peer")? == 1,
            ps: kv(t[5], "ps")?,
            reqs,
        })
    }
    fn payload(&self, dir: u64, n: usize) -> Vec<u8> {
        Rng::new(self.ps).fork(dir).bytes(n)
    }
}

// ---------------------------------------------------------------------------------------------
// The real handler in its world
// ---------------------------------------------------------------------------------------------

/// In-memory WebSocket: two unbounded queues.
struct ChanWs {
    tx: mpsc::UnboundedSender<Message>,
    rx: mpsc::UnboundedReceiver<Message>,
}

fn ws_pair() -> (ChanWs, ChanWs) {
    let (atx, brx) = mpsc::unbounded_channel();
    let (btx, arx) = mpsc::unbounded_channel();
    (ChanWs { tx: atx, rx: arx }, ChanWs { tx: btx, rx: brx })
}

impl WebSocket for ChanWs {
    fn poll_ready_unpin(&mut self, _cx: &mut Context<'_>) -> Poll<Result<(), penguin_mux::Error>> {
        Poll::Ready(Ok(()))
    }
    fn start_send_unpin(&mut self, item: Message) -> Result<(), penguin_mux::Error> {
        self.tx.send(item).map_err(|_| penguin_mux::Error::WebSocket(Box::new(pvhf::simws::SimError("peer gone"))))
    }
    fn poll_flush_unpin(&mut self, _cx: &mut Context<'_>) -> Poll<Result<(), penguin_mux::Error>> {
        Poll::Ready(Ok(()))
    }
    fn poll_close_unpin(&mut self, _cx: &mut Context<'_>) -> Poll<Result<(), penguin_mux::Error>> {
        Poll::Ready(Ok(()))
    }
    fn poll_next_unpin(&mut self, cx: &mut Context<'_>) -> Poll<Option<Result<Message, penguin_mux::Error>>> {
        self.rx.poll_recv(cx).map(|o| o.map(Ok))
    }
}

const UPSTREAM_STATUS: u16 = 299;
const UPSTREAM_BODY: &[u8] = b"answer of the target";

/// What the client read as one answer.
#[derive(Clone, Debug, PartialEq, Eq)]
struct Resp {
    status: u16,
    body: Vec<u8>,
}

/// What was observed for one request.
#[derive(Clone, Debug, Default)]
struct RqObs {
    resp: Option<Resp>,
    tunnels: Vec<(Vec<u8>, u16)>,
    delivered: bool,
    /// the far end of the tunnel read a complete HTTP request (non-CONNECT only)
    far_request: Option<Vec<u8>>,
    /// CONNECT answered 2xx: what came out of the far end / out of the client end
    up_got: Option<Vec<u8>>,
    down_got: Option<Vec<u8>>,
    /// the connection was closed by the handler after this request
    closed: bool,
}

#[derive(Clone, Debug, Default)]
struct Obs {
    reqs: Vec<RqObs>,
    handler_result: Option<String>,
    infra: Option<String>,
}

/// Returns when every task of the runtime is idle.
async fn settle() {
    tokio::time::sleep(Duration::from_millis(1)).await;
}

struct Chans {
    hr: &'static HandlerResources,
    cmd_rx: Option<mpsc::Receiver<StreamCommand>>,
}

fn fresh_chans() -> Chans {
    let (hr, cmd_rx, _dg_rx) = HandlerResources::create();
    let hr: &'static HandlerResources = Box::leak(Box::new(hr));
    Chans { hr, cmd_rx: Some(cmd_rx) }
}

#[derive(Default)]
struct Far {
    got: Vec<u8>,
    eof: bool,
    request: Option<Vec<u8>>,
}

/// `Some((head length, body length))` when `b` starts with a complete HTTP/1 message head.
fn head_of(b: &[u8]) -> Option<(usize, Vec<(String, String)>, String)> {
    let end = b.windows(4).position(|w| w == b"\r\n\r\n")?;
    let text = String::from_utf8_lossy(&b[..end]).into_owned();
    let mut lines = text.split("\r\n");
    let first = lines.next().unwrap_or("").to_string();
    let headers = lines
        .filter_map(|l| l.split_once(':').map(|(k, v)| (k.trim().to_ascii_lowercase(), v.trim().to_string())))
        .collect();
    Some((end + 4, headers, first))
}

fn header<'a>(hs: &'a [(String, String)], k: &str) -> Option<&'a str> {
    hs.iter().find(|(n, _)| n == k).map(|(_, v)| v.as_str())
}

/// One complete answer at the front of `b`: (bytes used, answer). `no_body`: a 2xx answer to CONNECT.
fn parse_response(b: &[u8], connect: bool, eof: bool) -> Option<(usize, Resp)> {
    let (hl, hs, first) = head_of(b)?;
    let status: u16 = first.split(' ').nth(1)?.parse().ok()?;
    if connect && (200..300).contains(&status) {
        return Some((hl, Resp { status, body: vec![] }));
    }
    if let Some(n) = header(&hs, "content-length").and_then(|v| v.parse::<usize>().ok()) {
        if b.len() < hl + n {
            return None;
        }
        return Some((hl + n, Resp { status, body: b[hl..hl + n].to_vec() }));
    }
    if header(&hs, "transfer-encoding").is_some_and(|v| v.eq_ignore_ascii_case("chunked")) {
        let mut at = hl;
        let mut body = vec![];
        loop {
            let le = b[at..].windows(2).position(|w| w == b"\r\n")?;
            let n = usize::from_str_radix(std::str::from_utf8(&b[at..at + le]).ok()?.split(';').next()?.trim(), 16).ok()?;
            at += le + 2;
            if b.len() < at + n + 2 {
                return None;
            }
            body.extend_from_slice(&b[at..at + n]);
            at += n + 2;
            if n == 0 {
                return Some((at, Resp { status, body }));
            }
        }
    }
    // neither: the body runs until the connection is closed
    if eof { Some((b.len(), Resp { status, body: b[hl..].to_vec() })) } else { None }
}

struct World {
    client: DuplexStream,
    inbuf: Vec<u8>,
    client_eof: bool,
    muxes: Vec<Multiplexor>,
    tasks: Vec<JoinHandle<()>>,
}

impl World {
    fn drain_client(&mut self) {
        let mut buf = [0u8; 8192];
        while !self.client_eof {
            match self.client.read(&mut buf).now_or_never() {
                Some(Ok(0) | Err(_)) => self.client_eof = true,
                Some(Ok(n)) => self.inbuf.extend_from_slice(&buf[..n]),
                None => break,
            }
        }
    }
}

/// Play the main loop for one request: a real stream of an in-process multiplexor pair, its far end
/// played as the request says.
async fn grant(w: &mut World, rq: &Rq, host: &[u8], port: u16, far: &Arc<Mutex<Far>>, down_rx: mpsc::UnboundedReceiver<Vec<u8>>) -> Result<MuxStream, String> {
    let (a, b) = ws_pair();
    let cm = Multiplexor::new(a);
    let sm = Multiplexor::new(b);
    let (cs, ss) = tokio::join!(cm.new_stream_channel(host, port), sm.accept_stream_channel());
    let cs: MuxStream = cs.map_err(|e| format!("harness mux: open failed: {e}"))?;
    let ss: MuxStream = ss.map_err(|e| format!("harness mux: accept failed: {e}"))?;
    if ss.dest_host != host || ss.dest_port != port {
        return Err("harness mux: the accepted stream names another target".into());
    }
    w.muxes.push(cm);
    w.muxes.push(sm);
    let far = far.clone();
    let (mut rd, mut wr) = tokio::io::split(ss);
    if rq.is_connect_text() {
        let mut down_rx = down_rx;
        w.tasks.push(tokio::spawn(async move {
            while let Some(chunk) = down_rx.recv().await {
                if wr.write_all(&chunk).await.is_err() || wr.flush().await.is_err() {
                    break;
                }
            }
            std::future::pending::<()>().await;
        }));
        w.tasks.push(tokio::spawn(async move {
            let mut buf = vec![0u8; 16384];
            loop {
                match rd.read(&mut buf).await {
                    Ok(0) | Err(_) => {
                        far.lock().expect("far").eof = true;
                        std::future::pending::<()>().await;
                    }
                    Ok(n) => far.lock().expect("far").got.extend_from_slice(&buf[..n]),
                }
            }
        }));
    } else {
        let send = rq.send;
        w.tasks.push(tokio::spawn(async move {
            let mut buf = vec![0u8; 16384];
            let mut got: Vec<u8> = vec![];
            loop {
                match rd.read(&mut buf).await {
                    Ok(0) | Err(_) => {
                        far.lock().expect("far").eof = true;
                        break;
                    }
                    Ok(n) => got.extend_from_slice(&buf[..n]),
                }
                far.lock().expect("far").got = got.clone();
                if let Some((hl, hs, _)) = head_of(&got) {
                    let n = header(&hs, "content-length").and_then(|v| v.parse::<usize>().ok()).unwrap_or(0);
                    if got.len() >= hl + n {
                        far.lock().expect("far").request = Some(got[..hl + n].to_vec());
                        match send {
                            SendMode::Ok => {
                                let mut r = format!("HTTP/1.1 {UPSTREAM_STATUS} Upstream\r\ncontent-length: {}\r\n\r\n", UPSTREAM_BODY.len()).into_bytes();
                                r.extend_from_slice(UPSTREAM_BODY);
                                let _ = wr.write_all(&r).await;
                                let _ = wr.flush().await;
                                // keep the stream open: the answer has a length
                                std::future::pending::<()>().await;
                            }
                            SendMode::Close => {
                                let _ = wr.shutdown().await;
                                break;
                            }
                            SendMode::Garbage => {
                                let _ = wr.write_all(b"\x00\x01 this is not HTTP\r\n\r\n").await;
                                let _ = wr.flush().await;
                                let _ = wr.shutdown().await;
                                break;
                            }
                        }
                    }
                }
            }
        }));
    }
    Ok(cs)
}

async fn run_real(case: &Case, shared_open: &mut Chans) -> Obs {
    let mut obs = Obs::default();
    let needs_own = case.reqs.iter().any(|r| !r.reserve);
    let mut own = if needs_own { Some(fresh_chans()) } else { None };
    let chans: &mut Chans = match own.as_mut() {
        Some(c) => c,
        None => shared_open,
    };
    let (client, handler_end) = tokio::io::duplex(1 << 22);
    let peer: Option<SocketAddr> = if case.peer { Some("192.0.2.7:4321".parse().expect("addr")) } else { None };
    let mut handle = Some(tokio::spawn(verif_http_proxy_on_stream(handler_end, peer, chans.hr)));
    let mut w = World { client, inbuf: vec![], client_eof: false, muxes: vec![], tasks: vec![] };
    'reqs: for (i, rq) in case.reqs.iter().enumerate() {
        if w.client_eof {
            break;
        }
        let mut ro = RqObs::default();
        if !rq.reserve {
            // the main loop has gone
            chans.cmd_rx = None;
        }
        let last = i + 1 == case.reqs.len();
        let up_all = case.payload(1, case.up);
        let mut wire = rq.wire();
        let ride = if rq.is_connect_text() && case.opt && last { case.up.min(1 + case.up / 3) } else { 0 };
        wire.extend_from_slice(&up_all[..ride]);
        if w.client.write_all(&wire).await.is_err() {
            ro.closed = true;
            obs.reqs.push(ro);
            break;
        }
        let far = Arc::new(Mutex::new(Far::default()));
        let (down_tx, down_rx) = mpsc::unbounded_channel::<Vec<u8>>();
        let mut down_rx = Some(down_rx);
        let connect = rq.is_connect_text();
        let mut resp = None;
        for _round in 0..12 {
            settle().await;
            while let Some(cmd) = chans.cmd_rx.as_mut().and_then(|rx| rx.try_recv().ok()) {
                let (tx, host, port) = cmd.verif_into_parts();
                ro.tunnels.push((host.to_vec(), port));
                if rq.channel && !ro.delivered {
                    match grant(&mut w, rq, &host, port, &far, down_rx.take().expect("one stream per request")).await {
                        Ok(cs) => {
                            tx.send(cs).ok();
                            ro.delivered = true;
                        }
                        Err(e) => {
                            obs.infra = Some(e);
                            obs.reqs.push(ro);
                            break 'reqs;
                        }
                    }
                } else {
                    drop(tx);
                }
            }
            w.drain_client();
            if resp.is_none() {
                if let Some((used, r)) = parse_response(&w.inbuf, connect, w.client_eof) {
                    w.inbuf.drain(..used);
                    resp = Some(r);
                }
            }
            if resp.is_some() || (w.client_eof && w.inbuf.is_empty()) {
                // one more look at the command channel: nothing may be requested after the answer
                settle().await;
                while let Some(cmd) = chans.cmd_rx.as_mut().and_then(|rx| rx.try_recv().ok()) {
                    let (_tx, host, port) = cmd.verif_into_parts();
                    ro.tunnels.push((host.to_vec(), port));
                }
                break;
            }
        }
        ro.resp = resp.clone();
        ro.far_request = far.lock().expect("far").request.clone();
        // the tunnel behind a 2xx to CONNECT
        if connect && resp.as_ref().is_some_and(|r| (200..300).contains(&r.status)) {
            let rest = &up_all[ride..];
            let mut at = 0;
            let mut rr = Rng::new(case.ps).fork(3);
            while at < rest.len() {
                let n = (rr.range(1, 4096) as usize).min(rest.len() - at);
                if w.client.write_all(&rest[at..at + n]).await.is_err() {
                    break;
                }
                at += n;
                if rr.chance(1, 3) {
                    settle().await;
                }
            }
            let down_all = case.payload(2, case.down);
            let mut at = 0;
            while at < down_all.len() {
                let n = (rr.range(1, 4096) as usize).min(down_all.len() - at);
                let _ = down_tx.send(down_all[at..at + n].to_vec());
                at += n;
            }
            for _ in 0..200 {
                settle().await;
                w.drain_client();
                if far.lock().expect("far").got.len() >= case.up && w.inbuf.len() >= case.down {
                    break;
                }
            }
            settle().await;
            w.drain_client();
            ro.up_got = Some(far.lock().expect("far").got.clone());
            ro.down_got = Some(std::mem::take(&mut w.inbuf));
            obs.reqs.push(ro);
            break;
        }
        settle().await;
        w.drain_client();
        ro.closed = w.client_eof;
        obs.reqs.push(ro);
    }
    // tear down: the client goes away, then the tunnels, then whatever is left of the handler
    drop(w.client);
    settle().await;
    if let Some(h) = handle.as_mut() {
        if h.is_finished() {
            obs.handler_result = Some(match h.await {
                Ok(Ok(())) => "ok".into(),
                Ok(Err(e)) => format!("err:{e}"),
                Err(je) if je.is_panic() => {
                    let p = je.into_panic();
                    let msg = p.downcast_ref::<&str>().map(|s| (*s).to_string()).or_else(|| p.downcast_ref::<String>().cloned()).unwrap_or_default();
                    format!("panic:{msg}")
                }
                Err(_) => "cancelled".into(),
            });
            handle = None;
        }
    }
    for t in w.tasks.drain(..) {
        t.abort();
    }
    w.muxes.clear();
    settle().await;
    if let Some(h) = handle.take() {
        h.abort();
        let _ = h.await;
    }
    if let Some(rx) = chans.cmd_rx.as_mut() {
        while rx.try_recv().is_ok() {}
    }
    settle().await;
    obs
}

// ---------------------------------------------------------------------------------------------
// What both sides print for one request
// ---------------------------------------------------------------------------------------------

fn model_request(rq: &Rq) -> Option<String> {
    let Parsed::Req { connect, auth, https } = parsed(&rq.method, &rq.target) else { return None };
    let a = match auth {
        None => "noauth".to_string(),
        Some((h, p)) => format!(
            "auth {} {}",
            hexd(&h),
            match p {
                PortIn::Absent => "-".to_string(),
                PortIn::Num(n) => n.to_string(),
                PortIn::Invalid => "x".to_string(),
            }
        ),
    };
    // `http1::handshake` does no I/O and cannot fail on a stream that exists: always 1 here
    Some(format!(
        "proxy {} {a} {} {} {} 1 {}",
        if connect { "connect" } else { "other" },
        b01(https),
        b01(rq.reserve),
        b01(rq.channel),
        b01(rq.send == SendMode::Ok)
    ))
}

fn observed_text(case: &Case, rq: &Rq, ro: &RqObs) -> String {
    let (status, body) = match &ro.resp {
        None => ("none".to_string(), "-".to_string()),
        Some(r) if !rq.is_connect_text() && ro.far_request.is_some() && r.status == UPSTREAM_STATUS && r.body == UPSTREAM_BODY => ("upstream".to_string(), "-".to_string()),
        Some(r) => (r.status.to_string(), hexd(&r.body)),
    };
    let tunnel = match ro.tunnels.as_slice() {
        [] => "none".to_string(),
        [(h, p)] => format!("{}:{p}", hexd(h)),
        more => format!("{}-requests", more.len()),
    };
    let bridged = match (&ro.up_got, &ro.down_got) {
        (Some(u), Some(d)) => ro.delivered && *u == case.payload(1, case.up) && *d == case.payload(2, case.down),
        _ => false,
    };
    format!("status={status} body={body} tunnel={tunnel} bridged={} forwarded={}", b01(bridged), b01(ro.far_request.is_some()))
}

// ---------------------------------------------------------------------------------------------
// Monitors (they do not consult the model nor the `http` crate)
// ---------------------------------------------------------------------------------------------

/// `name:port` / `d.d.d.d:port` / `[hex and colons]:port` with a port below 65536: the request-targets every
/// HTTP proxy has to serve.
fn plain_connect_target(t: &[u8]) -> bool {
    let Some(c) = t.iter().rposition(|c| *c == b':') else { return false };
    let (h, p) = (&t[..c], &t[c + 1..]);
    let port_ok = !p.is_empty() && p.len() <= 5 && p.iter().all(u8::is_ascii_digit) && p.iter().fold(0u32, |a, d| a * 10 + u32::from(d - b'0')) <= 65535;
    let host_ok = match h {
        [b'[', inner @ .., b']'] => {
            inner.len() >= 2 && inner.iter().all(|c| c.is_ascii_hexdigit() || *c == b':') && inner.iter().filter(|c| **c == b':').count() <= 7 && inner.contains(&b':')
        }
        _ => !h.is_empty() && h.iter().all(|c| c.is_ascii_alphanumeric() || matches!(c, b'.' | b'-')),
    };
    port_ok && host_ok
}

fn lossy(b: &[u8]) -> String {
    String::from_utf8_lossy(b).into_owned()
}

fn monitors(case: &Case, obs: &Obs) -> Vec<(String, String)> {
    let mut bad: Vec<(String, String)> = vec![];
    if let Some(r) = &obs.handler_result {
        if r.starts_with("panic") {
            bad.push(("handler-panics".into(), format!("the connection handler panicked: {r}")));
        }
    }
    for (rq, ro) in case.reqs.iter().zip(obs.reqs.iter()) {
        let nm = named(&rq.target);
        let shown = format!("`{} {}`", lossy(&rq.method), lossy(&rq.target));
        if ro.tunnels.len() > 1 {
            bad.push(("tunnel-requested-twice".into(), format!("{shown}: {} tunnels were requested for one request", ro.tunnels.len())));
        }
        if let Some((h, p)) = ro.tunnels.first() {
            match &nm {
                Named::NoAuthority => bad.push(("tunnel-without-authority".into(), format!("{shown} names no host, yet a tunnel to {}:{p} was requested", lossy(h)))),
                Named::BadPort { port_text } => bad.push((
                    "tunnel-target-wrong".into(),
                    format!("{shown}: `{}` is not a port number, yet a tunnel to {}:{p} was requested (a port the client never named)", lossy(port_text), lossy(h)),
                )),
                Named::Target { host, port, scheme } => {
                    let want_port = match (port, scheme.as_deref()) {
                        (Some(n), _) => Some(*n),
                        (None, Some(b"https")) => Some(443),
                        (None, Some(b"http")) => Some(80),
                        // authority-form without a port, or a scheme without a default known here: not checked
                        (None, _) => None,
                    };
                    if h != host || want_port.is_some_and(|n| n != *p) {
                        bad.push((
                            "tunnel-target-wrong".into(),
                            format!(
                                "{shown} names host `{}` port {}, the tunnel was requested for `{}`:{p}",
                                lossy(host),
                                want_port.map_or("(none)".to_string(), |n| n.to_string()),
                                lossy(h)
                            ),
                        ));
                    }
                }
                Named::Unreadable => {}
            }
        }
        if let Some(r) = &ro.resp {
            if (200..300).contains(&r.status) && !ro.delivered {
                bad.push(("ok-without-stream".into(), format!("{shown} was answered {} although no stream was handed to the handler", r.status)));
            }
            if rq.is_connect_text() && (200..300).contains(&r.status) {
                let (u, d) = (case.payload(1, case.up), case.payload(2, case.down));
                let (ug, dg) = (ro.up_got.clone().unwrap_or_default(), ro.down_got.clone().unwrap_or_default());
                if ug != u || dg != d {
                    let at = |a: &[u8], b: &[u8]| a.iter().zip(b.iter()).position(|(x, y)| x != y).unwrap_or(a.len().min(b.len()));
                    bad.push((
                        "bytes-after-connect-altered".into(),
                        format!(
                            "{shown}: {} bytes written after the 200, {} came out of the tunnel (first difference at {}); {} bytes written into the tunnel, {} read by the client (first difference at {})",
                            u.len(),
                            ug.len(),
                            at(&u, &ug),
                            d.len(),
                            dg.len(),
                            at(&d, &dg)
                        ),
                    ));
                }
            }
        }
        // a plain CONNECT target whose environment says yes is served
        if rq.is_connect_text() && rq.reserve && rq.channel && plain_connect_target(&rq.target) && ro.resp.as_ref().map(|r| r.status) != Some(200) {
            bad.push(("wellformed-connect-not-served".into(), format!("{shown} was answered {:?}", ro.resp.as_ref().map(|r| r.status))));
        }
    }
    bad
}

// ---------------------------------------------------------------------------------------------
// Evaluation
// ---------------------------------------------------------------------------------------------

struct Runner {
    rt: tokio::runtime::Runtime,
    open: Chans,
}

impl Runner {
    fn new() -> Self {
        let rt = tokio::runtime::Builder::new_current_thread().enable_all().start_paused(true).build().expect("runtime");
        Self { rt, open: fresh_chans() }
    }
    fn run(&mut self, case: &Case) -> Obs {
        let open = &mut self.open;
        let rt = &self.rt;
        match catch(|| rt.block_on(run_real(case, open))) {
            Ok(o) => o,
            Err(p) => Obs { infra: Some(format!("harness panic: {p}")), ..Obs::default() },
        }
    }
}

fn shrink_impl(run: &mut Runner, case: &Case, key: &str) -> Case {
    let mut budget = 600usize;
    let mut fails = |c: &Case, run: &mut Runner| -> bool {
        if budget == 0 || c.reqs.is_empty() {
            return false;
        }
        budget -= 1;
        let o = run.run(c);
        o.infra.is_none() && monitors(c, &o).iter().any(|(k, _)| k == key)
    };
    let mut cur = case.clone();
    let reqs = pvhf::shrink_list(cur.reqs.clone(), |rs| fails(&Case { reqs: rs.to_vec(), ..cur.clone() }, run));
    cur.reqs = reqs;
    for i in 0..cur.reqs.len() {
        let t = pvhf::shrink_list(cur.reqs[i].target.clone(), |t| {
            let mut c = cur.clone();
            c.reqs[i].target = t.to_vec();
            fails(&c, run)
        });
        cur.reqs[i].target = t;
        for simpler in [Rq { host: None, body: vec![], minor: 1, ..cur.reqs[i].clone() }] {
            let mut c = cur.clone();
            c.reqs[i] = simpler;
            if fails(&c, run) {
                cur = c;
            }
        }
    }
    for (up, down) in [(1, 1), (cur.up.min(16), cur.down.min(16))] {
        let c = Case { up, down, opt: false, peer: false, ..cur.clone() };
        if fails(&c, run) {
            cur = c;
            break;
        }
    }
    cur
}

struct Ctx {
    rep: Report,
    drv: Option<Driver>,
    run: Runner,
    pending: Vec<(Case, Obs)>,
}

fn form_bucket(rq: &Rq) -> String {
    let m = if rq.is_connect_text() { "CONNECT" } else { "other" };
    let f = match named(&rq.target) {
        Named::NoAuthority => "no-authority".to_string(),
        Named::Unreadable => "unreadable".to_string(),
        Named::BadPort { .. } => "bad-port".to_string(),
        Named::Target { port, scheme, .. } => format!(
            "{}/port-{}",
            match scheme.as_deref() {
                None => "authority-form",
                Some(b"http") => "http-uri",
                Some(b"https") => "https-uri",
                Some(_) => "other-scheme-uri",
            },
            match port {
                None => "absent",
                Some(0) => "0",
                Some(1) => "1",
                Some(65535) => "65535",
                Some(_) => "other",
            }
        ),
    };
    format!("request/{m}/{f}")
}

impl Ctx {
    fn eval(&mut self, case: Case, bucket: &str) {
        let obs = self.run.run(&case);
        self.rep.count(bucket);
        let reached = case.reqs.iter().zip(obs.reqs.iter()).any(|(rq, _)| parsed(&rq.method, &rq.target) != Parsed::Rejected);
        self.rep.case(if reached { Some(fnv(case.line().as_bytes())) } else { None });
        if let Some(i) = &obs.infra {
            self.rep.fail(FailKind::Model, &format!("harness: {}", i.chars().take(80).collect::<String>()), i, json!({"line": case.line()}));
            return;
        }
        for (rq, ro) in case.reqs.iter().zip(obs.reqs.iter()) {
            self.rep.count(&form_bucket(rq));
            self.rep.count(&format!("answer/{}", ro.resp.as_ref().map_or("none".to_string(), |r| r.status.to_string())));
            if ro.up_got.is_some() {
                self.rep.count("tunnel-exercised-both-ways");
            }
        }
        self.rep.count_n("requests-sent", obs.reqs.len() as u64);
        self.rep.count(&format!("connection/requests-answered-{}-of-{}", obs.reqs.iter().filter(|r| r.resp.is_some()).count(), case.reqs.len()));
        for (key, desc) in monitors(&case, &obs) {
            if self.rep.failures.iter().any(|f| f["key"] == key.as_str()) {
                continue;
            }
            let small = shrink_impl(&mut self.run, &case, &key);
            let o2 = self.run.run(&small);
            let desc2 = monitors(&small, &o2).into_iter().find(|(k, _)| *k == key).map_or(desc.clone(), |(_, d)| d);
            let shown: Vec<String> = small.reqs.iter().zip(o2.reqs.iter()).map(|(rq, ro)| observed_text(&small, rq, ro)).collect();
            self.rep.fail(FailKind::Impl, &key, &desc2, json!({"line": small.line(), "found_in": case.line(), "implementation": shown}));
        }
        if self.rep.samples.len() < 12 && self.rep.evaluations % 97 == 1 {
            let shown: Vec<String> = case.reqs.iter().zip(obs.reqs.iter()).map(|(rq, ro)| format!("{} {} -> {}", lossy(&rq.method), lossy(&rq.target), observed_text(&case, rq, ro))).collect();
            self.rep.sample(json!({"requests": shown}));
        }
        if self.drv.is_some() {
            self.pending.push((case, obs));
            if self.pending.len() >= 256 {
                self.flush();
            }
        }
    }

    fn flush(&mut self) {
        let pend = std::mem::take(&mut self.pending);
        let Some(drv) = self.drv.as_mut() else { return };
        let mut lines: Vec<String> = vec![];
        let mut idx: Vec<(usize, usize)> = vec![];
        for (ci, (case, obs)) in pend.iter().enumerate() {
            for (ri, (rq, ro)) in case.reqs.iter().zip(obs.reqs.iter()).enumerate() {
                match model_request(rq) {
                    Some(l) => {
                        lines.push(l);
                        idx.push((ci, ri));
                    }
                    None => {
                        // refused by the `http` crate: hyper must have answered by itself (400), no tunnel, connection closed
                        let ok = ro.resp.as_ref().is_none_or(|r| r.status == 400 && r.body.is_empty()) && ro.tunnels.is_empty();
                        self.rep.count("request/refused-by-http-crate");
                        if !ok {
                            self.rep.fail(
                                FailKind::Model,
                                "http-crate-and-hyper-disagree",
                                &format!("`{} {}` is refused by the http crate, but the handler's connection answered {}", lossy(&rq.method), lossy(&rq.target), observed_text(case, rq, ro)),
                                json!({"line": case.line()}),
                            );
                        }
                    }
                }
            }
        }
        if lines.is_empty() {
            return;
        }
        let answers = drv.batch(&lines);
        for ((l, a), (ci, ri)) in lines.iter().zip(answers.iter()).zip(idx.iter()) {
            let (case, obs) = &pend[*ci];
            let il = observed_text(case, &case.reqs[*ri], &obs.reqs[*ri]);
            self.rep.model_compared += 1;
            if *a != il {
                self.rep.fail(
                    FailKind::Model,
                    &format!("model {l}"),
                    &format!("`{} {}`: model `{a}` vs implementation `{il}`", lossy(&case.reqs[*ri].method), lossy(&case.reqs[*ri].target)),
                    json!({"line": case.line(), "request_index": ri, "driver_request": l, "model": a, "impl": il}),
                );
            }
        }
    }
}

// ---------------------------------------------------------------------------------------------
// Generators
// ---------------------------------------------------------------------------------------------

fn label(r: &mut Rng) -> String {
    let n = r.range(1, 10) as usize;
    (0..n).map(|_| *r.pick(b"abcdefghijklmnopqrstuvwxyz0123456789-") as char).collect()
}

fn v6_text(r: &mut Rng) -> String {
    match r.below(6) {
        0 => "::1".into(),
        1 => "::".into(),
        2 => "2001:db8::7".into(),
        3 => "::ffff:10.1.2.3".into(),
        4 => "fe80::1%25eth0".into(),
        _ => {
            let g: Vec<String> = (0..8).map(|_| format!("{:x}", r.below(65536))).collect();
            g.join(":")
        }
    }
}

/// (host text as written in the authority, kind for the distribution)
fn host_text(r: &mut Rng) -> (String, &'static str) {
    match r.below(20) {
        0..=4 => (format!("{}.example", label(r)), "name"),
        5 | 6 => (format!("{}.{}.{}.{}", r.below(256), r.below(256), r.below(256), r.below(256)), "ipv4"),
        7..=10 => (format!("[{}]", v6_text(r)), "ipv6-bracketed"),
        11 => (v6_text(r), "ipv6-bare"),
        12 => (format!("[[{}]]", v6_text(r)), "double-bracket"),
        13 => ("[]".into(), "empty-bracket"),
        14 => (format!("[{}.example]", label(r)), "bracketed-name"),
        15 => (if r.chance(1, 2) { format!("[{}", v6_text(r)) } else { format!("{}]", v6_text(r)) }, "half-bracket"),
        16 => (format!("[{}]{}", v6_text(r), label(r)), "junk-after-bracket"),
        17 => (format!("{}:{}@{}.example", label(r), label(r), label(r)), "userinfo"),
        18 => (String::new(), "empty-host"),
        _ => (format!("{}[{}]", label(r), label(r)), "inner-bracket"),
    }
}

fn port_text(r: &mut Rng) -> (Option<String>, &'static str) {
    match r.below(16) {
        0 | 1 => (None, "absent"),
        2 => (Some("0".into()), "0"),
        3 => (Some("1".into()), "1"),
        4 => (Some("65535".into()), "65535"),
        5 => (Some("65536".into()), "out-of-range"),
        6 => (Some((*r.pick(&["99999", "4294967376", "65616", "100000000000000000000"])).into()), "out-of-range"),
        7 => (Some(String::new()), "empty"),
        8 => (Some((*r.pick(&["http", "https", "x", "8o", "-1"])).into()), "not-a-number"),
        9 => (Some((*r.pick(&["+80", "080", "00443"])).into()), "odd-number"),
        10 => (Some("443".into()), "443"),
        11 => (Some("80".into()), "80"),
        _ => (Some(r.range(2, 65534).to_string()), "other"),
    }
}

fn path_text(r: &mut Rng) -> String {
    match r.below(5) {
        0 => String::new(),
        1 => "/".into(),
        2 => format!("/{}/{}", label(r), label(r)),
        3 => format!("/{}?{}={}", label(r), label(r), label(r)),
        _ => format!("/{}", label(r)),
    }
}

const METHODS: &[&str] = &["GET", "POST", "PUT", "DELETE", "OPTIONS", "PATCH", "TRACE", "connect", "Connect", "CONNECTX", "M-SEARCH"];

/// One request: (request, is the target accepted form for continuing)
fn request(r: &mut Rng, rep: &mut Report, force_connect: Option<bool>) -> Rq {
    let connect = force_connect.unwrap_or_else(|| r.chance(1, 2));
    let method = if connect { "CONNECT".to_string() } else { (*r.pick(METHODS)).to_string() };
    let (h, hk) = host_text(r);
    let (p, pk) = port_text(r);
    rep.count(&format!("host-text/{hk}"));
    rep.count(&format!("port-text/{pk}"));
    let authority = match &p {
        Some(p) => format!("{h}:{p}"),
        None => h.clone(),
    };
    let form = if connect { r.below(12) } else { 3 + r.below(12) };
    let target = match form {
        0..=6 => authority.clone(),
        7 | 8 => format!("http://{authority}{}", path_text(r)),
        9 | 10 => format!("https://{authority}{}", path_text(r)),
        11 => format!("{}://{authority}{}", *r.pick(&["HTTPS", "Http", "ftp", "ws", "wss"]), path_text(r)),
        12 => format!("/{}", label(r)),
        13 => "*".into(),
        _ => format!("http://{authority}{}", path_text(r)),
    };
    let host = match r.below(4) {
        0 => None,
        1 => Some(authority.clone().into_bytes()),
        2 => Some(format!("{}.other.example:81", label(r)).into_bytes()),
        _ => Some(h.clone().into_bytes()),
    };
    let body = if !connect && matches!(method.as_str(), "POST" | "PUT" | "PATCH") && r.chance(2, 3) {
        let n = *r.pick(&[1usize, 17, 1024, 5000]);
        r.bytes(n)
    } else {
        vec![]
    };
    let reserve = !r.chance(1, 12);
    let channel = !r.chance(1, 6);
    let send = match r.below(6) {
        0 => SendMode::Close,
        1 => SendMode::Garbage,
        _ => SendMode::Ok,
    };
    Rq { method: method.into_bytes(), target: target.into_bytes(), host, body, minor: 1, reserve, channel, send }
}

fn payload_len(r: &mut Rng, big: bool) -> usize {
    match r.below(if big { 9 } else { 7 }) {
        0 => 1,
        1 => 2,
        2 => r.range(3, 64) as usize,
        3 => r.range(65, 1500) as usize,
        4 => 4096,
        5 => r.range(1501, 9000) as usize,
        6 => *r.pick(&[8191usize, 8192, 8193]),
        7 => r.range(9001, 70_000) as usize,
        _ => r.range(70_001, 300_000) as usize,
    }
}

fn connection(r: &mut Rng, rep: &mut Report, big: bool) -> Case {
    let n = match r.below(6) {
        0..=2 => 1,
        3 => 2,
        4 => 3,
        _ => r.range(4, 6) as usize,
    };
    let mut reqs: Vec<Rq> = vec![];
    let mut gone = false;
    for i in 0..n {
        let force = if i + 1 == n { None } else { Some(r.chance(1, 4)) };
        let mut q = request(r, rep, force);
        // once the main loop has gone it stays gone
        if gone {
            q.reserve = false;
        }
        gone |= !q.reserve;
        if i + 1 == n && r.chance(1, 12) {
            q.minor = 0;
        }
        reqs.push(q);
    }
    Case { reqs, up: payload_len(r, big), down: payload_len(r, big), opt: r.chance(1, 3), peer: r.chance(1, 2), ps: r.next() % 1_000_000 }
}

/// Hosts x ports x forms, each once, with a yes-saying environment.
fn grid_part(cx: &mut Ctx) {
    let hosts = ["h.example", "10.1.2.3", "[::1]", "[2001:db8::7]", "[fe80::1%25eth0]", "::1", "[[::1]]", "[]", "[h.example]", "[::1", "::1]", "[::1]x", "u:p@h.example", "u@[::1]", "", "a[b]c", "H.Example"];
    let ports = [None, Some("0"), Some("1"), Some("65535"), Some("65536"), Some("99999"), Some(""), Some("http"), Some("+80"), Some("080"), Some("443")];
    for h in hosts {
        for p in ports {
            let authority = match p {
                Some(p) => format!("{h}:{p}"),
                None => h.to_string(),
            };
            for (m, target) in [
                ("CONNECT", authority.clone()),
                ("CONNECT", format!("https://{authority}/x")),
                ("GET", format!("http://{authority}/x")),
                ("GET", format!("https://{authority}")),
                ("GET", authority.clone()),
                ("POST", format!("ftp://{authority}/x")),
            ] {
                let rq = Rq { method: m.into(), target: target.into_bytes(), host: Some(b"unrelated.example".to_vec()), body: vec![], minor: 1, reserve: true, channel: true, send: SendMode::Ok };
                cx.eval(Case { reqs: vec![rq], up: 5, down: 7, opt: false, peer: false, ps: 1 }, "grid");
            }
        }
    }
    // every environment for a CONNECT and for a GET, with and without authority
    for (m, t) in [("CONNECT", "h.example:443"), ("GET", "http://h.example/x"), ("CONNECT", "/x"), ("GET", "/x"), ("OPTIONS", "*")] {
        for reserve in [true, false] {
            for channel in [true, false] {
                for send in [SendMode::Ok, SendMode::Close, SendMode::Garbage] {
                    let rq = Rq { method: m.into(), target: t.into(), host: None, body: vec![], minor: 1, reserve, channel, send };
                    cx.eval(Case { reqs: vec![rq], up: 3, down: 3, opt: false, peer: true, ps: 2 }, "grid-environment");
                }
            }
        }
    }
}

/// Mutations of well-formed request-targets (characters of the URI alphabet).
fn mutated_part(cx: &mut Ctx, r: &mut Rng, n: usize) {
    const ALPHA: &[u8] = b"abcXYZ019.-_~:[]@%+/?#=&;,!$'()*";
    for _ in 0..n {
        let mut q = request(r, &mut cx.rep, None);
        for _ in 0..r.range(1, 3) {
            if q.target.is_empty() {
                q.target.push(*r.pick(ALPHA));
                continue;
            }
            let i = r.below(q.target.len() as u64) as usize;
            match r.below(3) {
                0 => q.target[i] = *r.pick(ALPHA),
                1 => {
                    q.target.remove(i);
                }
                _ => q.target.insert(i, *r.pick(ALPHA)),
            }
        }
        if q.target.is_empty() {
            q.target = b"x".to_vec();
        }
        cx.eval(Case { reqs: vec![q], up: 4, down: 4, opt: r.chance(1, 4), peer: false, ps: r.next() % 1000 }, "mutated-target");
    }
}

// ---------------------------------------------------------------------------------------------

fn replay(path: &str, args: &Args) -> i32 {
    let text = std::fs::read_to_string(path).expect("read replay file");
    let v: Value = serde_json::from_str(&text).expect("replay json");
    let rp = if v.get("replay").is_some() { &v["replay"] } else { &v };
    let Some(case) = rp["line"].as_str().and_then(Case::parse) else {
        println!("replay file has no `httpproxy` line");
        return 2;
    };
    let mut run = Runner::new();
    let obs = run.run(&case);
    let mut drv = args.driver.as_deref().map(|p| Driver::spawn(p, &[]).expect("start Lean driver"));
    for (rq, ro) in case.reqs.iter().zip(obs.reqs.iter()) {
        println!("request        {} {}", lossy(&rq.method), lossy(&rq.target));
        println!(
            "  by the text  {}",
            match named(&rq.target) {
                Named::Target { host, port, scheme } => format!("host `{}` port {:?} scheme {:?}", lossy(&host), port, scheme.map(|s| lossy(&s))),
                Named::BadPort { port_text } => format!("a host, and `{}` where a port number belongs", lossy(&port_text)),
                other => format!("{other:?}"),
            }
        );
        println!(
            "  http crate   {}",
            match parsed(&rq.method, &rq.target) {
                Parsed::Rejected => "refused".to_string(),
                Parsed::Req { connect, auth, https } => format!(
                    "connect={connect} https={https} authority={}",
                    auth.map_or("none".to_string(), |(h, p)| format!("(host `{}`, port {p:?})", lossy(&h)))
                ),
            }
        );
        println!("  real code    {}", observed_text(&case, rq, ro));
        if let (Some(d), Some(l)) = (drv.as_mut(), model_request(rq)) {
            println!("  model        {}", d.ask(&l));
        }
    }
    if let Some(i) = &obs.infra {
        println!("harness problem: {i}");
        return 2;
    }
    let bad = monitors(&case, &obs);
    if bad.is_empty() {
        println!("holds on this input");
        0
    } else {
        for (k, d) in bad {
            println!("FAILS [{k}]: {d}");
        }
        1
    }
}

fn main() {
    pvhf::quiet_panics();
    let args = Args::parse();
    if let Some(p) = &args.replay {
        std::process::exit(replay(p, &args));
    }
    let rule = "one case = one connection served by the real http_proxy_on_stream on an in-memory stream: 1..6 requests written one \
at a time (CONNECT and 11 other methods; request-targets in authority-form, absolute-form with http / https / other schemes, \
origin-form, asterisk-form; hosts: names, IPv4, bracketed IPv6 (with zone), bare IPv6, doubly bracketed, empty brackets, bracketed \
names, half brackets, junk behind the bracket, userinfo, empty; ports absent, 0, 1, 65535, 65536 and larger, empty, words, +80 / 080; \
Host headers equal to / different from the target; request bodies; mutated targets), each with an environment (main loop there or \
gone, stream granted or refused, target answering / closing / answering garbage), followed for a served CONNECT by 1..300000 bytes \
in each direction through the tunnel. Each request is compared with the Lean model run on the request as parsed by the http crate. \
Non-trivial = at least one request of the connection reached the service function; distinct by the case line";
    let mut cx = Ctx {
        rep: Report::new("httpproxy", &args, rule),
        drv: args.driver.as_deref().map(|p| Driver::spawn(p, &[]).expect("start Lean driver")),
        run: Runner::new(),
        pending: vec![],
    };
    for (name, text) in pvhf::corpus_files(args.corpus.as_deref()) {
        for c in text.lines().filter_map(|l| Case::parse(l.trim())) {
            cx.eval(c, &format!("corpus/{name}"));
        }
    }
    let rng = Rng::new(args.seed);
    let (nc, nm, big) = match args.tier {
        Tier::Quick => (2500, 1500, false),
        Tier::Thorough => (60_000, 40_000, true),
    };
    grid_part(&mut cx);
    {
        let mut r = rng.fork(1);
        for _ in 0..nc {
            let case = connection(&mut r, &mut cx.rep, big);
            cx.eval(case, "connection");
        }
    }
    mutated_part(&mut cx, &mut rng.fork(2), nm);
    cx.flush();
    cx.rep.exhaustive = false;
    cx.rep.notes.push(
        "enumerated completely: the grid of 17 host texts x 11 port texts x 6 request forms with a yes-saying environment, and every \
environment (reserve x channel x target behaviour) for 5 request shapes; everything else is sampled"
            .into(),
    );
    cx.rep.notes.push(
        "not exercised (modelled, proved about, but not reachable from outside): `http1::handshake` failing (it does no I/O); \
`reserve()` staying pending on a full command channel; HTTP/2 on the proxy port"
            .into(),
    );
    if let Some(d) = &cx.drv {
        cx.rep.notes.push(format!("driver lines: {}", d.lines));
    }
    cx.rep.finish(&args);
    std::process::exit(i32::from(cx.rep.has_failures()));
}
