//! C14, family `client-request`: the upgrade request the REAL client builds, and what the REAL server
//! does with it.
//!
//! Per generated case (one PRNG seed): a client command line and a server command line, both parsed by
//! the real `PenguinCli` (clap), i.e. `--ws-psk`, `--hostname`, `--header` and the server URL go through
//! the crate's own `FromStr`s. The real `client_main_inner` (-> `ws_connect::handshake`) connects to a
//! loopback listener of this harness (plain TCP, or a TLS acceptor for `wss`/`https` URLs) which CAPTURES
//! the raw request bytes and closes. The capture is parsed here (request line, header lines, names
//! lower-cased) and
//!   * compared - method, target, and for every name the values in order - with the Lean model's
//!     `ClientReq.sent` (`drv_gate clientreq`), which gets the parsed arguments and the random
//!     `sec-websocket-key` of the capture; a request that is never written must be one the model refuses
//!     for the same reason class (before the TCP connect / connected and nothing written),
//!   * handed - with its outer white space stripped from every value, as any HTTP/1.1 parser does - to
//!     the real `State::call` in-process under the generated server configuration; the response is
//!     compared with the model's `route srv (received (buildRequest ..))` (`drv_gate clientroute`), judged
//!     by the property's own oracle (`oracle`, as in the matrix part), and by the cross-component
//!     monitor computed from the two command lines only:
//!         `right-key-refused`   the keys agree (or the server has none), nothing the gate looks at is
//!                               overridden, the URL names the tunnel path, and yet no 101,
//!         `wrong-key-admitted`  the server has a key, the client presents another one (or none), and 101,
//!   * replayed byte for byte over TCP to the real `run_listener` (hyper's own parser): the status must be
//!     the in-process one (so the white-space rule applied here is hyper's).
//! A second, pure part compares `ServerUrl::from_str` with the model's `normalizeUrl` (`drv_gate normurl`)
//! on generated URL texts (schemes in any case, with/without port, user info, path, query).

use super::*;
use clap::Parser as _;
use rusty_penguin_lib::arg::{ClientArgs, Commands, PenguinCli, ServerUrl};
use rusty_penguin_lib::client::{HandlerResources, client_main_inner};
use std::str::FromStr;
use std::time::Duration;
use tokio::io::{AsyncReadExt, AsyncWriteExt};

const GATE_NAMES: [&str; 5] = ["connection", "upgrade", "sec-websocket-key", "sec-websocket-version", "sec-websocket-protocol"];
const PSK_NAME: &str = "x-penguin-psk";

#[derive(Clone, Debug, PartialEq, Eq)]
pub struct CrCase {
    /// the scheme as written; `""`: the URL is given without `scheme://`
    scheme: String,
    userinfo: bool,
    /// what follows the authority (`""`: nothing)
    path_query: String,
    psk: Option<String>,
    hostname: Option<String>,
    /// `--header` arguments as typed
    headers: Vec<String>,
    srv_psk: Option<String>,
    srv_obfs: bool,
}

impl CrCase {
    fn to_json(&self) -> Value {
        json!({"op": "client-request", "scheme": self.scheme, "userinfo": self.userinfo, "path_query": self.path_query,
               "psk": self.psk, "hostname": self.hostname, "headers": self.headers, "srv_psk": self.srv_psk, "srv_obfs": self.srv_obfs})
    }
    pub fn from_json(v: &Value) -> Option<Self> {
        if v.get("op").and_then(Value::as_str) != Some("client-request") {
            return None;
        }
        let opt = |k: &str| v.get(k).and_then(Value::as_str).map(str::to_string);
        Some(Self {
            scheme: opt("scheme")?,
            userinfo: v["userinfo"].as_bool()?,
            path_query: opt("path_query")?,
            psk: opt("psk"),
            hostname: opt("hostname"),
            headers: v["headers"].as_array()?.iter().map(|h| h.as_str().map(str::to_string)).collect::<Option<Vec<_>>>()?,
            srv_psk: opt("srv_psk"),
            srv_obfs: v["srv_obfs"].as_bool()?,
        })
    }
    fn tls(&self) -> bool {
        matches!(self.scheme.to_ascii_lowercase().as_str(), "wss" | "https")
    }
    fn url(&self, port: u16) -> String {
        let ui = if self.userinfo { "user:pw@" } else { "" };
        if self.scheme.is_empty() {
            format!("{ui}127.0.0.1:{port}{}", self.path_query)
        } else {
            format!("{}://{ui}127.0.0.1:{port}{}", self.scheme, self.path_query)
        }
    }
    fn describe(&self) -> String {
        format!(
            "client: url={} --ws-psk={:?} --hostname={:?} --header={:?} | server: --ws-psk={:?} obfs={}",
            self.url(0), self.psk, self.hostname, self.headers, self.srv_psk, self.srv_obfs
        )
    }
    /// Lower-cased names of the custom headers (as typed; only used for the monitor and the counts).
    fn custom_names(&self) -> Vec<String> {
        self.headers.iter().filter_map(|h| h.split_once(':')).map(|(n, _)| n.to_ascii_lowercase()).collect()
    }
    fn path(&self) -> &str {
        self.path_query.split('?').next().unwrap_or("")
    }
}

// ---------------------------------------------------------------------------------------------
// Generation
// ---------------------------------------------------------------------------------------------

const PSK_POOL: [&str; 13] = [
    "k", "Correct PSK-123", "s3cr3t-with-=-and-:", "", "in ner", "tab\tinside", " lead", "trail ", "\tboth\t ", "p\u{e4}ss-\u{4e2d}", "K",
    "correct psk-123", "-dash-first",
];
const HOSTNAME_POOL: [&str; 7] = ["example.com", "EXAMPLE.com:8443", "m\u{fc}nchen.example", " spaced.example ", "", "a b", "[::1]:80"];
const BENIGN_HEADERS: [&str; 7] = [
    "X-Trace: abc", "user-agent: penguin-test/1.0", "x-empty:", "Origin: http://a.example", "X-Obs: caf\u{e9}", "X-Trace:   padded value  ",
    "Authorization: Basic dXNlcjpwdw==",
];
const PATHS: [&str; 13] = ["/ws?token=abc", "", "/", "/ws/", "/WS", "/health", "/version", "/x/ws", "/ws?", "//ws", "/ws?a=1&b=/ws", "?x=1", "/w%73"];
const SCHEMES_ODD: [&str; 6] = ["", "WS", "Http", "HTTPS", "ftp", "wSs"];

fn gen_text(rng: &mut Rng) -> String {
    let n = rng.range(1, 24) as usize;
    (0..n)
        .map(|i| {
            if i > 0 && i + 1 < n && rng.chance(1, 12) {
                ' '
            } else {
                char::from(rng.range(0x21, 0x7e) as u8)
            }
        })
        .collect()
}

fn gen_psk(rng: &mut Rng) -> String {
    if rng.chance(1, 2) { (*rng.pick(&PSK_POOL)).to_string() } else { gen_text(rng) }
}

fn other_key(rng: &mut Rng, k: &str) -> String {
    let alt = match rng.below(6) {
        0 => k.to_ascii_uppercase(),
        1 => k.to_ascii_lowercase(),
        2 => k.chars().take(k.chars().count().saturating_sub(1)).collect(),
        3 => format!("{k}x"),
        4 => format!("{k} "),
        _ => gen_psk(rng),
    };
    if alt == k { format!("{k}-other") } else { alt }
}

pub fn gen_case(rng: &mut Rng) -> CrCase {
    let (psk, srv_psk) = match rng.below(100) {
        0..45 => {
            let k = gen_psk(rng);
            (Some(k.clone()), Some(k))
        }
        45..62 => {
            let k = gen_psk(rng);
            let o = other_key(rng, &k);
            if rng.chance(1, 2) { (Some(k), Some(o)) } else { (Some(o), Some(k)) }
        }
        62..74 => (Some(gen_psk(rng)), None),
        74..86 => (None, Some(gen_psk(rng))),
        _ => (None, None),
    };
    let scheme = match rng.below(100) {
        0..35 => "ws".to_string(),
        35..50 => "http".to_string(),
        50..68 => "wss".to_string(),
        68..82 => "https".to_string(),
        _ => (*rng.pick(&SCHEMES_ODD)).to_string(),
    };
    let path_query = if rng.chance(13, 20) { "/ws".to_string() } else { (*rng.pick(&PATHS)).to_string() };
    let hostname = if rng.chance(13, 20) { None } else { Some((*rng.pick(&HOSTNAME_POOL)).to_string()) };
    let n_headers = match rng.below(10) {
        0..4 => 0,
        4..7 => 1,
        7..9 => 2,
        _ => 3,
    };
    let mut headers = vec![];
    for _ in 0..n_headers {
        let srv_key = srv_psk.clone().unwrap_or_else(|| "no-key".to_string());
        let h = match rng.below(100) {
            0..45 => (*rng.pick(&BENIGN_HEADERS)).to_string(),
            45..55 => format!("{}: {}", rng.pick(&["X-Penguin-Psk", "x-penguin-psk", "X-PENGUIN-PSK"]), if rng.chance(2, 3) { srv_key } else { "wrong".to_string() }),
            55..65 => format!("{}: {}", rng.pick(&["Sec-WebSocket-Protocol", "SEC-WEBSOCKET-PROTOCOL"]), rng.pick(&["other-proto", "penguin-v7", "Penguin-V7", "penguin-v6, penguin-v7", "penguin-v\u{e9}"])),
            65..73 => format!("{}: {}", rng.pick(&["Upgrade", "UPGRADE"]), rng.pick(&["h2c", "WebSocket", "websocket, h2c", "websocket\u{e9}"])),
            73..80 => format!("{}: {}", rng.pick(&["Connection", "connection"]), rng.pick(&["keep-alive", "upgrade", "Upgrade, keep-alive", "close"])),
            80..85 => format!("Sec-WebSocket-Version: {}", rng.pick(&["8", "13", "013", "13, 8"])),
            85..90 => format!("Sec-WebSocket-Key: {}", rng.pick(&["AAAAAAAAAAAAAAAAAAAAAA==", "not base64 at all", ""])),
            90..96 => format!("{}: {}", rng.pick(&["Host", "HOST"]), rng.pick(&["other.example", "", "h\u{f6}st"])),
            _ => (*rng.pick(&["NoColonHere", ": empty-name", "bad name: v", "X-Ctl: a\u{7}b"])).to_string(),
        };
        headers.push(h);
    }
    CrCase { scheme, userinfo: rng.chance(1, 10), path_query, psk, hostname, headers, srv_psk, srv_obfs: rng.chance(1, 4) }
}

// ---------------------------------------------------------------------------------------------
// Environment: the capturing listeners, the in-process server, the real listener
// ---------------------------------------------------------------------------------------------

pub struct CrEnv {
    rt: tokio::runtime::Runtime,
    plain: tokio::net::TcpListener,
    tls: tokio::net::TcpListener,
    acceptor: tokio_rustls::TlsAcceptor,
    imp: Impl,
    wire_base: State,
}

fn self_signed_acceptor() -> tokio_rustls::TlsAcceptor {
    use rustls::pki_types::{CertificateDer, PrivateKeyDer, PrivatePkcs8KeyDer};
    let params = rcgen::CertificateParams::new(vec!["127.0.0.1".to_string(), "localhost".to_string()]).expect("certificate params");
    let key = rcgen::KeyPair::generate_for(&rcgen::PKCS_ECDSA_P256_SHA256).expect("key pair");
    let cert = params.self_signed(&key).expect("self-signed certificate");
    let provider = rustls::crypto::CryptoProvider::get_default().expect("crypto provider installed").clone();
    let cfg = rustls::ServerConfig::builder_with_provider(provider)
        .with_safe_default_protocol_versions()
        .expect("protocol versions")
        .with_no_client_auth()
        .with_single_cert(vec![CertificateDer::from(cert.der().to_vec())], PrivateKeyDer::Pkcs8(PrivatePkcs8KeyDer::from(key.serialize_der())))
        .expect("server certificate");
    tokio_rustls::TlsAcceptor::from(std::sync::Arc::new(cfg))
}

impl CrEnv {
    pub fn new() -> Result<Self, String> {
        let rt = tokio::runtime::Builder::new_multi_thread().worker_threads(2).enable_all().build().map_err(|e| format!("runtime: {e}"))?;
        let (plain, tls, wire_base) = rt.block_on(async {
            let p = tokio::net::TcpListener::bind(("127.0.0.1", 0)).await.map_err(|e| format!("cannot listen on 127.0.0.1: {e}"))?;
            let t = tokio::net::TcpListener::bind(("127.0.0.1", 0)).await.map_err(|e| format!("cannot listen on 127.0.0.1: {e}"))?;
            let st = State::new().await.map_err(|e| format!("State::new: {e}"))?;
            Ok::<_, String>((p, t, st))
        })?;
        Ok(Self { rt, plain, tls, acceptor: self_signed_acceptor(), imp: Impl::new(), wire_base })
    }
}

/// The parsed command lines.
struct Parsed {
    client: &'static ClientArgs,
    /// the server's `--ws-psk` as its own parser leaves it
    srv_psk: Option<Vec<u8>>,
    srv_obfs: bool,
}

fn clap_err(e: &clap::Error) -> String {
    let text = e.to_string();
    format!("{:?}: {}", e.kind(), text.lines().next().unwrap_or(""))
}

fn parse_lines(c: &CrCase, port: u16) -> Result<Parsed, String> {
    let mut argv: Vec<String> = vec!["penguin".into(), "client".into(), "--tls-skip-verify".into()];
    if let Some(p) = &c.psk {
        argv.push(format!("--ws-psk={p}"));
    }
    if let Some(h) = &c.hostname {
        argv.push(format!("--hostname={h}"));
    }
    for h in &c.headers {
        argv.push(format!("--header={h}"));
    }
    argv.push("--".into());
    argv.push(c.url(port));
    // a client needs a remote; nothing connects to this one
    argv.push("127.0.0.1:0:127.0.0.1:9".into());
    let client = match PenguinCli::try_parse_from(&argv) {
        Ok(PenguinCli { subcommand: Commands::Client(a), .. }) => a,
        Ok(_) => return Err("client: not a client command line".into()),
        Err(e) => return Err(format!("client {}", clap_err(&e))),
    };
    let mut sargv: Vec<String> = vec!["penguin".into(), "server".into()];
    if let Some(p) = &c.srv_psk {
        sargv.push(format!("--ws-psk={p}"));
    }
    if c.srv_obfs {
        sargv.push("--obfs".into());
    }
    let server = match PenguinCli::try_parse_from(&sargv) {
        Ok(PenguinCli { subcommand: Commands::Server(a), .. }) => a,
        Ok(_) => return Err("server: not a server command line".into()),
        Err(e) => return Err(format!("server {}", clap_err(&e))),
    };
    Ok(Parsed {
        client: Box::leak(Box::new(client)),
        srv_psk: server.ws_psk.as_ref().map(|v| v.as_bytes().to_vec()),
        srv_obfs: server.obfs,
    })
}

#[derive(Clone, Debug)]
struct Captured {
    raw: Vec<u8>,
    method: String,
    target: String,
    /// name lower-cased, value as written after the one space tungstenite puts behind the colon
    headers: Vec<(String, Vec<u8>)>,
}

#[derive(Clone, Debug)]
enum Outcome {
    /// the client ended (with this error) without connecting
    NoConnection(String),
    /// connected, and closed without writing a byte
    NothingWritten,
    /// `wss`: the TLS session was not established (the client's side of it is C17's subject)
    TlsFailed(String),
    /// something this harness cannot read as one HTTP/1.1 request head
    Garbled(String),
    Sent(Captured),
}

fn parse_capture(raw: &[u8]) -> Result<Captured, String> {
    let end = find_bytes(raw, b"\r\n\r\n").ok_or("no end of the request head")?;
    let mut lines = raw[..end].split(|b| *b == b'\n').map(|l| l.strip_suffix(b"\r").unwrap_or(l));
    let first = lines.next().ok_or("no request line")?;
    let parts: Vec<&[u8]> = first.split(|b| *b == b' ').collect();
    if parts.len() != 3 || parts[2] != b"HTTP/1.1" {
        return Err(format!("request line `{}`", String::from_utf8_lossy(first)));
    }
    let mut headers = vec![];
    for l in lines {
        let colon = l.iter().position(|b| *b == b':').ok_or_else(|| format!("header line without a colon `{}`", String::from_utf8_lossy(l)))?;
        let (n, v) = (&l[..colon], &l[colon + 1..]);
        if n.is_empty() || n.iter().any(|b| *b == b' ' || *b == b'\t' || !b.is_ascii()) {
            return Err(format!("header name `{}`", String::from_utf8_lossy(n)));
        }
        let v = v.strip_prefix(b" ").ok_or_else(|| format!("no space behind the colon in `{}`", String::from_utf8_lossy(l)))?;
        headers.push((String::from_utf8_lossy(n).to_ascii_lowercase(), v.to_vec()));
    }
    if raw.len() != end + 4 {
        return Err(format!("{} byte(s) behind the request head", raw.len() - end - 4));
    }
    Ok(Captured { raw: raw.to_vec(), method: String::from_utf8_lossy(parts[0]).into_owned(), target: String::from_utf8_lossy(parts[1]).into_owned(), headers })
}

async fn read_head<S: tokio::io::AsyncRead + Unpin>(s: &mut S) -> Result<Vec<u8>, String> {
    let mut buf = vec![];
    let mut tmp = [0u8; 4096];
    loop {
        if find_bytes(&buf, b"\r\n\r\n").is_some() || buf.len() > 65536 {
            return Ok(buf);
        }
        let k = match s.read(&mut tmp).await {
            Ok(k) => k,
            // a peer that goes away without having written anything: no TLS close_notify, or a reset (it
            // dropped a connection with unread bytes of ours - the TLS session tickets - in it)
            Err(e) if buf.is_empty() && matches!(e.kind(), std::io::ErrorKind::UnexpectedEof | std::io::ErrorKind::ConnectionReset | std::io::ErrorKind::ConnectionAborted) => 0,
            Err(e) => return Err(format!("read: {e}")),
        };
        if k == 0 {
            return Ok(buf);
        }
        buf.extend_from_slice(&tmp[..k]);
    }
}

/// Run the real client once against the capturing listener.
async fn capture(env_plain: &tokio::net::TcpListener, env_tls: &tokio::net::TcpListener, acceptor: &tokio_rustls::TlsAcceptor, tls: bool, args: &'static ClientArgs) -> Outcome {
    let (hr, stream_rx, datagram_rx) = HandlerResources::create();
    let hr: &'static HandlerResources = Box::leak(Box::new(hr));
    let mut client = tokio::spawn(async move { client_main_inner(args, hr, stream_rx, datagram_rx).await.map_err(|e| e.to_string()) });
    let listener = if tls { env_tls } else { env_plain };
    let accepted = tokio::time::timeout(Duration::from_secs(5), async {
        tokio::select! {
            biased;
            r = listener.accept() => Ok(r),
            r = &mut client => Err(r),
        }
    })
    .await;
    let out = match accepted {
        Err(_) => Outcome::Garbled("the client neither connected nor ended within 5 s".into()),
        Ok(Err(done)) => Outcome::NoConnection(match done {
            Ok(Ok(())) => "client ended Ok(())".to_string(),
            Ok(Err(e)) => e,
            Err(e) => format!("client task: {e}"),
        }),
        Ok(Ok(Err(e))) => Outcome::Garbled(format!("accept: {e}")),
        Ok(Ok(Ok((mut sock, _)))) => {
            let raw = tokio::time::timeout(Duration::from_secs(5), async {
                if tls {
                    match acceptor.accept(&mut sock).await {
                        Ok(mut t) => {
                            let r = read_head(&mut t).await;
                            let _ = t.shutdown().await;
                            r
                        }
                        Err(e) => Err(format!("TLS accept: {e}")),
                    }
                } else {
                    read_head(&mut sock).await
                }
            })
            .await
            .unwrap_or_else(|_| Err("no complete request head within 5 s".into()));
            match raw {
                Err(e) if e.starts_with("TLS accept") => Outcome::TlsFailed(e),
                Err(e) => Outcome::Garbled(e),
                Ok(raw) if raw.is_empty() => Outcome::NothingWritten,
                Ok(raw) => match parse_capture(&raw) {
                    Ok(c) => Outcome::Sent(c),
                    Err(e) => Outcome::Garbled(format!("{e}: {:?}", String::from_utf8_lossy(&raw))),
                },
            }
        }
    };
    if !matches!(out, Outcome::NoConnection(_)) {
        client.abort();
        let _ = client.await;
    }
    out
}

/// The captured bytes, sent as they are to the real `run_listener`; the status of the answer.
async fn wire_status(state: State, raw: Vec<u8>) -> Result<u16, String> {
    let l = tokio::net::TcpListener::bind(("127.0.0.1", 0)).await.map_err(|e| format!("bind: {e}"))?;
    let addr = l.local_addr().map_err(|e| format!("addr: {e}"))?;
    let server = tokio::spawn(rusty_penguin_lib::server::run_listener(l, None, state));
    let r = tokio::time::timeout(Duration::from_secs(5), async {
        let mut s = tokio::net::TcpStream::connect(addr).await.map_err(|e| format!("connect: {e}"))?;
        s.write_all(&raw).await.map_err(|e| format!("write: {e}"))?;
        let head = read_head(&mut s).await?;
        let line = head.split(|b| *b == b'\r').next().unwrap_or(&[]);
        String::from_utf8_lossy(line).split(' ').nth(1).and_then(|x| x.parse::<u16>().ok()).ok_or_else(|| format!("status line `{}`", String::from_utf8_lossy(line)))
    })
    .await
    .unwrap_or_else(|_| Err("no answer within 5 s".into()));
    server.abort();
    let _ = server.await;
    r
}

// ---------------------------------------------------------------------------------------------
// One case
// ---------------------------------------------------------------------------------------------

/// The key the client's parsed command line presents: the last `--header x-penguin-psk: ..`, else `--ws-psk`.
fn presented(a: &ClientArgs) -> Option<Vec<u8>> {
    a.header
        .iter()
        .rev()
        .find(|h| h.name.as_str() == PSK_NAME)
        .map(|h| h.value.as_bytes().to_vec())
        .or_else(|| a.ws_psk.as_ref().map(|v| v.as_bytes().to_vec()))
}

fn opt_hex(v: Option<&[u8]>) -> String {
    v.map_or_else(|| "none".to_string(), |b| format!("some:{}", hexd(b)))
}

/// Arguments of the driver's `clientreq` (after the op name): what the parsed command line says.
fn model_args(a: &ClientArgs, key: &[u8]) -> String {
    let uri = &a.server.0;
    let target = uri.path_and_query().map_or("", |p| p.as_str());
    let authority = uri.authority().map_or("", |x| x.as_str());
    let urlhost = authority.rsplit_once('@').map_or(authority, |(_, h)| h);
    let mut s = format!(
        "{} {} {} {} {}",
        hexd(target.as_bytes()),
        hexd(urlhost.as_bytes()),
        opt_hex(a.ws_psk.as_ref().map(|v| v.as_bytes())),
        opt_hex(a.hostname.as_ref().map(|v| v.as_bytes())),
        hexd(key)
    );
    for h in &a.header {
        s.push_str(&format!(" {}={}", h.name.as_str(), hexd(h.value.as_bytes())));
    }
    s
}

fn capture_line(c: &Captured) -> String {
    let mut hs = c.headers.clone();
    hs.sort_by(|a, b| a.0.cmp(&b.0)); // stable: values of one name keep their order
    let htxt = if hs.is_empty() { "-".to_string() } else { hs.iter().map(|(n, v)| format!("{n}={}", hexd(v))).collect::<Vec<_>>().join(",") };
    format!("sent {} {} {htxt}", c.method, hexd(c.target.as_bytes()))
}

pub struct Verdict {
    /// (kind, canonical key, description)
    pub fail: Option<(FailKind, String, String)>,
    pub outcome: String,
    pub status: u16,
    pub nontrivial: bool,
    pub compared: u64,
    pub text: Vec<String>,
}

/// Run one case completely. `record`: distribution counts go to `rep`.
pub fn run_case(env: &mut CrEnv, drv: &mut Option<Driver>, c: &CrCase, mut rep: Option<&mut Report>) -> Verdict {
    let mut count = |k: String| {
        if let Some(r) = rep.as_deref_mut() {
            r.count(&k);
        }
    };
    let mut v = Verdict { fail: None, outcome: String::new(), status: 0, nontrivial: false, compared: 0, text: vec![] };
    let port = if c.tls() { env.tls.local_addr() } else { env.plain.local_addr() }.map(|a| a.port()).unwrap_or(0);
    let parsed = match parse_lines(c, port) {
        Ok(p) => p,
        Err(e) => {
            count(format!("cr-outcome/command-line-rejected ({})", e.split(':').next().unwrap_or("?")));
            v.outcome = format!("command line rejected: {e}");
            return v;
        }
    };
    let args = parsed.client;
    // `--ws-psk` text -> key, on both sides, against the model's `parsePsk`
    if let Some(d) = drv.as_mut() {
        for (side, text, got) in [("client", &c.psk, args.ws_psk.as_ref().map(|x| x.as_bytes().to_vec())), ("server", &c.srv_psk, parsed.srv_psk.clone())] {
            let Some(text) = text else { continue };
            let m = d.ask(&format!("parsepsk {}", hexd(text.as_bytes())));
            v.compared += 1;
            if Some(m.clone()) != got.as_ref().map(|g| hexd(g)) {
                v.fail = Some((FailKind::Model, "client-request parsepsk".into(), format!("{side} --ws-psk {text:?}: model `{m}` vs clap {:?}", got.map(|g| hexd(&g)))));
                return v;
            }
        }
    }
    // the URL: what the model's normalizeUrl says about the parts http::Uri reports
    if let Some((line, want)) = url_expectation(&c.url(port)) {
        let have = format!(
            "ok {} {}",
            args.server.0.scheme_str().unwrap_or("?"),
            hexd(args.server.0.path_and_query().map_or("", |p| p.as_str()).as_bytes())
        );
        if want != UrlWant::Model {
            v.fail = Some((FailKind::Model, "client-request url".into(), format!("http::Uri refuses {} but ServerUrl accepts it: `{have}`", c.url(port))));
            return v;
        }
        if let Some(d) = drv.as_mut() {
            let got = d.ask(&line);
            v.compared += 1;
            // model: `ok <scheme> <added port|-> <target>`
            let got_cmp = got.split(' ').enumerate().filter(|(i, _)| *i != 2).map(|(_, x)| x).collect::<Vec<_>>().join(" ");
            if got_cmp != have {
                v.fail = Some((FailKind::Model, "client-request url".into(), format!("accepted URL {}: model `{got}` vs ServerUrl `{have}`", c.url(port))));
                return v;
            }
        }
    }
    let outcome = env.rt.block_on(capture(&env.plain, &env.tls, &env.acceptor, c.tls(), args));
    let key: Vec<u8> = match &outcome {
        Outcome::Sent(cap) => cap.headers.iter().find(|(n, _)| n == "sec-websocket-key").map_or_else(|| b"k".to_vec(), |(_, v)| v.clone()),
        _ => b"dGhlIHNhbXBsZSBub25jZQ==".to_vec(),
    };
    let margs = model_args(args, &key);
    let model_req = drv.as_mut().map(|d| d.ask(&format!("clientreq {margs}")));
    let model_route = drv.as_mut().map(|d| {
        d.ask(&format!("clientroute {} {} {margs}", opt_hex(parsed.srv_psk.as_deref()), u8::from(parsed.srv_obfs)))
    });
    if let Some(m) = &model_req {
        v.compared += 1;
        v.text.push(format!("model            {m}"));
    }
    let cap = match outcome {
        Outcome::Garbled(e) => {
            count("cr-outcome/garbled".into());
            v.outcome = format!("garbled: {e}");
            v.fail = Some((FailKind::Model, "harness:client-request capture".into(), format!("the capture is not one HTTP/1.1 request head: {e}")));
            return v;
        }
        Outcome::TlsFailed(e) if c.hostname.is_some() => {
            // `--hostname` is also the TLS server name (ws_connect.rs:61; C17 `serverName_choice`): one that
            // is no DNS name or IP address ends the attempt before the ClientHello
            count("cr-outcome/tls-not-established (--hostname given: it is the TLS server name)".into());
            v.outcome = format!("TLS not established: {e}");
            return v;
        }
        Outcome::TlsFailed(e) => {
            count("cr-outcome/garbled".into());
            v.outcome = format!("TLS not established: {e}");
            v.fail = Some((FailKind::Model, "harness:client-request tls".into(), format!("no TLS session with the capturing listener: {e}")));
            return v;
        }
        Outcome::NoConnection(e) => {
            count("cr-outcome/no-connection".into());
            v.outcome = format!("the client ended without connecting: {e}");
            if let Some(m) = &model_req {
                if m != "unsent:hostname" {
                    v.fail = Some((FailKind::Model, "client-request unsent".into(), format!("the client ended without connecting ({e}); model `{m}`")));
                }
            }
            return v;
        }
        Outcome::NothingWritten => {
            count("cr-outcome/connected-nothing-written".into());
            v.outcome = "the client connected and closed without writing".into();
            if let Some(m) = &model_req {
                if !m.starts_with("unsent:value:") {
                    v.fail = Some((FailKind::Model, "client-request unsent".into(), format!("the client connected and wrote nothing; model `{m}`")));
                }
            }
            return v;
        }
        Outcome::Sent(cap) => cap,
    };
    count("cr-outcome/sent".into());
    v.outcome = "sent".into();
    v.nontrivial = true;
    let got_line = capture_line(&cap);
    v.text.push(format!("captured         {got_line}"));
    if let Some(m) = &model_req {
        if *m != got_line {
            v.fail = Some((FailKind::Model, "client-request request".into(), format!("captured request `{got_line}` vs model `{m}`")));
            return v;
        }
    }
    if !cap.target.starts_with('/') || http::Uri::from_str(&cap.target).is_err() {
        // a URL with a query and no path (`ws://host?x`): `ServerUrl` keeps `?x` and tungstenite writes it as
        // the request target. No origin-form target, so no in-process request; hyper's own answer only.
        count("cr-outcome/sent, request target not in origin form".into());
        let psk: Option<&'static HeaderValue> = parsed.srv_psk.as_ref().map(|p| &*Box::leak(Box::new(HeaderValue::from_bytes(p).expect("psk is a header value"))));
        let st = env.wire_base.clone().with_ws_psk(psk).obfs(parsed.srv_obfs).with_backend_http2_support(false);
        let s = env.rt.block_on(wire_status(st, cap.raw.clone()));
        v.text.push(format!("server (TCP)     {s:?}"));
        v.status = s.clone().unwrap_or(0);
        if s == Ok(101) {
            v.fail = Some((FailKind::Impl, "client-request tunnel-for-malformed-target".into(), format!("request target `{}` and the server opens a tunnel", cap.target)));
        } else if model_route.as_ref().is_some_and(|m| m.starts_with("upgrade:")) {
            v.fail = Some((FailKind::Model, "client-request route".into(), format!("request target `{}`: model `{}` vs the real server {s:?}", cap.target, model_route.clone().unwrap_or_default())));
        }
        return v;
    }
    // what any HTTP/1.1 server reads: values without outer white space
    let conc = Conc {
        cfg: Cfg { psk: parsed.srv_psk.clone(), obfs: parsed.srv_obfs, not_found: NOT_FOUND.to_vec() },
        method: cap.method.clone(),
        target: cap.target.clone(),
        onup: cap.headers.iter().any(|(n, _)| n == "upgrade"),
        headers: cap.headers.iter().map(|(n, val)| (n.clone(), trim_ows(val))).collect(),
        open: false,
    };
    let o = env.imp.eval(&conc);
    let t = env.imp.eval(&conc.with_target(UNKNOWN));
    v.status = o.status;
    count(format!("cr-status/{}", o.status));
    let impl_line = o.line.clone().unwrap_or_else(|e| format!("crash {e}"));
    v.text.push(format!("server (in-proc) {impl_line}"));
    // (a) the same bytes through hyper's own parser: the in-process request below is what hyper hands on
    let psk: Option<&'static HeaderValue> = parsed.srv_psk.as_ref().map(|p| &*Box::leak(Box::new(HeaderValue::from_bytes(p).expect("psk is a header value"))));
    let nf: &'static str = std::str::from_utf8(NOT_FOUND).expect("utf8");
    let st = env.wire_base.clone().with_ws_psk(psk).with_not_found_resp(nf).obfs(parsed.srv_obfs).with_backend_http2_support(false);
    match env.rt.block_on(wire_status(st, cap.raw.clone())) {
        Ok(s) => {
            v.text.push(format!("server (TCP)     status {s}"));
            if s != o.status {
                v.fail = Some((FailKind::Model, "harness:client-request in-process-vs-wire".into(), format!("the captured bytes get {s} from run_listener but {} in-process", o.status)));
                return v;
            }
        }
        Err(e) => {
            v.fail = Some((FailKind::Model, "harness:client-request wire".into(), format!("no answer from run_listener: {e}")));
            return v;
        }
    }
    // (b) the cross-component monitor, from the two command lines only
    let names = c.custom_names();
    let collides = names.iter().any(|n| GATE_NAMES.contains(&n.as_str()));
    // the keys of the two PARSED command lines (what `ClientArgs` / `ServerArgs` hold)
    let presented = presented(args);
    let srv_key = parsed.srv_psk.clone();
    let agree = srv_key.is_none() || srv_key == presented;
    let padded = |k: &Option<String>| k.as_ref().is_some_and(|k| k.starts_with([' ', '\t']) || k.ends_with([' ', '\t']));
    count(format!(
        "cr-psk/{}{}",
        match (&args.ws_psk, &parsed.srv_psk) {
            (None, None) => "neither",
            (Some(_), None) => "client-only",
            (None, Some(_)) => "server-only",
            (Some(a), Some(b)) if a.as_bytes() == b.as_slice() => "equal",
            _ => "different",
        },
        if padded(&c.psk) || padded(&c.srv_psk) { ", a key typed with blanks around it" } else { "" }
    ));
    for n in &names {
        count(format!("cr-override/{}", if GATE_NAMES.contains(&n.as_str()) || n == PSK_NAME || n == "host" { n.as_str() } else { "(not a gate header)" }));
    }
    if names.is_empty() {
        count("cr-override/(no custom header)".into());
    }
    count(format!("cr-path/{}", if c.path() == "/ws" { "tunnel path" } else if c.path_query.is_empty() { "none" } else { "other" }));
    count(format!("cr-scheme/{}", if c.scheme.is_empty() { "(none)" } else { c.scheme.as_str() }));
    if c.path() == "/ws" && !collides && agree && o.status != 101 {
        v.fail = Some((
            FailKind::Impl,
            "client-request right-key-refused".into(),
            format!("the client presents the key the server is configured with (typed {:?} / {:?}), overrides nothing the gate looks at and names /ws, but the server answers {}", c.psk, c.srv_psk, o.status),
        ));
        return v;
    }
    if srv_key.is_some() && srv_key != presented && o.status == 101 {
        v.fail = Some((
            FailKind::Impl,
            "client-request wrong-key-admitted".into(),
            format!(
                "the server's key is {:?} (typed {:?}), the client presents {:?} (typed --ws-psk {:?}), and the server opens a tunnel",
                srv_key.as_ref().map(|p| String::from_utf8_lossy(p).into_owned()), c.srv_psk, presented.as_ref().map(|p| String::from_utf8_lossy(p).into_owned()), c.psk
            ),
        ));
        return v;
    }
    // (c) the property's own oracle on this request
    if let Some((kind, why)) = oracle(&conc, &o, &t) {
        v.fail = Some((FailKind::Impl, format!("client-request {kind}"), why));
        return v;
    }
    // (d) the model's decision on the received request
    if let Some(m) = &model_route {
        v.compared += 1;
        v.text.push(format!("model decision   {m}"));
        let want = if let Some(acc) = m.strip_prefix("upgrade:") {
            let hs = vec![
                ("connection".to_string(), b"upgrade".to_vec()),
                ("upgrade".to_string(), b"websocket".to_vec()),
                ("sec-websocket-protocol".to_string(), b"penguin-v7".to_vec()),
                ("sec-websocket-accept".to_string(), unhex(acc).unwrap_or_default()),
            ];
            resp_line(101, &hs, b"")
        } else if m == "health" {
            resp_line(200, &[], b"OK")
        } else if m == "version" {
            resp_line(200, &[], pkg_version().as_bytes())
        } else if m.starts_with("fallback:") {
            resp_line(404, &[], NOT_FOUND)
        } else {
            format!("?{m}")
        };
        if want != impl_line {
            v.fail = Some((FailKind::Model, "client-request route".into(), format!("model `{m}` (i.e. `{want}`) vs the real server `{impl_line}`")));
            return v;
        }
    }
    v
}

// ---------------------------------------------------------------------------------------------
// URL normalisation
// ---------------------------------------------------------------------------------------------

#[derive(PartialEq, Eq, Debug)]
enum UrlWant {
    /// the model decides
    Model,
    /// `http::Uri` / `Authority` (black boxes) refuse the text: `ServerUrl` has to refuse it too
    BlackBoxRefuses,
}

/// The driver line for a URL text and who decides, or `None` for texts outside the model (non-ASCII).
fn url_expectation(text: &str) -> Option<(String, UrlWant)> {
    if !text.is_ascii() {
        return None;
    }
    let full = if text.contains("://") { text.to_string() } else { format!("ws://{text}") };
    let Ok(uri) = http::Uri::from_str(&full) else { return Some((String::new(), UrlWant::BlackBoxRefuses)) };
    let parts = uri.into_parts();
    let Some(scheme) = parts.scheme else { return Some((String::new(), UrlWant::BlackBoxRefuses)) };
    let has_port = parts.authority.as_ref().is_some_and(|a| a.port_u16().is_some());
    if let Some(a) = &parts.authority {
        if !has_port && http::uri::Authority::from_str(&format!("{a}:80")).is_err() {
            return Some((String::new(), UrlWant::BlackBoxRefuses));
        }
    }
    let line = format!(
        "normurl {} {} {} {}",
        scheme.as_str(),
        parts.authority.as_ref().map_or_else(|| "none".to_string(), |a| hexd(a.as_str().as_bytes())),
        u8::from(has_port),
        parts.path_and_query.as_ref().map_or_else(|| "none".to_string(), |p| hexd(p.as_str().as_bytes()))
    );
    if scheme.as_str().contains(' ') || parts.authority.as_ref().is_some_and(|a| a.as_str().is_empty()) {
        return Some((String::new(), UrlWant::BlackBoxRefuses));
    }
    Some((line, UrlWant::Model))
}

const URL_SCHEMES: [&str; 13] = ["", "ws", "wss", "http", "https", "WS", "Wss", "HTTP", "Https", "ftp", "file", "h2", "ws+unix"];
const URL_AUTH: [&str; 15] = [
    "example.com", "example.com:8080", "127.0.0.1", "127.0.0.1:1", "[::1]", "[::1]:443", "user@example.com", "user:pw@example.com:99", "EXAMPLE.COM",
    "a.b-c.d:65535", "example.com:", "example.com:0", "example.com:65536", "", "xn--mnchen-3ya.example",
];
const URL_PATHS: [&str; 15] = ["", "/", "/ws", "/ws/", "/WS", "/ws?x=1", "/ws?", "?x=1", "/a/b/ws", "/health", "/ws#frag", "//ws", "/w%73", "/ws;p=1", "/ws ws"];

pub fn url_part(rep: &mut Report, drv: &mut Option<Driver>, full: bool) {
    // the three pools are small: enumerate their product (both tiers), `full` adds nothing here
    let _ = full;
    let mut texts = vec![];
    for s in URL_SCHEMES {
        for a in URL_AUTH {
            for p in URL_PATHS {
                texts.push(if s.is_empty() { format!("{a}{p}") } else { format!("{s}://{a}{p}") });
            }
        }
    }
    let mut lines = vec![];
    let mut who = vec![];
    for t in &texts {
        let (line, want) = url_expectation(t).expect("ASCII");
        who.push(want);
        lines.push(if line.is_empty() { "normurl ws none 0 none".to_string() } else { line });
    }
    let answers: Vec<Option<String>> = match drv.as_mut() {
        Some(d) => d.batch(&lines).into_iter().map(Some).collect(),
        None => vec![None; lines.len()],
    };
    for ((t, want), ans) in texts.iter().zip(&who).zip(&answers) {
        let real = ServerUrl::from_str(t);
        // non-trivial: the crate's own rule decides (not `http::Uri` refusing the text)
        rep.case((*want == UrlWant::Model).then(|| fnv(format!("url {t}").as_bytes())));
        rep.count("part/client-request-url");
        let have = match &real {
            Ok(u) => format!(
                "ok {} {} {}",
                u.0.scheme_str().unwrap_or("?"),
                u.0.authority().map_or("?", |a| a.as_str()),
                hexd(u.0.path_and_query().map_or("", |p| p.as_str()).as_bytes())
            ),
            Err(e) => {
                let m = e.to_string();
                if m.starts_with("incorrect scheme") {
                    "err:incorrect-scheme".to_string()
                } else if m.starts_with("missing host") {
                    "err:missing-host".to_string()
                } else {
                    format!("err:black-box ({m})")
                }
            }
        };
        rep.count(&format!("url/{}", have.split(' ').next().unwrap_or("?").split('(').next().unwrap_or("?").trim()));
        if let Ok(u) = &real {
            let p = u.0.path();
            rep.count(if p == "/ws" { "url-accepted/path is the tunnel path" } else { "url-accepted/path is NOT the tunnel path (the client will get the fallback)" });
        }
        match want {
            UrlWant::BlackBoxRefuses => {
                rep.count("url-decided-by/http::Uri refuses");
                if real.is_ok() {
                    rep.fail(FailKind::Model, &format!("client-request url {t}"), &format!("http::Uri refuses `{t}` but ServerUrl accepts it: {have}"), json!({"op": "client-request-url", "url": t}));
                }
            }
            UrlWant::Model => {
                rep.count("url-decided-by/model");
                let Some(ans) = ans else { continue };
                rep.model_compared += 1;
                // model: `ok <scheme> <added port|-> <target>`; the authority is the text's own plus the added port
                let want_line = if let Some(rest) = ans.strip_prefix("ok ") {
                    let f: Vec<&str> = rest.split(' ').collect();
                    let full = if t.contains("://") { t.clone() } else { format!("ws://{t}") };
                    let auth = http::Uri::from_str(&full).ok().and_then(|u| u.authority().map(|a| a.as_str().to_string())).unwrap_or_default();
                    let auth = if f.get(1) == Some(&"-") { auth } else { format!("{auth}:{}", f.get(1).unwrap_or(&"?")) };
                    format!("ok {} {auth} {}", f.first().unwrap_or(&"?"), f.get(2).unwrap_or(&"?"))
                } else {
                    ans.clone()
                };
                if want_line != have {
                    rep.fail(FailKind::Model, &format!("client-request url {t}"), &format!("`{t}`: model `{want_line}` vs ServerUrl `{have}`"), json!({"op": "client-request-url", "url": t}));
                }
            }
        }
    }
}

// ---------------------------------------------------------------------------------------------
// Shrinking, the family, replay
// ---------------------------------------------------------------------------------------------

fn shrink_candidates(c: &CrCase) -> Vec<CrCase> {
    let mut v = vec![];
    for i in 0..c.headers.len() {
        let mut d = c.clone();
        d.headers.remove(i);
        v.push(d);
    }
    if c.hostname.is_some() {
        v.push(CrCase { hostname: None, ..c.clone() });
    }
    if c.scheme != "ws" {
        v.push(CrCase { scheme: "ws".into(), ..c.clone() });
    }
    if c.userinfo {
        v.push(CrCase { userinfo: false, ..c.clone() });
    }
    if c.path_query != "/ws" {
        v.push(CrCase { path_query: "/ws".into(), ..c.clone() });
    }
    if c.srv_obfs {
        v.push(CrCase { srv_obfs: false, ..c.clone() });
    }
    // the keys: shorter, together when they are the same
    let shorter = |k: &str| -> Vec<String> {
        let ch: Vec<char> = k.chars().collect();
        let mut out = vec![];
        if ch.len() > 1 {
            for i in 0..ch.len() {
                let mut d = ch.clone();
                d.remove(i);
                out.push(d.into_iter().collect());
            }
        }
        for (i, x) in ch.iter().enumerate() {
            if *x != 'k' && *x != ' ' && *x != '\t' {
                let mut d = ch.clone();
                d[i] = 'k';
                out.push(d.into_iter().collect());
            }
        }
        out
    };
    match (&c.psk, &c.srv_psk) {
        (Some(a), Some(b)) if a == b => {
            for s in shorter(a) {
                v.push(CrCase { psk: Some(s.clone()), srv_psk: Some(s), ..c.clone() });
            }
        }
        _ => {
            if let Some(a) = &c.psk {
                for s in shorter(a) {
                    v.push(CrCase { psk: Some(s), ..c.clone() });
                }
                v.push(CrCase { psk: None, ..c.clone() });
            }
            if let Some(b) = &c.srv_psk {
                for s in shorter(b) {
                    v.push(CrCase { srv_psk: Some(s), ..c.clone() });
                }
                v.push(CrCase { srv_psk: None, ..c.clone() });
            }
        }
    }
    v
}

fn shrink(env: &mut CrEnv, drv: &mut Option<Driver>, c: CrCase, key: &str) -> CrCase {
    let mut cur = c;
    for _ in 0..200 {
        let mut changed = false;
        for cand in shrink_candidates(&cur) {
            let r = run_case(env, drv, &cand, None);
            if r.fail.as_ref().is_some_and(|(_, k, _)| k == key) {
                cur = cand;
                changed = true;
                break;
            }
        }
        if !changed {
            break;
        }
    }
    cur
}

pub fn family(args: &Args, rep: &mut Report) {
    let mut drv = args.driver.as_ref().map(|p| Driver::spawn(p, &[]).expect("spawn the Lean driver"));
    let full = args.tier == Tier::Thorough || args.flag("--full");
    url_part(rep, &mut drv, full);
    let mut env = match CrEnv::new() {
        Ok(e) => e,
        Err(e) => {
            rep.notes.push(format!("client-request: handshake part skipped ({e})"));
            return;
        }
    };
    let n: usize = args.opt("--cases").and_then(|s| s.parse().ok()).unwrap_or(if full { 6000 } else { 400 });
    let mut rng = Rng::new(args.seed).fork(14);
    // corpus first
    for (name, text) in corpus_files(args.corpus.as_deref()) {
        for l in text.lines() {
            let Ok(v) = serde_json::from_str::<Value>(l.trim()) else { continue };
            let Some(c) = CrCase::from_json(&v) else { continue };
            let r = run_case(&mut env, &mut drv, &c, Some(rep));
            rep.case(r.nontrivial.then(|| fnv(l.as_bytes())));
            rep.count(&format!("corpus/{name}"));
            rep.model_compared += r.compared;
            if let Some((kind, key, why)) = r.fail {
                rep.fail(kind, &format!("{key}: corpus {name}"), &format!("{why} [{}]", c.describe()), c.to_json());
            }
        }
    }
    let t0 = std::time::Instant::now();
    for _ in 0..n {
        let c = gen_case(&mut rng);
        let r = run_case(&mut env, &mut drv, &c, Some(rep));
        rep.case(r.nontrivial.then(|| fnv(format!("{c:?}").as_bytes())));
        rep.count("part/client-request-handshake");
        rep.model_compared += r.compared;
        if rep.samples.len() < 4 && r.nontrivial && (r.status == 101 || rep.evaluations % 97 == 0) {
            rep.sample(json!({"case": c.describe(), "server status": r.status, "trace": r.text}));
        }
        if let Some((kind, key, why)) = r.fail {
            if rep.failures.iter().any(|f| f["key"].as_str().is_some_and(|k| k.starts_with(&key))) {
                continue;
            }
            let small = shrink(&mut env, &mut drv, c.clone(), &key);
            let r2 = run_case(&mut env, &mut drv, &small, None);
            let why2 = r2.fail.map_or(why, |(_, _, w)| w);
            rep.fail(kind, &key, &format!("{why2} [{}]", small.describe()), small.to_json());
        }
    }
    rep.notes.push(format!(
        "client-request: {n} generated command-line pairs, real client against a capturing listener (plain and TLS), in {:.1} s",
        t0.elapsed().as_secs_f64()
    ));
}

pub fn replay(c: &CrCase) -> i32 {
    let mut env = match CrEnv::new() {
        Ok(e) => e,
        Err(e) => {
            println!("cannot set the environment up: {e}");
            return 2;
        }
    };
    let mut drv = std::env::args().skip_while(|a| a != "--driver").nth(1).and_then(|p| Driver::spawn(&p, &[]).ok());
    println!("{}", c.describe());
    let r = run_case(&mut env, &mut drv, c, None);
    println!("outcome          {}", r.outcome);
    for l in &r.text {
        println!("{l}");
    }
    match r.fail {
        Some((kind, key, why)) => {
            println!("FAILS ({} / {key}): {why}", if kind == FailKind::Impl { "implementation" } else { "model or harness" });
            1
        }
        None => {
            println!("holds on this input");
            0
        }
    }
}
