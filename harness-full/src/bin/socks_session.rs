//! C18 (anchor file also of C01): the client's SOCKS *session handler*
//! (`penguin/src/client/handle_remote/socks.rs`: `on_socks_accept`, `socks4`, `socks5`,
//! `handle_connect`, `handle_associate`) against the Lean model `Penguin.SocksSession` (`drv_socks`,
//! op `sess`) and against monitors written from RFC 1928 / the SOCKS4 and SOCKS4a notes.
//!
//! The REAL handler runs in-process through the add-only hook `verif_on_socks_accept`
//! (`fixes/hook-socks-session.diff`, `#[cfg(penguin_rs_verif)]`) on one end of a `tokio::io::duplex`,
//! under a current-thread runtime with a paused clock (a 1 ms sleep returns exactly when every task is
//! idle: that is how "the handler is waiting" is observed).  The harness plays
//!  * the local SOCKS client: writes the input chunk by chunk, optionally closes its sending side,
//!    reads what the handler writes back;
//!  * the main loop: receives the `StreamCommand` from `stream_command_rx`, notes what had been written
//!    to the client at that moment, and answers with a real `MuxStream` of an in-process
//!    `Multiplexor` pair (or drops the sender: "main loop exited"); a `HandlerResources` whose command
//!    receiver is gone makes `reserve()` fail;
//!  * the far end of the tunnel: reads the server-side `MuxStream` (what comes out must be exactly the
//!    bytes the client sent behind its request);
//!  * for ASSOCIATE: a UDP client that sends one datagram to the address named in the reply and
//!    expects it on `datagram_rx` (the reply names the relay's own socket).
//!
//! One case = one line (driver request, corpus entry and replay alike):
//!   sess <reserve 0|1> <stream 0|1> <udp v4|v6|fail> <eof 0|1> <chunk,chunk,…|->
//! The driver gets the same line with the UDP answer made concrete (`ok:4:7f000001:4660`, `bindfail`).
//! After every chunk (and after the close) the settled state is compared with the model run on the
//! bytes sent so far:  `<result>|w=<written>|req=<host>:<port>,…|relay=…|left=<bytes out of the tunnel>`,
//! and at the end ` wb=<written when the tunnel was requested>`.
//!
//! Non-trivial case: the input gets past the version byte (version 4 or 5 and at least one more byte).

use bytes::Bytes;
use futures_util::FutureExt;
use penguin_mux::ws::{Message, WebSocket};
use penguin_mux::{Datagram, Multiplexor, MuxStream};
use pvhf::{Args, Driver, FailKind, Report, Rng, Tier, Value, catch, fnv, hex, hexd, json, unhex};
use rusty_penguin_lib::client::{
    HandlerResources, StreamCommand, VerifFatalError, VerifSocksSessionError, verif_on_socks_accept,
};
use std::net::{IpAddr, Ipv4Addr, Ipv6Addr, SocketAddr};
use std::sync::{Arc, Mutex};
use std::task::{Context, Poll};
use std::time::Duration;
use tokio::io::{AsyncReadExt, AsyncWriteExt, BufReader, DuplexStream};
use tokio::sync::mpsc;
use tokio::task::JoinHandle;

// ---------------------------------------------------------------------------------------------
// Written from RFC 1928 (sections 3-6) and from SOCKS4.protocol / SOCKS4A.protocol only.
// ---------------------------------------------------------------------------------------------

/// `VER NMETHODS METHODS` (section 3).
fn rfc_greeting(methods: &[u8]) -> Vec<u8> {
    let mut v = vec![0x05, u8::try_from(methods.len()).expect("at most 255 methods")];
    v.extend_from_slice(methods);
    v
}

/// `VER CMD RSV ATYP DST.ADDR DST.PORT` (section 4); ATYP 1 = 4 octets, 3 = length octet + name, 4 = 16 octets.
fn rfc_request5(cmd: u8, rsv: u8, atyp: u8, raw: &[u8], port: u16) -> Vec<u8> {
    let mut v = vec![0x05, cmd, rsv, atyp];
    if atyp == 3 {
        v.push(u8::try_from(raw.len()).expect("domain name <= 255 octets"));
    }
    v.extend_from_slice(raw);
    v.extend_from_slice(&port.to_be_bytes());
    v
}

/// `VN(4) CD DSTPORT DSTIP USERID NULL`.
fn s4_request(cmd: u8, port: u16, ip: [u8; 4], userid: &[u8]) -> Vec<u8> {
    let mut v = vec![0x04, cmd];
    v.extend_from_slice(&port.to_be_bytes());
    v.extend_from_slice(&ip);
    v.extend_from_slice(userid);
    v.push(0);
    v
}

/// SOCKS4a: `DSTIP = 0.0.0.x`, x nonzero, and the domain name after the user id, NUL-terminated.
fn s4a_request(cmd: u8, port: u16, x: u8, userid: &[u8], domain: &[u8]) -> Vec<u8> {
    let mut v = s4_request(cmd, port, [0, 0, 0, x], userid);
    v.extend_from_slice(domain);
    v.push(0);
    v
}

/// What a server that follows the RFCs understands of the bytes a client sent.
#[derive(Debug, Clone, PartialEq, Eq)]
enum RefD {
    /// nothing, or a strict prefix of a dialogue that could still become valid
    Incomplete,
    /// first byte is neither 4 nor 5, or a SOCKS5 request that does not start with 5
    BadVersion,
    /// SOCKS5 method list without `NO AUTHENTICATION REQUIRED`
    NoNoauth,
    /// SOCKS5 request with an ATYP other than 1, 3, 4
    BadAtyp,
    /// a complete request: protocol version, command, address (type, raw octets), port, bytes behind it
    Request { v: u8, cmd: u8, atyp: u8, raw: Vec<u8>, port: u16, rest: Vec<u8> },
}

fn ref_dialogue(b: &[u8]) -> RefD {
    let Some(&ver) = b.first() else { return RefD::Incomplete };
    match ver {
        5 => {
            let Some(&n) = b.get(1) else { return RefD::Incomplete };
            let n = n as usize;
            if b.len() < 2 + n {
                return RefD::Incomplete;
            }
            if !b[2..2 + n].contains(&0) {
                return RefD::NoNoauth;
            }
            let r = &b[2 + n..];
            if r.is_empty() {
                return RefD::Incomplete;
            }
            if r[0] != 5 {
                return RefD::BadVersion;
            }
            if r.len() < 4 {
                return RefD::Incomplete;
            }
            let (cmd, atyp) = (r[1], r[3]);
            let (off, alen) = match atyp {
                1 => (4, 4),
                4 => (4, 16),
                3 => match r.get(4) {
                    None => return RefD::Incomplete,
                    Some(&l) => (5, l as usize),
                },
                _ => return RefD::BadAtyp,
            };
            if r.len() < off + alen + 2 {
                return RefD::Incomplete;
            }
            let raw = r[off..off + alen].to_vec();
            let port = u16::from_be_bytes([r[off + alen], r[off + alen + 1]]);
            RefD::Request { v: 5, cmd, atyp, raw, port, rest: r[off + alen + 2..].to_vec() }
        }
        4 => {
            if b.len() < 8 {
                return RefD::Incomplete;
            }
            let cmd = b[1];
            let port = u16::from_be_bytes([b[2], b[3]]);
            let ip = [b[4], b[5], b[6], b[7]];
            let after = &b[8..];
            let Some(z) = after.iter().position(|x| *x == 0) else { return RefD::Incomplete };
            let after_uid = &after[z + 1..];
            if ip[0] == 0 && ip[1] == 0 && ip[2] == 0 && ip[3] != 0 {
                let Some(z2) = after_uid.iter().position(|x| *x == 0) else { return RefD::Incomplete };
                RefD::Request { v: 4, cmd, atyp: 3, raw: after_uid[..z2].to_vec(), port, rest: after_uid[z2 + 1..].to_vec() }
            } else {
                RefD::Request { v: 4, cmd, atyp: 1, raw: ip.to_vec(), port, rest: after_uid.to_vec() }
            }
        }
        _ => RefD::BadVersion,
    }
}

/// The host of a tunnel request names the address put into the SOCKS request: for the IP kinds the
/// text parses (std) to the same octets, a domain name is passed through byte for byte.
fn host_matches(atyp: u8, raw: &[u8], host: &[u8]) -> bool {
    match atyp {
        3 => host == raw,
        1 => std::str::from_utf8(host).ok().and_then(|s| s.parse::<Ipv4Addr>().ok()).is_some_and(|a| a.octets()[..] == *raw),
        4 => std::str::from_utf8(host).ok().and_then(|s| s.parse::<Ipv6Addr>().ok()).is_some_and(|a| a.octets()[..] == *raw),
        _ => false,
    }
}

/// A SOCKS5 reply as a client reads it (section 6): `VER REP RSV ATYP BND.ADDR BND.PORT`, nothing after it.
fn client_parse_reply5(b: &[u8]) -> Option<(u8, SocketAddr)> {
    if b.len() < 4 || b[0] != 5 || b[2] != 0 {
        return None;
    }
    match b[3] {
        1 if b.len() == 10 => {
            let ip = Ipv4Addr::new(b[4], b[5], b[6], b[7]);
            Some((b[1], SocketAddr::new(IpAddr::V4(ip), u16::from_be_bytes([b[8], b[9]]))))
        }
        4 if b.len() == 22 => {
            let mut o = [0u8; 16];
            o.copy_from_slice(&b[4..20]);
            Some((b[1], SocketAddr::new(IpAddr::V6(Ipv6Addr::from(o)), u16::from_be_bytes([b[20], b[21]]))))
        }
        _ => None,
    }
}

/// Everything a SOCKS5 server may have said so far: nothing; a method selection (`05 00` or `05 FF`);
/// after `05 00` one reply with a defined reply code.  `Err` says what is wrong.
fn client_reads5(w: &[u8]) -> Result<(Option<u8>, Option<(u8, SocketAddr)>), String> {
    if w.is_empty() {
        return Ok((None, None));
    }
    if w.len() < 2 || w[0] != 5 {
        return Err(format!("not a method selection message: {}", hex(&w[..w.len().min(2)])));
    }
    let m = w[1];
    if m != 0 && m != 0xff {
        return Err(format!("method {m:#04x} selected, which was never implemented"));
    }
    if w.len() == 2 {
        return Ok((Some(m), None));
    }
    if m == 0xff {
        return Err("bytes after NO ACCEPTABLE METHODS".into());
    }
    match client_parse_reply5(&w[2..]) {
        Some((rep, a)) if rep <= 8 => Ok((Some(m), Some((rep, a)))),
        Some((rep, _)) => Err(format!("undefined reply code {rep}")),
        None => Err(format!("not one RFC 1928 reply: {}", hex(&w[2..]))),
    }
}

/// The SOCKS4 reply: 8 bytes, `VN = 0`, `CD` 90..93.
fn client_reads4(w: &[u8]) -> Result<Option<u8>, String> {
    if w.is_empty() {
        return Ok(None);
    }
    if w.len() != 8 || w[0] != 0 || !(90..=93).contains(&w[1]) {
        return Err(format!("not one SOCKS4 reply: {}", hex(w)));
    }
    Ok(Some(w[1]))
}

// ---------------------------------------------------------------------------------------------
// Cases
// ---------------------------------------------------------------------------------------------

#[derive(Clone, Copy, Debug, PartialEq, Eq)]
enum Udp {
    V4,
    V6,
    Fail,
}

#[derive(Clone, Debug, PartialEq, Eq)]
struct Case {
    reserve: bool,
    stream: bool,
    udp: Udp,
    eof: bool,
    chunks: Vec<Vec<u8>>,
}

fn b01(b: bool) -> &'static str {
    if b { "1" } else { "0" }
}

fn chunks_text(chunks: &[Vec<u8>]) -> String {
    if chunks.is_empty() { "-".into() } else { chunks.iter().map(|c| hex(c)).collect::<Vec<_>>().join(",") }
}

impl Case {
    fn line(&self) -> String {
        let u = match self.udp {
            Udp::V4 => "v4",
            Udp::V6 => "v6",
            Udp::Fail => "fail",
        };
        format!("sess {} {} {} {} {}", b01(self.reserve), b01(self.stream), u, b01(self.eof), chunks_text(&self.chunks))
    }
    fn parse(line: &str) -> Option<Self> {
        let t: Vec<&str> = line.split_whitespace().collect();
        if t.len() != 6 || t[0] != "sess" {
            return None;
        }
        let bit = |s: &str| match s {
            "0" => Some(false),
            "1" => Some(true),
            _ => None,
        };
        let udp = match t[3] {
            "v4" => Udp::V4,
            "v6" => Udp::V6,
            "fail" => Udp::Fail,
            _ => return None,
        };
        let chunks = if t[5] == "-" {
            vec![]
        } else {
            t[5].split(',').map(|c| unhex(c).filter(|b| !b.is_empty())).collect::<Option<Vec<_>>>()?
        };
        Some(Self { reserve: bit(t[1])?, stream: bit(t[2])?, udp, eof: bit(t[4])?, chunks })
    }
    fn bytes(&self) -> Vec<u8> {
        self.chunks.concat()
    }
    fn local_addr(&self) -> &'static str {
        match self.udp {
            Udp::V4 => "127.0.0.1",
            Udp::V6 => "::1",
            // TEST-NET-1 (RFC 5737): not an address of this host, `bind` fails with EADDRNOTAVAIL
            Udp::Fail => "192.0.2.1",
        }
    }
}

// ---------------------------------------------------------------------------------------------
// The real handler in its world
// ---------------------------------------------------------------------------------------------

/// In-memory WebSocket: two unbounded queues.
struct ChanWs {
    tx: mpsc::UnboundedSender<Message>,
    rx: mpsc::UnboundedReceiver<Message>,
}

fn ws_pair() -> (ChanWs, ChanWs) {
    let (atx, brx) = mpsc::unbounded_channel();
    let (btx, arx) = mpsc::unbounded_channel();
    (ChanWs { tx: atx, rx: arx }, ChanWs { tx: btx, rx: brx })
}

impl WebSocket for ChanWs {
    fn poll_ready_unpin(&mut self, _cx: &mut Context<'_>) -> Poll<Result<(), penguin_mux::Error>> {
        Poll::Ready(Ok(()))
    }
    fn start_send_unpin(&mut self, item: Message) -> Result<(), penguin_mux::Error> {
        self.tx.send(item).map_err(|_| penguin_mux::Error::WebSocket(Box::new(pvhf::simws::SimError("peer gone"))))
    }
    fn poll_flush_unpin(&mut self, _cx: &mut Context<'_>) -> Poll<Result<(), penguin_mux::Error>> {
        Poll::Ready(Ok(()))
    }
    fn poll_close_unpin(&mut self, _cx: &mut Context<'_>) -> Poll<Result<(), penguin_mux::Error>> {
        Poll::Ready(Ok(()))
    }
    fn poll_next_unpin(&mut self, cx: &mut Context<'_>) -> Poll<Option<Result<Message, penguin_mux::Error>>> {
        self.rx.poll_recv(cx).map(|o| o.map(Ok))
    }
}

/// The settled state after a chunk (or after the close), as both sides print it.
#[derive(Clone, Debug, PartialEq, Eq)]
struct State {
    res: String,
    written: Vec<u8>,
    reqs: Vec<(Vec<u8>, u16)>,
    relay: Option<SocketAddr>,
    left: Vec<u8>,
}

fn relay_text(a: Option<SocketAddr>) -> String {
    match a {
        None => "-".into(),
        Some(SocketAddr::V4(a)) => format!("4:{}:{}", hex(&a.ip().octets()), a.port()),
        Some(SocketAddr::V6(a)) => format!("6:{}:{}", hex(&a.ip().octets()), a.port()),
    }
}

impl State {
    fn text(&self) -> String {
        let reqs = if self.reqs.is_empty() {
            "-".to_string()
        } else {
            self.reqs.iter().map(|(h, p)| format!("{}:{p}", hexd(h))).collect::<Vec<_>>().join(",")
        };
        format!("{}|w={}|req={}|relay={}|left={}", self.res, hexd(&self.written), reqs, relay_text(self.relay), hexd(&self.left))
    }
}

#[derive(Clone, Debug, Default)]
struct Obs {
    states: Vec<State>,
    /// what had been written to the client when the (first) `StreamCommand` arrived
    wb: Option<Vec<u8>>,
    delivered: bool,
    far_eof: bool,
    /// `Some(Err(..))`: the datagram sent to the address of the ASSOCIATE reply did not arrive
    probe: Option<Result<(), String>>,
    infra: Option<String>,
}

impl Obs {
    fn line(&self) -> String {
        format!(
            "{} wb={}",
            self.states.iter().map(State::text).collect::<Vec<_>>().join(";"),
            self.wb.as_ref().map_or("none".to_string(), |w| hexd(w))
        )
    }
    fn last(&self) -> Option<&State> {
        self.states.last()
    }
}

fn classify(e: &VerifSocksSessionError) -> String {
    use penguin_socks::Error as S;
    match e {
        VerifSocksSessionError::Socks(S::ProcessSocksRequest("bind udp socket", _)) => "err:bind-udp".into(),
        VerifSocksSessionError::Socks(S::ProcessSocksRequest("get udp socket local addr", _)) => "err:udp-local-addr".into(),
        VerifSocksSessionError::Socks(S::ProcessSocksRequest(ctx, io)) => {
            if io.kind() == std::io::ErrorKind::UnexpectedEof {
                format!("err:eof:{}", ctx.replace(' ', "-"))
            } else {
                format!("err:io-{:?}:{}", io.kind(), ctx.replace(' ', "-"))
            }
        }
        VerifSocksSessionError::Socks(S::SocksVersion(v)) => format!("err:version:{v}"),
        VerifSocksSessionError::Socks(S::AddressType(t)) => format!("err:atyp:{t}"),
        VerifSocksSessionError::Socks(S::InvalidCommand(c)) => format!("err:invalid-command:{c}"),
        VerifSocksSessionError::Socks(other) => format!("err:socks-other:{other}"),
        VerifSocksSessionError::DataTransfer(io) => format!("err:data-transfer-{:?}", io.kind()),
        VerifSocksSessionError::OtherAuth => "err:other-auth".into(),
        VerifSocksSessionError::Fatal(VerifFatalError::RequestStream) => "err:fatal:request-stream".into(),
        VerifSocksSessionError::Fatal(VerifFatalError::MainLoopExitWithoutSendingStream) => "err:fatal:main-loop-exit".into(),
        VerifSocksSessionError::Fatal(other) => format!("err:fatal-other:{other}"),
    }
}

/// Returns when every task of the runtime is idle (paused clock: the timer fires by auto-advance only
/// when nothing else can run).
async fn settle() {
    tokio::time::sleep(Duration::from_millis(1)).await;
}

struct Chans {
    hr: &'static HandlerResources,
    cmd_rx: Option<mpsc::Receiver<StreamCommand>>,
    dg_rx: mpsc::Receiver<Datagram>,
}

fn fresh_chans(closed: bool) -> Chans {
    let (hr, cmd_rx, dg_rx) = HandlerResources::create();
    let hr: &'static HandlerResources = Box::leak(Box::new(hr));
    Chans { hr, cmd_rx: if closed { None } else { Some(cmd_rx) }, dg_rx }
}

/// The handler resources shared by the cases of a run: one whose main loop is there, one whose main
/// loop has gone (command receiver dropped).
struct Shared {
    open: Chans,
    closed: Chans,
    probes_left: usize,
    v6_ok: bool,
}

struct World {
    client: Option<DuplexStream>,
    handle: Option<JoinHandle<Result<(), VerifSocksSessionError>>>,
    finished: Option<String>,
    written: Vec<u8>,
    client_eof_seen: bool,
    reqs: Vec<(Vec<u8>, u16)>,
    wb: Option<Vec<u8>>,
    delivered: bool,
    far: Arc<Mutex<(Vec<u8>, bool)>>,
    far_task: Option<JoinHandle<()>>,
    muxes: Vec<Multiplexor>,
}

impl World {
    fn drain_client(&mut self) {
        let Some(c) = self.client.as_mut() else { return };
        let mut buf = [0u8; 4096];
        while !self.client_eof_seen {
            match c.read(&mut buf).now_or_never() {
                Some(Ok(0)) => self.client_eof_seen = true,
                Some(Ok(n)) => self.written.extend_from_slice(&buf[..n]),
                Some(Err(_)) => self.client_eof_seen = true,
                None => break,
            }
        }
    }

    /// Let everything run until idle; play the main loop for every request that shows up.
    async fn quiesce(&mut self, case: &Case, cmd_rx: Option<&mut mpsc::Receiver<StreamCommand>>) -> Result<(), String> {
        let mut cmd_rx = cmd_rx;
        for _round in 0..8 {
            settle().await;
            self.drain_client();
            let cmd = cmd_rx.as_mut().and_then(|rx| rx.try_recv().ok());
            let Some(cmd) = cmd else { break };
            let (tx, host, port) = cmd.verif_into_parts();
            self.reqs.push((host.to_vec(), port));
            if self.wb.is_none() {
                self.wb = Some(self.written.clone());
            }
            if case.stream {
                let (a, b) = ws_pair();
                let cm = Multiplexor::new(a);
                let sm = Multiplexor::new(b);
                let (cs, ss) = tokio::join!(cm.new_stream_channel(&host, port), sm.accept_stream_channel());
                let cs: MuxStream = cs.map_err(|e| format!("harness mux: open failed: {e}"))?;
                let mut ss: MuxStream = ss.map_err(|e| format!("harness mux: accept failed: {e}"))?;
                if ss.dest_host != host || ss.dest_port != port {
                    return Err("harness mux: the accepted stream names another target".into());
                }
                let far = self.far.clone();
                self.far_task = Some(tokio::spawn(async move {
                    let mut buf = vec![0u8; 16384];
                    loop {
                        match ss.read(&mut buf).await {
                            Ok(0) | Err(_) => {
                                far.lock().expect("far").1 = true;
                                // keep the stream (its sending side stays open) until the case is torn down
                                std::future::pending::<()>().await;
                            }
                            Ok(n) => far.lock().expect("far").0.extend_from_slice(&buf[..n]),
                        }
                    }
                }));
                self.muxes.push(cm);
                self.muxes.push(sm);
                tx.send(cs).ok();
                self.delivered = true;
            } else {
                drop(tx);
            }
        }
        if self.finished.is_none() && self.handle.as_ref().is_some_and(JoinHandle::is_finished) {
            let h = self.handle.take().expect("handle");
            self.finished = Some(match h.await {
                Ok(Ok(())) => "ok".into(),
                Ok(Err(e)) => classify(&e),
                Err(je) => {
                    if je.is_panic() {
                        let p = je.into_panic();
                        let msg = p.downcast_ref::<&str>().map(|s| (*s).to_string()).or_else(|| p.downcast_ref::<String>().cloned()).unwrap_or_default();
                        format!("panic:{}", msg.replace(' ', "_"))
                    } else {
                        "cancelled".into()
                    }
                }
            });
        }
        Ok(())
    }

    fn state(&self) -> State {
        let res = match &self.finished {
            Some(r) => r.clone(),
            None if self.delivered => "bridge".into(),
            None => "pending".into(),
        };
        // the ASSOCIATE reply, if there is one by now: `05 00` then a reply with REP = 0 while no tunnel was requested
        let relay = if self.reqs.is_empty() && self.written.len() > 2 && self.written[..2] == [5, 0] {
            client_parse_reply5(&self.written[2..]).filter(|(rep, _)| *rep == 0).map(|(_, a)| a)
        } else {
            None
        };
        State { res, written: self.written.clone(), reqs: self.reqs.clone(), relay, left: self.far.lock().expect("far").0.clone() }
    }
}

async fn run_real(case: &Case, sh: &mut Shared) -> Obs {
    let mut obs = Obs::default();
    // a case that may start a relay and be probed gets resources of its own (the relay registers its
    // clients in them)
    let want_probe = sh.probes_left > 0 && !case.eof && case.udp != Udp::Fail && matches!(ref_dialogue(&case.bytes()), RefD::Request { v: 5, cmd: 3, ref rest, .. } if rest.is_empty());
    let mut own = if want_probe && case.reserve { Some(fresh_chans(false)) } else { None };
    let chans: &mut Chans = match own.as_mut() {
        Some(c) => c,
        None if case.reserve => &mut sh.open,
        None => &mut sh.closed,
    };
    let (client, handler_end) = tokio::io::duplex(1 << 22);
    let handle = tokio::spawn(verif_on_socks_accept(Box::new(BufReader::new(handler_end)), case.local_addr(), chans.hr));
    let mut w = World {
        client: Some(client),
        handle: Some(handle),
        finished: None,
        written: vec![],
        client_eof_seen: false,
        reqs: vec![],
        wb: None,
        delivered: false,
        far: Arc::new(Mutex::new((vec![], false))),
        far_task: None,
        muxes: vec![],
    };
    let n = case.chunks.len();
    for (i, ch) in case.chunks.iter().enumerate() {
        if let Some(c) = w.client.as_mut() {
            // after the handler has returned its end is gone and the write fails: that is the client's problem
            let _ = c.write_all(ch).await;
        }
        let _ = i;
        if let Err(e) = w.quiesce(case, chans.cmd_rx.as_mut()).await {
            obs.infra = Some(e);
            break;
        }
        obs.states.push(w.state());
    }
    let _ = n;
    if obs.infra.is_none() && case.eof {
        if let Some(c) = w.client.as_mut() {
            let _ = c.shutdown().await;
        }
        if let Err(e) = w.quiesce(case, chans.cmd_rx.as_mut()).await {
            obs.infra = Some(e);
        } else {
            obs.states.push(w.state());
        }
    }
    // the relay named in the reply is really there: a datagram sent to it reaches the main loop
    if want_probe && obs.infra.is_none() {
        if let Some(State { res, relay: Some(addr), .. }) = obs.last().cloned() {
            if res == "pending" {
                sh.probes_left -= 1;
                let payload = b"probe-payload".to_vec();
                let mut dg = vec![0, 0, 0, 3, 10];
                dg.extend_from_slice(b"probe.test");
                dg.extend_from_slice(&4242u16.to_be_bytes());
                dg.extend_from_slice(&payload);
                let bind = if addr.is_ipv4() { "127.0.0.1:0" } else { "[::1]:0" };
                let r = (|| -> std::io::Result<()> {
                    let s = std::net::UdpSocket::bind(bind)?;
                    s.send_to(&dg, addr)?;
                    Ok(())
                })();
                let mut got = None;
                if r.is_ok() {
                    for i in 0..400 {
                        settle().await;
                        if let Ok(d) = chans.dg_rx.try_recv() {
                            got = Some(d);
                            break;
                        }
                        if i > 2 {
                            std::thread::sleep(Duration::from_micros(500));
                        }
                    }
                }
                obs.probe = Some(match (r, got) {
                    (Err(e), _) => Err(format!("cannot send to {addr}: {e}")),
                    (Ok(()), None) => Err(format!("a datagram sent to {addr} (the address of the reply) never reached the main loop")),
                    (Ok(()), Some(d)) => {
                        if d.target_host == Bytes::from_static(b"probe.test") && d.target_port == 4242 && d.data == payload {
                            Ok(())
                        } else {
                            Err(format!("the datagram relayed from {addr} names {:?}:{} with {} bytes", d.target_host, d.target_port, d.data.len()))
                        }
                    }
                });
            }
        }
    }
    obs.wb = w.wb.clone();
    obs.delivered = w.delivered;
    obs.far_eof = w.far.lock().expect("far").1;
    // tear down: the client goes away, then the tunnel, then whatever is left of the handler
    drop(w.client.take());
    settle().await;
    if let Some(t) = w.far_task.take() {
        t.abort();
    }
    w.muxes.clear();
    settle().await;
    if let Some(h) = w.handle.take() {
        h.abort();
        let _ = h.await;
    }
    // requests nobody looked at must not leak into the next case
    if let Some(rx) = chans.cmd_rx.as_mut() {
        while rx.try_recv().is_ok() {}
    }
    settle().await;
    obs
}

// ---------------------------------------------------------------------------------------------
// Monitors (they do not consult the model)
// ---------------------------------------------------------------------------------------------

fn monitors(case: &Case, obs: &Obs) -> Vec<(String, String)> {
    let mut bad: Vec<(String, String)> = vec![];
    let all = case.bytes();
    let rd = ref_dialogue(&all);
    let Some(fin) = obs.last().cloned().or_else(|| {
        // no chunk and no close: nothing was observed
        None
    }) else {
        return bad;
    };
    if fin.res.starts_with("panic") {
        bad.push(("session-panics".into(), format!("the handler panicked: {}", fin.res)));
    }
    let connect = matches!(rd, RefD::Request { cmd: 1, .. });
    // (1) a tunnel is requested only for a complete, well-formed CONNECT, and for its target
    if !fin.reqs.is_empty() {
        match &rd {
            RefD::Request { cmd: 1, atyp, raw, port, .. } => {
                let (h, p) = &fin.reqs[0];
                if fin.reqs.len() != 1 || !host_matches(*atyp, raw, h) || p != port {
                    bad.push((
                        "tunnel-target-wrong".into(),
                        format!(
                            "CONNECT to (atyp {atyp}, {}, port {port}) made the handler request {:?}",
                            hex(raw),
                            fin.reqs.iter().map(|(h, p)| format!("{}:{p}", String::from_utf8_lossy(h))).collect::<Vec<_>>()
                        ),
                    ));
                }
            }
            other => bad.push((
                "tunnel-requested-for-malformed-input".into(),
                format!("the client's bytes are {other:?} by the RFC, yet a tunnel to {}:{} was requested", String::from_utf8_lossy(&fin.reqs[0].0), fin.reqs[0].1),
            )),
        }
    }
    // (2) a well-formed CONNECT whose environment says yes is served, and the bytes behind the request come out of the tunnel
    if let RefD::Request { cmd: 1, rest, .. } = &rd {
        if case.reserve && case.stream {
            if !obs.delivered {
                bad.push(("wellformed-connect-not-served".into(), format!("a well-formed CONNECT ended as {} without a tunnel", fin.res)));
            } else {
                if fin.left != *rest {
                    let at = fin.left.iter().zip(rest.iter()).position(|(a, b)| a != b).unwrap_or(fin.left.len().min(rest.len()));
                    bad.push((
                        "optimistic-data-lost-or-altered".into(),
                        format!("{} bytes followed the request, {} came out of the tunnel; first difference at offset {at}", rest.len(), fin.left.len()),
                    ));
                }
                if case.eof != obs.far_eof {
                    bad.push((
                        "tunnel-end-not-propagated".into(),
                        format!("client closed its sending side: {}, far end of the tunnel saw the end: {}", case.eof, obs.far_eof),
                    ));
                }
            }
        }
    }
    // (3) what the client reads is RFC-conformant, and says what the RFC prescribes for this input
    match all.first() {
        None => {
            if !fin.written.is_empty() {
                bad.push(("reply-not-rfc".into(), "bytes were written to a client that sent nothing".into()));
            }
        }
        Some(5) => match client_reads5(&fin.written) {
            Err(why) => bad.push(("reply-not-rfc".into(), format!("SOCKS5: {why}"))),
            Ok((method, reply)) => {
                match &rd {
                    RefD::NoNoauth => {
                        if method != Some(0xff) || reply.is_some() || !fin.reqs.is_empty() {
                            bad.push(("no-acceptable-method-reply-wrong".into(), format!("no NOAUTH offered, the client reads {}", hex(&fin.written))));
                        }
                    }
                    RefD::Request { cmd, .. } if *cmd != 1 && *cmd != 3 => {
                        if method != Some(0) || reply.map(|r| r.0) != Some(7) {
                            bad.push(("unsupported-command-reply-wrong".into(), format!("command {cmd}: the client reads {}", hex(&fin.written))));
                        }
                    }
                    RefD::BadAtyp => {
                        if method != Some(0) || reply.map(|r| r.0) != Some(8) {
                            bad.push(("unsupported-atyp-reply-wrong".into(), format!("the client reads {}", hex(&fin.written))));
                        }
                    }
                    RefD::Request { cmd: 3, .. } if case.udp == Udp::Fail => {
                        if reply.map(|r| r.0) != Some(1) {
                            bad.push(("associate-bind-failure-reply-wrong".into(), format!("the client reads {}", hex(&fin.written))));
                        }
                    }
                    _ => {}
                }
                // a success reply to CONNECT only with a tunnel behind it
                if connect && !obs.delivered && reply.map(|r| r.0) == Some(0) {
                    bad.push(("success-reply-before-stream".into(), "REP = 00 although no stream was obtained".into()));
                }
            }
        },
        Some(4) => match client_reads4(&fin.written) {
            Err(why) => bad.push(("reply-not-rfc".into(), format!("SOCKS4: {why}"))),
            Ok(cd) => {
                if let RefD::Request { cmd, .. } = &rd {
                    if *cmd != 1 && cd != Some(91) {
                        bad.push(("unsupported-command-reply-wrong".into(), format!("SOCKS4 command {cmd}: the client reads {}", hex(&fin.written))));
                    }
                }
                if cd == Some(90) && !obs.delivered {
                    bad.push(("success-reply-before-stream".into(), "CD = 90 although no stream was obtained".into()));
                }
            }
        },
        Some(_) => {
            if !fin.written.is_empty() || !fin.reqs.is_empty() {
                bad.push(("reply-not-rfc".into(), format!("unknown version, yet the client reads {}", hex(&fin.written))));
            }
        }
    }
    // (4) at the moment the tunnel was requested nothing but the method selection had been written
    if let Some(wb) = &obs.wb {
        let expected: &[u8] = if all.first() == Some(&5) { &[5, 0] } else { &[] };
        if wb != expected {
            bad.push(("success-reply-before-stream".into(), format!("when the tunnel was requested the client had already been sent {}", hexd(wb))));
        }
    }
    // (5) the relay of an ASSOCIATE is at the address the reply names
    if let Some(Err(why)) = &obs.probe {
        bad.push(("associate-address-wrong".into(), why.clone()));
    }
    bad
}

// ---------------------------------------------------------------------------------------------
// Evaluation
// ---------------------------------------------------------------------------------------------

struct Runner {
    rt: tokio::runtime::Runtime,
    sh: Shared,
}

impl Runner {
    fn new(probes: usize) -> Self {
        let rt = tokio::runtime::Builder::new_current_thread().enable_all().start_paused(true).build().expect("runtime");
        let v6_ok = std::net::UdpSocket::bind("[::1]:0").is_ok();
        let sh = Shared { open: fresh_chans(false), closed: fresh_chans(true), probes_left: probes, v6_ok };
        Self { rt, sh }
    }
    fn run(&mut self, case: &Case) -> Obs {
        let sh = &mut self.sh;
        let rt = &self.rt;
        match catch(|| rt.block_on(run_real(case, sh))) {
            Ok(o) => o,
            Err(p) => Obs { infra: Some(format!("harness panic: {p}")), ..Obs::default() },
        }
    }
}

/// The driver request of a case: the UDP answer made concrete.
fn model_line(case: &Case, obs: &Obs) -> String {
    let udp = match case.udp {
        Udp::Fail => "bindfail".to_string(),
        _ => match obs.states.iter().find_map(|s| s.relay) {
            Some(a) => format!("ok:{}", relay_text(Some(a))),
            // no relay was started: the address does not matter
            None => "ok:4:7f000001:1".to_string(),
        },
    };
    format!("sess {} {} {} {} {}", b01(case.reserve), b01(case.stream), udp, b01(case.eof), chunks_text(&case.chunks))
}

fn nontrivial(case: &Case) -> Option<u64> {
    let b = case.bytes();
    if b.len() >= 2 && (b[0] == 4 || b[0] == 5) { Some(fnv(case.line().as_bytes())) } else { None }
}

/// Smaller case that still fails the same monitor.
fn shrink_impl(run: &mut Runner, case: &Case, key: &str) -> Case {
    let mut budget = 1500usize;
    let mut fails = |c: &Case, run: &mut Runner| -> bool {
        if budget == 0 {
            return false;
        }
        budget -= 1;
        let o = run.run(c);
        o.infra.is_none() && monitors(c, &o).iter().any(|(k, _)| k == key)
    };
    let mut cur = case.clone();
    // one chunk
    if cur.chunks.len() > 1 {
        let cand = Case { chunks: vec![cur.bytes()], ..cur.clone() };
        if fails(&cand, run) {
            cur = cand;
        }
    }
    if cur.chunks.len() == 1 {
        let bytes = pvhf::shrink_bytes(cur.bytes(), |b| {
            let cand = Case { chunks: if b.is_empty() { vec![] } else { vec![b.to_vec()] }, ..cur.clone() };
            fails(&cand, run)
        });
        cur.chunks = if bytes.is_empty() { vec![] } else { vec![bytes] };
    }
    cur
}

struct Ctx {
    rep: Report,
    drv: Option<Driver>,
    run: Runner,
    pending: Vec<(Case, Obs)>,
}

impl Ctx {
    fn eval(&mut self, case: Case, bucket: &str) {
        if case.udp == Udp::V6 && !self.run.sh.v6_ok {
            self.rep.count("skipped/no-ipv6-loopback");
            return;
        }
        let obs = self.run.run(&case);
        self.rep.count(bucket);
        self.rep.case(nontrivial(&case));
        if let Some(i) = &obs.infra {
            self.rep.fail(FailKind::Model, &format!("harness: {}", i.chars().take(80).collect::<String>()), i, json!({"line": case.line()}));
            return;
        }
        if let Some(f) = obs.last() {
            self.rep.count(&format!("result/{}", f.res.split(':').take(2).collect::<Vec<_>>().join(":")));
        }
        if obs.probe.is_some() {
            self.rep.count("associate-relay-probed");
        }
        for (key, desc) in monitors(&case, &obs) {
            if self.rep.failures.iter().any(|f| f["key"] == key.as_str()) {
                continue;
            }
            let small = shrink_impl(&mut self.run, &case, &key);
            let o2 = self.run.run(&small);
            let desc2 = monitors(&small, &o2).into_iter().find(|(k, _)| *k == key).map_or(desc.clone(), |(_, d)| d);
            self.rep.fail(FailKind::Impl, &key, &desc2, json!({"line": small.line(), "found_in": case.line(), "implementation": o2.line()}));
        }
        if self.rep.samples.len() < 12 && self.rep.evaluations % 211 == 1 {
            self.rep.sample(json!({"case": case.line().chars().take(160).collect::<String>(), "implementation": obs.line().chars().take(240).collect::<String>()}));
        }
        if self.drv.is_some() {
            self.pending.push((case, obs));
            if self.pending.len() >= 256 {
                self.flush();
            }
        }
    }

    fn flush(&mut self) {
        let pend = std::mem::take(&mut self.pending);
        let Some(drv) = self.drv.as_mut() else { return };
        if pend.is_empty() {
            return;
        }
        let lines: Vec<String> = pend.iter().map(|(c, o)| model_line(c, o)).collect();
        let answers = drv.batch(&lines);
        for (((case, obs), ml), ans) in pend.iter().zip(lines.iter()).zip(answers.iter()) {
            self.rep.model_compared += 1;
            let il = obs.line();
            if *ans != il {
                // smaller: one chunk, if the disagreement survives
                let mut shown = (case.clone(), ml.clone(), ans.clone(), il.clone());
                if case.chunks.len() > 1 {
                    let c1 = Case { chunks: vec![case.bytes()], ..case.clone() };
                    let o1 = self.run.run(&c1);
                    let m1 = model_line(&c1, &o1);
                    let a1 = self.drv.as_mut().expect("driver").ask(&m1);
                    if a1 != o1.line() {
                        shown = (c1, m1, a1, o1.line());
                    }
                }
                let (ms, is) = first_difference(&shown.2, &shown.3);
                self.rep.fail(
                    FailKind::Model,
                    &format!("model {}", shown.0.line().chars().take(160).collect::<String>()),
                    &format!("model `{ms}` vs implementation `{is}`"),
                    json!({"line": shown.0.line(), "driver_request": shown.1, "model": ms, "impl": is}),
                );
            }
        }
    }
}

fn first_difference(a: &str, b: &str) -> (String, String) {
    let (sa, sb): (Vec<&str>, Vec<&str>) = (a.split(';').collect(), b.split(';').collect());
    for i in 0..sa.len().max(sb.len()) {
        let (x, y) = (sa.get(i).copied().unwrap_or("<none>"), sb.get(i).copied().unwrap_or("<none>"));
        if x != y {
            let cut = |s: &str| s.chars().take(400).collect::<String>();
            return (format!("[state {i}] {}", cut(x)), format!("[state {i}] {}", cut(y)));
        }
    }
    (a.chars().take(400).collect(), b.chars().take(400).collect())
}

// ---------------------------------------------------------------------------------------------
// Generators
// ---------------------------------------------------------------------------------------------

fn port(r: &mut Rng) -> u16 {
    match r.below(6) {
        0 => 0,
        1 => 1,
        2 => 65535,
        3 => 80,
        _ => r.below(65536) as u16,
    }
}

fn nulfree(r: &mut Rng, n: usize) -> Vec<u8> {
    (0..n).map(|_| r.range(1, 255) as u8).collect()
}

fn small_len(r: &mut Rng) -> usize {
    match r.below(8) {
        0 => 0,
        1 => 1,
        2 => 255,
        3 => 254,
        _ => r.range(2, 40) as usize,
    }
}

/// A method list: with NOAUTH somewhere (or not), lengths 0, 1, 255 and in between.
fn methods(r: &mut Rng, with_noauth: bool) -> Vec<u8> {
    let n = match r.below(6) {
        0 => usize::from(with_noauth),
        1 => 255,
        2 => 2,
        _ => r.range(1, 12) as usize,
    };
    let mut m: Vec<u8> = (0..n).map(|_| r.range(1, 255) as u8).collect();
    if with_noauth {
        if m.is_empty() {
            m.push(0);
        } else {
            let i = r.below(m.len() as u64) as usize;
            m[i] = 0;
        }
    }
    m
}

fn addr5(r: &mut Rng) -> (u8, Vec<u8>) {
    match r.below(3) {
        0 => (1, r.bytes(4)),
        1 => (4, if r.chance(1, 4) { let mut v = vec![0u8; 16]; v[15] = r.next() as u8; v } else { r.bytes(16) }),
        _ => {
            let n = small_len(r);
            (3, r.bytes(n))
        }
    }
}

fn trailing(r: &mut Rng, big: bool) -> Vec<u8> {
    let n = match r.below(if big { 10 } else { 6 }) {
        0 | 1 => 0,
        2 => 1,
        3 => r.range(2, 64) as usize,
        4 => r.range(65, 1024) as usize,
        5 => 2,
        6 => 4096,
        7 => *r.pick(&[8191usize, 8192, 8193]),
        8 => r.range(1025, 9000) as usize,
        _ => r.range(9001, 20_000) as usize,
    };
    r.bytes(n)
}

/// (dialogue, bytes behind it): a SOCKS5 greeting + request.
fn dialogue5(r: &mut Rng, cmd: u8, with_noauth: bool) -> Vec<u8> {
    let mut d = rfc_greeting(&methods(r, with_noauth));
    let (atyp, raw) = addr5(r);
    let rsv = if r.chance(1, 8) { r.next() as u8 } else { 0 };
    let p = port(r);
    d.extend(rfc_request5(cmd, rsv, atyp, &raw, p));
    d
}

fn dialogue4(r: &mut Rng, cmd: u8) -> Vec<u8> {
    let uid = { let n = small_len(r); nulfree(r, n) };
    if r.chance(1, 2) {
        let dom = { let n = small_len(r); nulfree(r, n) };
        let (p, x) = (port(r), r.range(1, 255) as u8);
        s4a_request(cmd, p, x, &uid, &dom)
    } else {
        let mut ip = [r.next() as u8, r.next() as u8, r.next() as u8, r.next() as u8];
        match r.below(5) {
            0 => ip = [0, 0, 0, 0],
            1 => ip[0] = 0,
            2 => { ip[0] = 0; ip[1] = 0; ip[2] = r.range(1, 255) as u8; }
            _ => {}
        }
        if ip[0] == 0 && ip[1] == 0 && ip[2] == 0 && ip[3] != 0 {
            ip[0] = 10;
        }
        let p = port(r);
        s4_request(cmd, p, ip, &uid)
    }
}

fn cmd_byte(r: &mut Rng) -> u8 {
    match r.below(8) {
        0..=3 => 1,
        4 => 2,
        5 => 3,
        6 => *r.pick(&[0u8, 4, 0x7f, 0xff]),
        _ => r.next() as u8,
    }
}

/// Cut `head` (the dialogue) and `tail` (optimistic data) into chunks.
fn chunking(r: &mut Rng, head: &[u8], tail: &[u8], style: u64) -> Vec<Vec<u8>> {
    let mut all = head.to_vec();
    all.extend_from_slice(tail);
    let mut cuts: Vec<usize> = match style {
        // everything at once
        0 => vec![],
        // the dialogue byte by byte, the rest in one piece
        1 => (1..=head.len()).collect(),
        // the dialogue in one piece, then the rest
        2 => vec![head.len()],
        // the first byte of the optimistic data rides on the request
        3 => vec![(head.len() + 1).min(all.len())],
        // random cuts
        _ => {
            let k = r.range(1, 6) as usize;
            (0..k).map(|_| r.below(all.len() as u64 + 1) as usize).collect()
        }
    };
    // a few cuts inside a long tail
    if tail.len() > 2 && r.chance(1, 2) && style != 0 {
        for _ in 0..r.range(1, 3) {
            cuts.push(head.len() + r.below(tail.len() as u64) as usize);
        }
    }
    cuts.sort_unstable();
    cuts.dedup();
    let mut out = vec![];
    let mut at = 0;
    for c in cuts {
        if c > at && c < all.len() {
            out.push(all[at..c].to_vec());
            at = c;
        }
    }
    if at < all.len() {
        out.push(all[at..].to_vec());
    }
    out
}

fn env(r: &mut Rng) -> (bool, bool, Udp) {
    let reserve = !r.chance(1, 10);
    let stream = !r.chance(1, 6);
    let udp = match r.below(5) {
        0 => Udp::Fail,
        1 | 2 => Udp::V6,
        _ => Udp::V4,
    };
    (reserve, stream, udp)
}

fn wellformed_part(cx: &mut Ctx, r: &mut Rng, n: usize, big: bool) {
    for i in 0..n {
        let v5 = r.chance(3, 5);
        let cmd = cmd_byte(r);
        let noauth = !r.chance(1, 8);
        let head = if v5 { dialogue5(r, cmd, noauth) } else { dialogue4(r, cmd) };
        let tail = trailing(r, big);
        let (reserve, stream, udp) = env(r);
        let style = (i as u64) % 6;
        let chunks = chunking(r, &head, &tail, style);
        let eof = r.chance(1, 3);
        let bucket = format!("wellformed/{}/cmd{}", if v5 { "v5" } else { "v4" }, match cmd { 1 => "1", 2 => "2", 3 => "3", _ => "other" });
        cx.eval(Case { reserve, stream, udp, eof, chunks }, &bucket);
    }
}

/// Boundary values, each combination once: address type x domain length x port x method list.
fn boundary_part(cx: &mut Ctx, r: &mut Rng) {
    let ports = [0u16, 1, 65535];
    let addrs: Vec<(u8, Vec<u8>)> = vec![
        (1, vec![0, 0, 0, 0]),
        (1, vec![255, 255, 255, 255]),
        (1, vec![0, 0, 0, 7]),
        (4, vec![0; 16]),
        (4, { let mut v = vec![0; 16]; v[10] = 0xff; v[11] = 0xff; v[12] = 1; v[15] = 9; v }),
        (4, r.bytes(16)),
        (3, vec![]),
        (3, vec![b'a']),
        (3, r.bytes(255)),
        (3, vec![0; 3]),
    ];
    let mlists: Vec<Vec<u8>> = vec![vec![0], vec![2, 0], { let mut m = vec![1u8; 255]; m[254] = 0; m }, vec![], vec![2], vec![1u8; 255]];
    for (atyp, raw) in &addrs {
        for p in ports {
            for ms in &mlists {
                for cmd in [1u8, 2, 3, 9] {
                    let mut head = rfc_greeting(ms);
                    head.extend(rfc_request5(cmd, 0, *atyp, raw, p));
                    let tl = *r.pick(&[0usize, 1, 17]);
                    let tail = if cmd == 1 { r.bytes(tl) } else { vec![] };
                    let style = r.below(5);
                    let chunks = chunking(r, &head, &tail, style);
                    let udp = if r.chance(1, 2) { Udp::V4 } else { Udp::V6 };
                    cx.eval(Case { reserve: true, stream: true, udp, eof: false, chunks }, "boundary/v5");
                }
            }
        }
    }
    for ulen in [0usize, 1, 255] {
        for dlen in [None, Some(0usize), Some(1), Some(255)] {
            for p in ports {
                for cmd in [1u8, 2, 0] {
                    let uid = nulfree(r, ulen);
                    let head = match dlen {
                        None => s4_request(cmd, p, [0, 0, 1, 0], &uid),
                        Some(d) => {
                            let dom = nulfree(r, d);
                            s4a_request(cmd, p, 1, &uid, &dom)
                        }
                    };
                    let tl = *r.pick(&[0usize, 1, 33]);
                    let tail = r.bytes(tl);
                    let style = r.below(5);
                    let chunks = chunking(r, &head, &tail, style);
                    let eof = r.chance(1, 2);
                    cx.eval(Case { reserve: true, stream: true, udp: Udp::V4, eof, chunks }, "boundary/v4");
                }
            }
        }
    }
}

/// Every truncation point of a dialogue with the stream ended there (with the stream left open every
/// prefix is covered by the byte-by-byte chunkings: one state per byte).
fn truncation_part(cx: &mut Ctx, r: &mut Rng, n: usize) {
    for _ in 0..n {
        let v5 = r.chance(1, 2);
        let cmd = cmd_byte(r);
        let noauth = !r.chance(1, 10);
        let head = if v5 { dialogue5(r, cmd, noauth) } else { dialogue4(r, cmd) };
        let (reserve, stream, udp) = env(r);
        let step = if head.len() > 80 { head.len() / 40 } else { 1 };
        let mut k = 0;
        while k <= head.len() {
            let chunks = if k == 0 { vec![] } else { vec![head[..k].to_vec()] };
            cx.eval(Case { reserve, stream, udp, eof: true, chunks }, "truncated-then-closed");
            k += if k + 12 >= head.len() { 1 } else { step };
        }
        // and once byte by byte, open
        let chunks = chunking(r, &head, &[], 1);
        cx.eval(Case { reserve, stream, udp, eof: false, chunks }, "byte-by-byte-open");
    }
}

fn versions_part(cx: &mut Ctx, r: &mut Rng) {
    for v in 0u16..=255 {
        let v = v as u8;
        if v == 4 || v == 5 {
            continue;
        }
        let mut b = vec![v];
        let n = r.below(12) as usize;
        b.extend(r.bytes(n));
        let eof = r.chance(1, 2);
        cx.eval(Case { reserve: true, stream: true, udp: Udp::V4, eof, chunks: vec![b] }, "unknown-version");
    }
    for cmd in 0u16..=255 {
        let cmd = cmd as u8;
        let mut head = rfc_greeting(&[0]);
        head.extend(rfc_request5(cmd, 0, 1, &[10, 0, 0, 1], 80));
        cx.eval(Case { reserve: true, stream: true, udp: Udp::V4, eof: false, chunks: vec![head] }, "every-command/v5");
        let head = s4_request(cmd, 80, [10, 0, 0, 1], b"u");
        cx.eval(Case { reserve: true, stream: true, udp: Udp::V4, eof: false, chunks: vec![head] }, "every-command/v4");
    }
    for atyp in 0u16..=255 {
        let atyp = atyp as u8;
        let mut head = rfc_greeting(&[0]);
        head.extend_from_slice(&[5, 1, 0, atyp]);
        let fill = r.bytes(20);
        head.extend(fill);
        cx.eval(Case { reserve: true, stream: true, udp: Udp::V4, eof: false, chunks: vec![head] }, "every-atyp");
    }
}

/// The malformed stream: random bytes, mutations of well-formed dialogues.
fn malformed_part(cx: &mut Ctx, r: &mut Rng, n: usize) {
    for _ in 0..n {
        let mut b = match r.below(4) {
            0 => {
                let n = r.range(0, 40) as usize;
                let mut b = r.bytes(n);
                if !b.is_empty() && r.chance(3, 4) {
                    b[0] = if r.chance(1, 2) { 4 } else { 5 };
                }
                b
            }
            1 => {
                // SOCKS5 with a small method count so that the request is reached
                let mut b = vec![5, r.below(3) as u8];
                let n = r.range(0, 30) as usize;
                b.extend(r.bytes(n).into_iter().map(|x| if x > 200 { 0 } else { x % 8 }));
                b
            }
            _ => {
                let cmd = cmd_byte(r);
                let mut d = if r.chance(1, 2) { dialogue5(r, cmd, true) } else { dialogue4(r, cmd) };
                for _ in 0..r.range(1, 3) {
                    if d.is_empty() {
                        break;
                    }
                    let i = r.below(d.len() as u64) as usize;
                    match r.below(3) {
                        0 => d[i] = r.next() as u8,
                        1 => { d.remove(i); }
                        _ => d.insert(i, r.next() as u8),
                    }
                }
                d
            }
        };
        let n = r.below(6) as usize;
        b.extend(r.bytes(n));
        let (reserve, stream, udp) = env(r);
        let chunks = chunking(r, &b, &[], 4);
        let eof = r.chance(1, 2);
        cx.eval(Case { reserve, stream, udp, eof, chunks }, "malformed");
    }
}

// ---------------------------------------------------------------------------------------------

fn replay(path: &str, args: &Args) -> i32 {
    let text = std::fs::read_to_string(path).expect("read replay file");
    let v: Value = serde_json::from_str(&text).expect("replay json");
    let rp = if v.get("replay").is_some() { &v["replay"] } else { &v };
    let Some(case) = rp["line"].as_str().and_then(Case::parse) else {
        println!("replay file has no `sess` line");
        return 2;
    };
    let mut run = Runner::new(1);
    let obs = run.run(&case);
    println!("case           {}", case.line());
    println!("by the RFC     {:?}", ref_dialogue(&case.bytes()));
    println!("implementation {}", obs.line());
    if let Some(p) = &args.driver {
        let mut d = Driver::spawn(p, &[]).expect("start Lean driver");
        println!("model          {}", d.ask(&model_line(&case, &obs)));
    }
    if let Some(i) = &obs.infra {
        println!("harness problem: {i}");
        return 2;
    }
    let bad = monitors(&case, &obs);
    if bad.is_empty() {
        println!("holds on this input");
        0
    } else {
        for (k, d) in bad {
            println!("FAILS [{k}]: {d}");
        }
        1
    }
}

fn main() {
    pvhf::quiet_panics();
    let args = Args::parse();
    if let Some(p) = &args.replay {
        std::process::exit(replay(p, &args));
    }
    let rule = "one case = one run of the real on_socks_accept on an in-memory stream: a client dialogue (SOCKS5 greeting + \
request / SOCKS4 / SOCKS4a request generated from the RFC grammars: every address type, domain / user-id lengths 0, 1, 255, \
ports 0, 1, 65535, method lists with and without NOAUTH, commands 1, 2, 3 and all others, every version, command and ATYP byte; \
mutated and random byte strings), followed by 0..20000 bytes of optimistic data, cut into chunks (all at once, byte by byte, at \
the request boundary, one byte past it, random), the sending side closed or left open, with an environment (main loop there or \
gone, stream granted or refused, UDP bind on 127.0.0.1 / ::1 / a non-local address). After every chunk the settled state (result \
so far, bytes written to the client, tunnel requested, relay address, bytes out of the far end of the tunnel) is compared with \
the Lean model on the bytes sent so far. Non-trivial = version 4 or 5 and at least one more byte; distinct by the case line";
    let probes = match args.tier {
        Tier::Quick => 48,
        Tier::Thorough => 600,
    };
    let mut cx = Ctx {
        rep: Report::new("socks_session", &args, rule),
        drv: args.driver.as_deref().map(|p| Driver::spawn(p, &[]).expect("start Lean driver")),
        run: Runner::new(probes),
        pending: vec![],
    };
    for (name, text) in pvhf::corpus_files(args.corpus.as_deref()) {
        for c in text.lines().filter_map(|l| Case::parse(l.trim())) {
            cx.eval(c, &format!("corpus/{name}"));
        }
    }
    let rng = Rng::new(args.seed);
    let (nw, nt, nm, big) = match args.tier {
        Tier::Quick => (3000, 30, 4000, false),
        Tier::Thorough => (40_000, 300, 60_000, true),
    };
    boundary_part(&mut cx, &mut rng.fork(1));
    versions_part(&mut cx, &mut rng.fork(2));
    wellformed_part(&mut cx, &mut rng.fork(3), nw, big);
    truncation_part(&mut cx, &mut rng.fork(4), nt);
    malformed_part(&mut cx, &mut rng.fork(5), nm);
    cx.flush();
    cx.rep.exhaustive = false;
    cx.rep.notes.push(
        "enumerated completely: every version byte, every command byte (SOCKS5 and SOCKS4), every ATYP byte, the boundary grid \
(address kinds x ports 0/1/65535 x method lists of 0/1/2/255 entries x commands 1/2/3/9; SOCKS4 user-id and SOCKS4a domain lengths \
0/1/255), every truncation point of the sampled dialogues (closed: one case each; open: one state per byte of a byte-by-byte \
chunking); addresses, ports and payloads are sampled"
            .into(),
    );
    cx.rep.notes.push(
        "not exercised (modelled, proved about, but not reachable from outside): `socket.local_addr()` failing after a successful \
bind; a write to the local client failing; `reserve()` staying pending on a full command channel"
            .into(),
    );
    if let Some(d) = &cx.drv {
        cx.rep.notes.push(format!("driver lines: {}", d.lines));
    }
    cx.rep.finish(&args);
    std::process::exit(i32::from(cx.rep.has_failures()));
}
