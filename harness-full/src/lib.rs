//! Shared helpers for the sub-commands that link the whole `rusty-penguin` crate.
pub use pvh::*;
